(* C19 - model of the (D)TLS gate of a libcoap session (definitions only).

   Mirrors, for the datagram transports (UDP as the contrast case, DTLS):
     coap_send_internal / coap_send_pdu / coap_session_delay_pdu      (src/coap_net.c, coap_session.c)
     coap_session_connected (flush of the delay queue, NSTART)        (src/coap_session.c)
     coap_session_disconnected_lkd, coap_cancel_session_messages,
     coap_session_mfree                                               (src/coap_session.c, coap_net.c)
     coap_handle_dgram_for_proto                                      (src/coap_net.c)
     coap_dtls_establish, coap_dtls_close                             (src/coap_dtls.c)
     do_gnutls_handshake, coap_dtls_new_client_session, coap_dtls_send,
     coap_dtls_receive, coap_dtls_hello, coap_dtls_handle_timeout,
     psk_client_callback, psk_server_callback                         (src/coap_gnutls.c)
     ClientHello pre-filter of coap_endpoint_get_session              (src/coap_session.c)
     the ACK branch of coap_dispatch (con_active, flush)              (src/coap_net.c)

   The TLS library is external: the value returned by the k-th gnutls_handshake /
   gnutls_record_send / gnutls_record_recv / gnutls_dtls_cookie_verify call is given by oracle
   functions (record tg_oracle); theorems quantify over them. *)
From Coq Require Import ZArith List Bool.
From LibcoapV Require Import Base.Bytes.
Import ListNotations.
Local Open Scope Z_scope.

(* ------------------------------------------------------------------ constants *)
(* GnuTLS return codes used by do_gnutls_handshake / coap_dtls_send / coap_dtls_receive *)
Definition tg_E_SUCCESS := 0.
Definition tg_E_AGAIN := -28.
Definition tg_E_INTERRUPTED := -52.
Definition tg_E_INSUFFICIENT_CREDENTIALS := -32.
Definition tg_E_FATAL_ALERT_RECEIVED := -12.
Definition tg_E_UNEXPECTED_HANDSHAKE_PACKET := -19.
Definition tg_E_UNEXPECTED_PACKET := -15.
Definition tg_E_WARNING_ALERT_RECEIVED := -16.
Definition tg_E_NO_CERTIFICATE_FOUND := -49.
Definition tg_E_CERTIFICATE_REQUIRED := -112.
Definition tg_E_DECRYPTION_FAILED := -24.
Definition tg_E_CERTIFICATE_ERROR := -43.
Definition tg_E_UNKNOWN_CIPHER_SUITE := -21.
Definition tg_E_NO_CIPHER_SUITES := -87.
Definition tg_E_INVALID_SESSION := -10.
Definition tg_E_SESSION_EOF := -328.
Definition tg_E_PREMATURE_TERMINATION := -110.
Definition tg_E_TIMEDOUT := -319.
Definition tg_E_PULL_ERROR := -54.
Definition tg_E_PUSH_ERROR := -53.

(* coap_event_t *)
Definition tg_EV_DTLS_CLOSED := 0.
Definition tg_EV_DTLS_CONNECTED := 478.      (* 0x01DE *)
Definition tg_EV_DTLS_ERROR := 512.          (* 0x0200 *)
Definition tg_EV_SESSION_CONNECTED := 8193.  (* 0x2001 *)
(* coap_nack_reason_t *)
Definition tg_NACK_TOO_MANY_RETRIES := 0.
Definition tg_NACK_NOT_DELIVERABLE := 1.
Definition tg_NACK_TLS_FAILED := 3.
Definition tg_NACK_TLS_LAYER_FAILED := 6.

(* ------------------------------------------------------------------ session *)
Inductive tg_proto := TgUdp | TgDtls.
Inductive tg_state := TgNone | TgConnecting | TgHandshake | TgCsm | TgEstablished.
Inductive tg_type := TgClient | TgServer | TgHello.

Definition tg_proto_eqb (a b : tg_proto) : bool :=
  match a, b with TgUdp, TgUdp | TgDtls, TgDtls => true | _, _ => false end.
Definition tg_state_eqb (a b : tg_state) : bool :=
  match a, b with
  | TgNone, TgNone | TgConnecting, TgConnecting | TgHandshake, TgHandshake
  | TgCsm, TgCsm | TgEstablished, TgEstablished => true
  | _, _ => false end.
Definition tg_type_eqb (a b : tg_type) : bool :=
  match a, b with TgClient, TgClient | TgServer, TgServer | TgHello, TgHello => true | _, _ => false end.

(* a CoAP message as far as the gate is concerned: message id, Confirmable?, cleartext encoding *)
Record tg_msg := { tm_id : Z; tm_con : bool; tm_bytes : list Z }.

Record tg_sess := {
  ts_proto : tg_proto;
  ts_type : tg_type;
  ts_state : tg_state;
  ts_delayq : list tg_msg;       (* session->delayqueue *)
  ts_sendq : list tg_msg;        (* this session's Confirmables in context->sendqueue *)
  ts_con_active : Z;
  ts_nstart : Z;
  ts_tls : bool;                 (* session->tls != NULL *)
  ts_tls_est : bool;             (* g_env->established *)
  ts_sent_alert : bool;          (* g_env->sent_alert *)
  ts_to_count : Z;               (* session->dtls_timeout_count *)
  ts_max_retransmit : Z;
  ts_app_ref : bool;             (* the application holds its reference (client sessions) *)
  ts_freed : bool;               (* coap_session_free ran *)
  ts_sock : bool;                (* coap_netif_available: the client socket is open *)
  ts_dtls_event : option Z;      (* session->dtls_event (None = -1) *)
  ts_khs : Z; ts_ktx : Z; ts_krx : Z; ts_kck : Z   (* number of TLS library calls made so far *)
}.

Definition tg_set_type (s : tg_sess) v := Build_tg_sess (ts_proto s) v (ts_state s) (ts_delayq s) (ts_sendq s) (ts_con_active s) (ts_nstart s) (ts_tls s) (ts_tls_est s) (ts_sent_alert s) (ts_to_count s) (ts_max_retransmit s) (ts_app_ref s) (ts_freed s) (ts_sock s) (ts_dtls_event s) (ts_khs s) (ts_ktx s) (ts_krx s) (ts_kck s).
Definition tg_set_state (s : tg_sess) v := Build_tg_sess (ts_proto s) (ts_type s) v (ts_delayq s) (ts_sendq s) (ts_con_active s) (ts_nstart s) (ts_tls s) (ts_tls_est s) (ts_sent_alert s) (ts_to_count s) (ts_max_retransmit s) (ts_app_ref s) (ts_freed s) (ts_sock s) (ts_dtls_event s) (ts_khs s) (ts_ktx s) (ts_krx s) (ts_kck s).
Definition tg_set_delayq (s : tg_sess) v := Build_tg_sess (ts_proto s) (ts_type s) (ts_state s) v (ts_sendq s) (ts_con_active s) (ts_nstart s) (ts_tls s) (ts_tls_est s) (ts_sent_alert s) (ts_to_count s) (ts_max_retransmit s) (ts_app_ref s) (ts_freed s) (ts_sock s) (ts_dtls_event s) (ts_khs s) (ts_ktx s) (ts_krx s) (ts_kck s).
Definition tg_set_sendq (s : tg_sess) v := Build_tg_sess (ts_proto s) (ts_type s) (ts_state s) (ts_delayq s) v (ts_con_active s) (ts_nstart s) (ts_tls s) (ts_tls_est s) (ts_sent_alert s) (ts_to_count s) (ts_max_retransmit s) (ts_app_ref s) (ts_freed s) (ts_sock s) (ts_dtls_event s) (ts_khs s) (ts_ktx s) (ts_krx s) (ts_kck s).
Definition tg_set_con_active (s : tg_sess) v := Build_tg_sess (ts_proto s) (ts_type s) (ts_state s) (ts_delayq s) (ts_sendq s) v (ts_nstart s) (ts_tls s) (ts_tls_est s) (ts_sent_alert s) (ts_to_count s) (ts_max_retransmit s) (ts_app_ref s) (ts_freed s) (ts_sock s) (ts_dtls_event s) (ts_khs s) (ts_ktx s) (ts_krx s) (ts_kck s).
Definition tg_set_nstart (s : tg_sess) v := Build_tg_sess (ts_proto s) (ts_type s) (ts_state s) (ts_delayq s) (ts_sendq s) (ts_con_active s) v (ts_tls s) (ts_tls_est s) (ts_sent_alert s) (ts_to_count s) (ts_max_retransmit s) (ts_app_ref s) (ts_freed s) (ts_sock s) (ts_dtls_event s) (ts_khs s) (ts_ktx s) (ts_krx s) (ts_kck s).
(* tls, established and sent_alert change together (a g_env is created, marked, or freed) *)
Definition tg_set_tls (s : tg_sess) t e a := Build_tg_sess (ts_proto s) (ts_type s) (ts_state s) (ts_delayq s) (ts_sendq s) (ts_con_active s) (ts_nstart s) t e a (ts_to_count s) (ts_max_retransmit s) (ts_app_ref s) (ts_freed s) (ts_sock s) (ts_dtls_event s) (ts_khs s) (ts_ktx s) (ts_krx s) (ts_kck s).
Definition tg_set_to_count (s : tg_sess) v := Build_tg_sess (ts_proto s) (ts_type s) (ts_state s) (ts_delayq s) (ts_sendq s) (ts_con_active s) (ts_nstart s) (ts_tls s) (ts_tls_est s) (ts_sent_alert s) v (ts_max_retransmit s) (ts_app_ref s) (ts_freed s) (ts_sock s) (ts_dtls_event s) (ts_khs s) (ts_ktx s) (ts_krx s) (ts_kck s).
Definition tg_set_app_ref (s : tg_sess) v := Build_tg_sess (ts_proto s) (ts_type s) (ts_state s) (ts_delayq s) (ts_sendq s) (ts_con_active s) (ts_nstart s) (ts_tls s) (ts_tls_est s) (ts_sent_alert s) (ts_to_count s) (ts_max_retransmit s) v (ts_freed s) (ts_sock s) (ts_dtls_event s) (ts_khs s) (ts_ktx s) (ts_krx s) (ts_kck s).
Definition tg_set_freed (s : tg_sess) v := Build_tg_sess (ts_proto s) (ts_type s) (ts_state s) (ts_delayq s) (ts_sendq s) (ts_con_active s) (ts_nstart s) (ts_tls s) (ts_tls_est s) (ts_sent_alert s) (ts_to_count s) (ts_max_retransmit s) (ts_app_ref s) v (ts_sock s) (ts_dtls_event s) (ts_khs s) (ts_ktx s) (ts_krx s) (ts_kck s).
Definition tg_set_sock (s : tg_sess) v := Build_tg_sess (ts_proto s) (ts_type s) (ts_state s) (ts_delayq s) (ts_sendq s) (ts_con_active s) (ts_nstart s) (ts_tls s) (ts_tls_est s) (ts_sent_alert s) (ts_to_count s) (ts_max_retransmit s) (ts_app_ref s) (ts_freed s) v (ts_dtls_event s) (ts_khs s) (ts_ktx s) (ts_krx s) (ts_kck s).
Definition tg_set_dtls_event (s : tg_sess) v := Build_tg_sess (ts_proto s) (ts_type s) (ts_state s) (ts_delayq s) (ts_sendq s) (ts_con_active s) (ts_nstart s) (ts_tls s) (ts_tls_est s) (ts_sent_alert s) (ts_to_count s) (ts_max_retransmit s) (ts_app_ref s) (ts_freed s) (ts_sock s) v (ts_khs s) (ts_ktx s) (ts_krx s) (ts_kck s).
Definition tg_set_k (s : tg_sess) h t r c := Build_tg_sess (ts_proto s) (ts_type s) (ts_state s) (ts_delayq s) (ts_sendq s) (ts_con_active s) (ts_nstart s) (ts_tls s) (ts_tls_est s) (ts_sent_alert s) (ts_to_count s) (ts_max_retransmit s) (ts_app_ref s) (ts_freed s) (ts_sock s) (ts_dtls_event s) h t r c.

(* what coap_make_session leaves behind *)
Definition tg_new_session (p : tg_proto) (t : tg_type) (nstart : Z) : tg_sess :=
  Build_tg_sess p t (match p, t with TgUdp, TgServer => TgEstablished | _, _ => TgNone end)
                [] [] 0 nstart false false false 0 4 (tg_type_eqb t TgClient) false true None 0 0 0 0.

(* ------------------------------------------------------------------ observable outputs *)
Inductive tg_out :=
| OHs (code : Z)                   (* gnutls_handshake was called and returned code *)
| OCk (code : Z)                   (* gnutls_dtls_cookie_verify *)
| OTlsTx (id : Z) (code : Z)       (* the cleartext PDU id was handed to gnutls_record_send *)
| OTlsRx (code : Z)                (* gnutls_record_recv *)
| OWireClear (b : list Z)          (* the session layer itself wrote these bytes to the socket *)
| ODeliver (pty pmid : Z)          (* plaintext handed to coap_handle_dgram (CoAP dispatch) *)
| ODelayed (id : Z) (con : bool)   (* coap_send: PDU held in the delay queue *)
| ODropSend (id : Z)               (* coap_send refused the PDU (COAP_INVALID_MID) *)
| ONack (id : Z) (reason : Z)
| ONackAnon (reason : Z)           (* nack handler called with no PDU *)
| OEvent (e : Z).

Definition tg_out_eqb (a b : tg_out) : bool :=
  match a, b with
  | OHs x, OHs y => x =? y
  | OCk x, OCk y => x =? y
  | OTlsTx i x, OTlsTx j y => (i =? j) && (x =? y)
  | OTlsRx x, OTlsRx y => x =? y
  | OWireClear x, OWireClear y => (len x =? len y) && forallb (fun p => fst p =? snd p) (combine x y)
  | ODeliver a1 a2, ODeliver b1 b2 => (a1 =? b1) && (a2 =? b2)
  | ODelayed i c, ODelayed j d => (i =? j) && Bool.eqb c d
  | ODropSend i, ODropSend j => i =? j
  | ONack i r, ONack j q => (i =? j) && (r =? q)
  | ONackAnon r, ONackAnon q => r =? q
  | OEvent e, OEvent f => e =? f
  | _, _ => false
  end.

(* ------------------------------------------------------------------ TLS library oracle *)
Record tg_oracle := {
  or_hs : Z -> Z;          (* value returned by the k-th gnutls_handshake call *)
  or_more : Z -> bool;     (* after the k-th handshake call: input left unread by GnuTLS (ssl_data->pdu_len) *)
  or_tx : Z -> Z;          (* k-th gnutls_record_send *)
  or_rx : Z -> Z;          (* k-th gnutls_record_recv *)
  or_ck : Z -> Z           (* k-th gnutls_dtls_cookie_verify *)
}.

(* do_gnutls_handshake: (return value, dtls_event set, new sent_alert) for a GnuTLS code *)
Definition tg_in (c : Z) (l : list Z) : bool := existsb (Z.eqb c) l.

Definition tg_do_handshake (sent_alert : bool) (code : Z) : Z * option Z * bool :=
  if code =? tg_E_SUCCESS then (1, None, sent_alert)
  else if tg_in code [tg_E_INTERRUPTED; tg_E_AGAIN] then (0, None, sent_alert)
  else if code =? tg_E_INSUFFICIENT_CREDENTIALS then (-1, None, sent_alert)
  else if code =? tg_E_FATAL_ALERT_RECEIVED then (-1, Some tg_EV_DTLS_CLOSED, true)
  else if tg_in code [tg_E_UNEXPECTED_HANDSHAKE_PACKET; tg_E_UNEXPECTED_PACKET]
       then (-1, Some tg_EV_DTLS_CLOSED, sent_alert)
  else if code =? tg_E_WARNING_ALERT_RECEIVED then (0, Some tg_EV_DTLS_ERROR, sent_alert)
  else if tg_in code [tg_E_NO_CERTIFICATE_FOUND; tg_E_CERTIFICATE_REQUIRED; tg_E_DECRYPTION_FAILED]
       then (-1, Some tg_EV_DTLS_CLOSED, true)
  else if tg_in code [tg_E_CERTIFICATE_ERROR; tg_E_UNKNOWN_CIPHER_SUITE; tg_E_NO_CIPHER_SUITES;
                      tg_E_INVALID_SESSION]
       then (-1, Some tg_EV_DTLS_CLOSED, true)
  else if tg_in code [tg_E_SESSION_EOF; tg_E_PREMATURE_TERMINATION; tg_E_TIMEDOUT;
                      tg_E_PULL_ERROR; tg_E_PUSH_ERROR]
       then (-1, Some tg_EV_DTLS_CLOSED, sent_alert)
  else (-1, None, sent_alert).

Definition tg_ids (q : list tg_msg) : list Z := map tm_id q.
Definition tg_cons (q : list tg_msg) : list tg_msg := filter tm_con q.

Section Model.
Variable O : tg_oracle.

Definition tg_merge_ev (a b : option Z) : option Z := match b with Some _ => b | None => a end.

(* one gnutls_handshake call through do_gnutls_handshake: returns (state, outputs, ret);
   the event, if any, is left in session->dtls_event *)
Definition tg_hs_call (s : tg_sess) : tg_sess * list tg_out * Z :=
  let code := or_hs O (ts_khs s) in
  let '(ret, ev, sa) := tg_do_handshake (ts_sent_alert s) code in
  let s1 := tg_set_k s (ts_khs s + 1) (ts_ktx s) (ts_krx s) (ts_kck s) in
  let s2 := tg_set_tls s1 (ts_tls s1) (if ret =? 1 then true else ts_tls_est s1) sa in
  (tg_set_dtls_event s2 (tg_merge_ev (ts_dtls_event s2) ev), [OHs code], ret).

(* coap_dtls_close / coap_dtls_free_session: the g_env goes away, DTLS_CLOSED is signalled *)
Definition tg_tls_close (s : tg_sess) : tg_sess * list tg_out :=
  match ts_proto s with
  | TgUdp => (s, [])
  | TgDtls => if ts_tls s then (tg_set_tls s false false false, [OEvent tg_EV_DTLS_CLOSED])
              else (s, [])
  end.

(* coap_session_disconnected_lkd (reason other than ICMP) *)
Definition tg_disconnected (s : tg_sess) (reason : Z) : tg_sess * list tg_out :=
  (* "take the first one": reported here only if coap_cancel_session_messages below will not
     report it (i.e. it is not Confirmable); it counts as reported either way (sent_nack) *)
  let first := match ts_sendq s with
               | m :: _ => if tm_con m then [] else [ONack (tm_id m) reason]
               | [] => [] end in
  let dqn := map (fun m => ONack (tm_id m) reason) (tg_cons (ts_delayq s)) in
  let sent := match ts_sendq s with
              | _ :: _ => true
              | [] => match dqn with [] => false | _ => true end
              end in
  let anon := if sent then [] else [ONackAnon reason] in
  let cancel := map (fun m => ONack (tm_id m) reason) (tg_cons (ts_sendq s)) in
  let s1 := tg_set_state s (match ts_proto s with TgUdp => TgEstablished | TgDtls => TgNone end) in
  let s2 := tg_set_sendq (tg_set_delayq (tg_set_con_active s1 0) []) [] in
  let '(s3, o) := tg_tls_close s2 in
  (tg_set_sock s3 false, first ++ dqn ++ anon ++ cancel ++ o).      (* coap_netif_close *)

(* coap_dtls_send for a session whose g_env is established; returns bytes_written (sign).
   (The branch for a g_env that is not yet established is unreachable: see tg_inv.) *)
Definition tg_dtls_send (s : tg_sess) (m : tg_msg) : tg_sess * list tg_out * Z :=
  if negb (ts_tls s && ts_tls_est s) then (s, [], -1)
  else
    let code := or_tx O (ts_ktx s) in
    let s0 := tg_set_dtls_event s None in
    let s1 := tg_set_k s0 (ts_khs s0) (ts_ktx s0 + 1) (ts_krx s0) (ts_kck s0) in
    let o := [OTlsTx (tm_id m) code] in
    if 0 <? code then (s1, o, code)
    else if code =? tg_E_AGAIN then (s1, o, 0)
    else if code =? tg_E_FATAL_ALERT_RECEIVED then
      let s2 := tg_set_dtls_event (tg_set_tls s1 (ts_tls s1) (ts_tls_est s1) true)
                                  (Some tg_EV_DTLS_CLOSED) in
      let '(s3, o3) := tg_disconnected s2 tg_NACK_TLS_FAILED in
      (s3, o ++ [OEvent tg_EV_DTLS_CLOSED] ++ o3, -1)
    else (s1, o, -1).

(* coap_session_send_pdu: lfunc[COAP_LAYER_SESSION].l_write of coap_layers_coap[proto] *)
Definition tg_session_send (s : tg_sess) (m : tg_msg) : tg_sess * list tg_out * Z :=
  match ts_proto s with
  | TgUdp => (s, [OWireClear (tm_bytes m)], len (tm_bytes m))
  | TgDtls => tg_dtls_send s m
  end.

(* the loop of coap_session_connected over the delay queue q (= ts_delayq s) *)
Fixpoint tg_flush (q : list tg_msg) (s : tg_sess) : tg_sess * list tg_out :=
  match q with
  | [] => (s, [])
  | m :: q' =>
      if negb (tg_state_eqb (ts_state s) TgEstablished) then (s, [])
      else if tm_con m && (ts_nstart s <=? ts_con_active s) then (s, [])
      else
        let s1 := if tm_con m then tg_set_con_active s (ts_con_active s + 1) else s in
        let s2 := tg_set_delayq s1 q' in
        let '(s3, o, bw) := tg_session_send s2 m in
        let s4 := if tm_con m then tg_set_sendq s3 (ts_sendq s3 ++ [m]) else s3 in   (* coap_wait_ack *)
        if bw <? 0 then (s4, o)
        else let '(s5, o') := tg_flush q' s4 in (s5, o ++ o')
  end.

Definition tg_connected (s : tg_sess) : tg_sess * list tg_out :=
  let ev := if tg_state_eqb (ts_state s) TgCsm then [OEvent tg_EV_SESSION_CONNECTED] else [] in
  let s1 := tg_set_state s TgEstablished in
  let '(s2, o) := tg_flush (ts_delayq s1) s1 in
  (s2, ev ++ o).

(* coap_session_delay_pdu for a new PDU (node == NULL) *)
Definition tg_delay_new (s : tg_sess) (m : tg_msg) : tg_sess * list tg_out * Z :=
  if tg_in (tm_id m) (tg_ids (ts_delayq s)) then (s, [], -1)
  else (tg_set_delayq s (ts_delayq s ++ [m]), [ODelayed (tm_id m) (tm_con m)], -2). (* COAP_PDU_DELAYED *)

(* coap_send_internal -> coap_send_pdu for a PDU submitted by the application / the stack *)
Definition tg_send0 (s : tg_sess) (m : tg_msg) : tg_sess * list tg_out :=
  if tg_state_eqb (ts_state s) TgNone && negb (tg_type_eqb (ts_type s) TgClient)
  then (s, [ODropSend (tm_id m)])
  else if negb (tg_state_eqb (ts_state s) TgEstablished)
          || (tm_con m && (ts_nstart s <=? ts_con_active s))
  then let '(s1, o, r) := tg_delay_new s m in
       if r =? -1 then (s1, o ++ [ODropSend (tm_id m)]) else (s1, o)
  else
    let '(s1, o, bw) := tg_session_send s m in
    if bw <? 0 then (s1, o ++ [ODropSend (tm_id m)])
    else if tm_con m
         then (tg_set_sendq (tg_set_con_active s1 (ts_con_active s1 + 1)) (ts_sendq s1 ++ [m]), o)
         else (s1, o).

(* app = true: coap_send by the application (coap_send_lkd refuses when the client socket is
   closed, the refusal is visible as COAP_INVALID_MID); app = false: a message of the stack
   itself (a response from inside dispatch), whose fate the caller does not look at *)
Definition tg_not_drop (o : tg_out) : bool := match o with ODropSend _ => false | _ => true end.
Definition tg_send (s : tg_sess) (m : tg_msg) (app : bool) : tg_sess * list tg_out :=
  if app then
    if tg_type_eqb (ts_type s) TgClient && negb (ts_sock s) then (s, [ODropSend (tm_id m)])
    else tg_send0 s m
  else let '(s1, o) := tg_send0 s m in (s1, filter tg_not_drop o).

(* the ACK branch of coap_dispatch: an acknowledged in-flight Confirmable releases NSTART *)
Fixpoint tg_remove_id (id : Z) (q : list tg_msg) : list tg_msg :=
  match q with
  | [] => []
  | m :: q' => if tm_id m =? id then q' else m :: tg_remove_id id q'
  end.

Definition tg_dispatch (s : tg_sess) (pty pmid : Z) : tg_sess * list tg_out :=
  if (pty =? 2) && tg_in pmid (tg_ids (ts_sendq s)) then
    let s1 := tg_set_sendq s (tg_remove_id pmid (ts_sendq s)) in
    if 0 <? ts_con_active s1 then
      let s2 := tg_set_con_active s1 (ts_con_active s1 - 1) in
      if tg_state_eqb (ts_state s2) TgEstablished then tg_connected s2 else (s2, [])
    else (s1, [])
  else (s, []).

(* tail of coap_dtls_receive: report the event, disconnect on ERROR / CLOSED *)
Definition tg_after_event (s : tg_sess) (ev : option Z) : tg_sess * list tg_out :=
  match ev with
  | None => (s, [])
  | Some e =>
      let o1 := if e =? tg_EV_DTLS_CLOSED then [] else [OEvent e] in
      if (e =? tg_EV_DTLS_ERROR) || (e =? tg_EV_DTLS_CLOSED) then
        let '(s1, o2) := tg_disconnected s tg_NACK_TLS_FAILED in (s1, o1 ++ o2)
      else (s, o1)
  end.

(* coap_dtls_receive *)
Definition tg_dtls_receive (s0 : tg_sess) (pty pmid : Z) : tg_sess * list tg_out :=
  let s := tg_set_dtls_event s0 None in
  if ts_tls_est s then
    let '(s1, o1) :=
      if tg_state_eqb (ts_state s) TgHandshake
      then let '(sx, ox) := tg_connected s in (sx, OEvent tg_EV_DTLS_CONNECTED :: ox)
      else (s, []) in
    if negb (ts_tls s1) then (s1, o1)      (* the flush lost the session: C reads a freed g_env *)
    else
    let code := or_rx O (ts_krx s1) in
    let s2 := tg_set_k s1 (ts_khs s1) (ts_ktx s1) (ts_krx s1 + 1) (ts_kck s1) in
    let o2 := [OTlsRx code] in
    if 0 <? code then
      let '(s3, o3) := tg_dispatch s2 pty pmid in
      (s3, o1 ++ o2 ++ [ODeliver pty pmid] ++ o3)
    else
      let s2' :=
        if code =? 0 then tg_set_dtls_event s2 (Some tg_EV_DTLS_CLOSED)
        else if code =? tg_E_FATAL_ALERT_RECEIVED then
          tg_set_dtls_event (tg_set_tls s2 (ts_tls s2) (ts_tls_est s2) true) (Some tg_EV_DTLS_CLOSED)
        else if code =? tg_E_WARNING_ALERT_RECEIVED then tg_set_dtls_event s2 (Some tg_EV_DTLS_ERROR)
        else s2 in
      let '(s3, o3) := tg_after_event s2' (ts_dtls_event s2') in (s3, o1 ++ o2 ++ o3)
  else
    let k := ts_khs s in
    let '(s1, o1, ret1) := tg_hs_call s in
    if ret1 =? 1 then
      let '(s2, o2) := tg_connected s1 in
      let '(s3, o3) := tg_after_event s2 (ts_dtls_event s2) in (s3, o1 ++ o2 ++ o3)
    else if or_more O k && negb (ts_sent_alert s1) then
      let '(s2, o2, ret2) := tg_hs_call s1 in
      let '(s3, o3) := if ret2 =? 1 then tg_connected s2 else (s2, []) in
      let '(s4, o4) := tg_after_event s3 (ts_dtls_event s3) in
      (s4, o1 ++ o2 ++ o3 ++ o4)
    else
      let '(s2, o2) := tg_after_event s1 (ts_dtls_event s1) in (s2, o1 ++ o2).

(* coap_dtls_hello (+ coap_session_new_dtls_session when it reports a verified ClientHello) *)
Definition tg_dtls_hello (s : tg_sess) : tg_sess * list tg_out :=
  let s0 := if ts_tls s then s else tg_set_tls s true false false in
  let code := or_ck O (ts_kck s0) in
  let s1 := tg_set_k s0 (ts_khs s0) (ts_ktx s0) (ts_krx s0) (ts_kck s0 + 1) in
  if code <? 0 then (s1, [OCk code])                         (* HelloVerifyRequest sent *)
  else
    let '(s2, o2, ret) := tg_hs_call s1 in
    if ret <? 0 then (tg_set_tls s2 false false false, OCk code :: o2)
    else
      (* coap_session_new_dtls_session -> coap_dtls_establish; the g_env is kept *)
      (tg_set_state (tg_set_type s2 TgServer) TgHandshake, OCk code :: o2).

(* coap_handle_dgram_for_proto *)
Definition tg_recv (s : tg_sess) (pty pmid : Z) : tg_sess * list tg_out :=
  match ts_proto s with
  | TgUdp => let '(s1, o) := tg_dispatch s pty pmid in (s1, ODeliver pty pmid :: o)
  | TgDtls =>
      if tg_type_eqb (ts_type s) TgHello then tg_dtls_hello s
      else if ts_tls s then tg_dtls_receive s pty pmid
      else (s, [])
  end.

(* client: coap_session_check_connect -> l_establish *)
Definition tg_connect (s : tg_sess) : tg_sess * list tg_out :=
  if negb (tg_type_eqb (ts_type s) TgClient) then (s, []) else
  match ts_proto s with
  | TgUdp => tg_connected s
  | TgDtls =>
      let s1 := tg_set_tls (tg_set_state s TgHandshake) true false false in
      let '(s2, o2, ret) := tg_hs_call s1 in
      if ret =? -1 then
        let s3 := tg_set_tls s2 false false false in
        let '(s4, o4) := tg_disconnected s3 tg_NACK_TLS_LAYER_FAILED in (s4, o2 ++ o4)
      else (s2, o2)
  end.

(* coap_dtls_handle_timeout, as guarded in coap_io_prepare_io_lkd *)
Definition tg_timeout (s : tg_sess) : tg_sess * list tg_out :=
  if negb (tg_state_eqb (ts_state s) TgHandshake && tg_proto_eqb (ts_proto s) TgDtls && ts_tls s)
  then (s, [])
  else
    let s1 := tg_set_to_count s (ts_to_count s + 1) in
    if ts_max_retransmit s1 <? ts_to_count s1 then tg_disconnected s1 tg_NACK_TLS_FAILED
    else
      let '(s2, o2, ret) := tg_hs_call s1 in
      if ret <? 0 then
        let '(s3, o3) := tg_disconnected s2 tg_NACK_TLS_FAILED in (s3, o2 ++ o3)
      else (s2, o2).

(* coap_retransmit for the in-flight Confirmable id; giveup = retransmit_cnt reached the limit *)
Fixpoint tg_find_id (id : Z) (q : list tg_msg) : option tg_msg :=
  match q with
  | [] => None
  | m :: q' => if tm_id m =? id then Some m else tg_find_id id q'
  end.

Definition tg_retransmit (s : tg_sess) (id : Z) (giveup : bool) : tg_sess * list tg_out :=
  match tg_find_id id (ts_sendq s) with
  | None => (s, [])
  | Some m =>
      let dec := fun s => if 0 <? ts_con_active s then tg_set_con_active s (ts_con_active s - 1) else s in
      if giveup then
        let had := 0 <? ts_con_active s in
        let s1 := dec s in
        let '(s2, o2) := if had && tg_state_eqb (ts_state s1) TgEstablished
                         then tg_connected s1 else (s1, []) in
        (tg_set_sendq s2 (tg_remove_id id (ts_sendq s2)),
         o2 ++ [ONack id tg_NACK_TOO_MANY_RETRIES])
      else
        let s1 := dec s in
        (* coap_send_pdu(session, pdu, node) *)
        if negb (tg_state_eqb (ts_state s1) TgEstablished)
           || (tm_con m && (ts_nstart s1 <=? ts_con_active s1))
        then (tg_set_delayq (tg_set_sendq s1 (tg_remove_id id (ts_sendq s1))) (ts_delayq s1 ++ [m]),
              [ODelayed id (tm_con m)])
        else
          let '(s2, o2, bw) := tg_session_send s1 m in
          if (0 <=? bw) && tm_con m then (tg_set_con_active s2 (ts_con_active s2 + 1), o2)
          else if (bw <? 0) && (0 <? ts_con_active s) && tg_in id (tg_ids (ts_sendq s2))
               (* not transmitted but still queued for the next attempt: keeps its NSTART slot *)
          then (tg_set_con_active s2 (ts_con_active s2 + 1), o2)
          else (s2, o2)
  end.

(* coap_session_mfree: close the TLS layer, NACK what is still held *)
Definition tg_mfree (s : tg_sess) : tg_sess * list tg_out :=
  let '(s1, o1) := tg_tls_close s in
  let reason := match ts_proto s with TgDtls => tg_NACK_TLS_FAILED | TgUdp => tg_NACK_NOT_DELIVERABLE end in
  let nacks := map (fun m => ONack (tm_id m) reason) (tg_cons (ts_delayq s1)) in
  (tg_set_freed (tg_set_sock (tg_set_delayq s1 []) false) true, o1 ++ nacks).

(* the last reference goes away once the application released the session and nothing is in flight *)
Definition tg_maybe_free (s : tg_sess) : tg_sess * list tg_out :=
  if negb (ts_app_ref s) && tg_type_eqb (ts_type s) TgClient
     && (match ts_sendq s with [] => true | _ => false end) && negb (ts_freed s)
  then tg_mfree s else (s, []).

(* ------------------------------------------------------------------ events, steps, runs *)
Inductive tg_ev :=
| EConnect                       (* client session created: handshake started *)
| ESend (m : tg_msg) (app : bool) (* coap_send by the application / a message of the stack *)
| ERecv (pty pmid : Z)           (* one datagram for this session; (pty, pmid) describe the
                                    plaintext should the TLS layer decrypt an application record *)
| ETimeout                       (* DTLS handshake timer *)
| ERetransmit (id : Z) (giveup : bool)
| ERelease                       (* the application releases the session *)
| EFree.                         (* the library frees the session (context freed) *)

Definition tg_step0 (s : tg_sess) (e : tg_ev) : tg_sess * list tg_out :=
  match e with
  | EConnect => tg_connect s
  | ESend m app => tg_send s m app
  | ERecv pty pmid => tg_recv s pty pmid
  | ETimeout => tg_timeout s
  | ERetransmit id g => tg_retransmit s id g
  | ERelease => (tg_set_app_ref s false, [])
  | EFree => tg_mfree (tg_set_sendq s [])
  end.

Definition tg_step (s : tg_sess) (e : tg_ev) : tg_sess * list tg_out :=
  if ts_freed s then (s, [])
  else
    let '(s1, o1) := tg_step0 s e in
    let '(s2, o2) := tg_maybe_free s1 in
    (s2, o1 ++ o2).

(* the trace: every event with the outputs it caused *)
Fixpoint tg_steps (s : tg_sess) (evs : list tg_ev) : tg_sess * list (tg_ev * list tg_out) :=
  match evs with
  | [] => (s, [])
  | e :: r =>
      let '(s1, o) := tg_step s e in
      let '(s2, tr) := tg_steps s1 r in
      (s2, (e, o) :: tr)
  end.

Definition tg_outs (tr : list (tg_ev * list tg_out)) : list tg_out := concat (map snd tr).

(* acceptor: does an observed trace (events with the outputs seen at the implementation) equal
   the model's trace for the same events and the same TLS return values? *)
Definition tg_outs_eqb (a b : list tg_out) : bool :=
  (len a =? len b) && forallb (fun p => tg_out_eqb (fst p) (snd p)) (combine a b).

Fixpoint tg_accepts (s : tg_sess) (tr : list (tg_ev * list tg_out)) : bool :=
  match tr with
  | [] => true
  | (e, o) :: r =>
      let '(s1, o1) := tg_step s e in
      tg_outs_eqb o1 o && tg_accepts s1 r
  end.

(* the same with white-box snapshots of the implementation's session object after some steps:
   state, type, ids in the delay queue, ids of its Confirmables in the send queue, con_active,
   tls != NULL *)
Definition tg_state_num (x : tg_state) : Z :=
  match x with TgNone => 0 | TgConnecting => 1 | TgHandshake => 2 | TgCsm => 3 | TgEstablished => 4 end.
Definition tg_type_num (x : tg_type) : Z :=
  match x with TgClient => 1 | TgServer => 2 | TgHello => 3 end.
Record tg_snap := { sn_state : Z; sn_type : Z; sn_dq : list Z; sn_sq : list Z; sn_ca : Z; sn_tls : bool }.
Definition tg_zlist_eqb (a b : list Z) : bool :=
  (len a =? len b) && forallb (fun p => fst p =? snd p) (combine a b).
Definition tg_snap_ok (s : tg_sess) (n : tg_snap) : bool :=
  (tg_state_num (ts_state s) =? sn_state n) && (tg_type_num (ts_type s) =? sn_type n) &&
  tg_zlist_eqb (tg_ids (ts_delayq s)) (sn_dq n) && tg_zlist_eqb (tg_ids (ts_sendq s)) (sn_sq n) &&
  (ts_con_active s =? sn_ca n) && Bool.eqb (ts_tls s) (sn_tls n) && negb (ts_freed s).

Fixpoint tg_accepts_snap (s : tg_sess) (tr : list (tg_ev * list tg_out * option tg_snap)) : bool :=
  match tr with
  | [] => true
  | (e, o, n) :: r =>
      let '(s1, o1) := tg_step s e in
      tg_outs_eqb o1 o && (match n with None => true | Some x => tg_snap_ok s1 x end)
      && tg_accepts_snap s1 r
  end.

End Model.

(* oracle built from observed lists (used by the acceptor on implementation traces) *)
Definition tg_nthZ (l : list Z) (d : Z) (k : Z) : Z := nth (Z.to_nat k) l d.
Definition tg_nthB (l : list bool) (k : Z) : bool := nth (Z.to_nat k) l false.
Definition tg_oracle_of (hs : list Z) (more : list bool) (tx rx ck : list Z) : tg_oracle :=
  Build_tg_oracle (tg_nthZ hs tg_E_AGAIN) (tg_nthB more) (tg_nthZ tx (-1)) (tg_nthZ rx (-1))
                  (tg_nthZ ck (-1)).

(* ------------------------------------------------------------------ credentials
   What libcoap hands to GnuTLS: psk_server_callback / psk_client_callback /
   post_client_hello_gnutls_psk with the application callbacks modelled as tables. *)
Fixpoint tg_beqb (a b : list Z) : bool :=
  match a, b with
  | [], [] => true
  | x :: a', y :: b' => (x =? y) && tg_beqb a' b'
  | _, _ => false
  end.

Fixpoint tg_lookup {A} (k : list Z) (t : list (list Z * A)) : option A :=
  match t with
  | [] => None
  | (k', v) :: r => if tg_beqb k k' then Some v else tg_lookup k r
  end.

(* a C string: cut at the first NUL *)
Fixpoint tg_cstr (b : list Z) : list Z :=
  match b with [] => [] | x :: r => if x =? 0 then [] else x :: tg_cstr r end.

Record tg_ccfg := {
  cc_id : list Z; cc_key : list Z;
  cc_sni : option (list Z);
  cc_ih : option (list (list Z * (list Z * list Z)))   (* hint -> identity, key *)
}.
Record tg_scfg := {
  sc_hint : list Z; sc_key : list Z;
  sc_ids : option (list (list Z * list Z));            (* identity -> key *)
  sc_snis : option (list (list Z * (list Z * list Z))) (* SNI -> hint, key *)
}.

(* host names compare without regard to ASCII case (strcasecmp) *)
Definition tg_lower (c : Z) : Z := if (65 <=? c) && (c <=? 90) then c + 32 else c.
Fixpoint tg_ci_eqb (a b : list Z) : bool :=
  match a, b with
  | [], [] => true
  | x :: a', y :: b' => (tg_lower x =? tg_lower y) && tg_ci_eqb a' b'
  | _, _ => false
  end.
Fixpoint tg_lookup_ci {A} (k : list Z) (t : list (list Z * A)) : option A :=
  match t with
  | [] => None
  | (k', v) :: r => if tg_ci_eqb k k' then Some v else tg_lookup_ci k r
  end.

(* post_client_hello_gnutls_psk keeps a per-context cache name -> credentials, filled from the
   application's SNI callback (here: the table) the first time a name is seen, and looked up
   with strcasecmp *)
Definition tg_sni_cached {A} (cache table : list (list Z * A)) (name : list Z)
  : option A * list (list Z * A) :=
  match tg_lookup_ci name cache with
  | Some v => (Some v, cache)
  | None => match tg_lookup_ci name table with
            | Some v => (Some v, cache ++ [(name, v)])
            | None => (None, cache)
            end
  end.

(* coap_sanitize_client_sni: an empty name and anything that looks like a literal IPv4 / IPv6
   address is not sent as SNI *)
Definition tg_is_hexc (c : Z) : bool :=
  ((48 <=? c) && (c <=? 57)) || ((97 <=? c) && (c <=? 102)) || ((65 <=? c) && (c <=? 70)) || (c =? 58).
Definition tg_is_v4c (c : Z) : bool := ((48 <=? c) && (c <=? 57)) || (c =? 46).
Fixpoint tg_v6scan (l : list Z) : bool :=
  match l with
  | [] => true
  | c :: r => if c =? 37 then true else if tg_is_hexc c then tg_v6scan r else false
  end.
Definition tg_sni_sent (sni : option (list Z)) : option (list Z) :=
  match sni with
  | None => None
  | Some [] => None
  | Some (c :: r) =>
      if negb (tg_is_hexc c) then Some (c :: r)
      else if forallb tg_is_v4c (c :: r) then None
      else if tg_v6scan (c :: r) then None
      else Some (c :: r)
  end.

(* post_client_hello_gnutls_psk: (hint, session key) in force after the ClientHello; the cache is
   transparent (tg_sni_cache_transparent), so the table decides *)
Definition tg_server_sni (s : tg_scfg) (sni : option (list Z)) : option (list Z * option (list Z)) :=
  match sc_snis s with
  | None => Some (sc_hint s, None)
  | Some t =>
      match tg_lookup_ci (match sni with Some n => n | None => [] end) t with
      | None => None                                     (* fatal alert unrecognized_name *)
      | Some (h, k) => Some (h, Some k)
      end
  end.

(* the hint as the client sees it: snprintf("%.*s") into char[128], then strlen *)
Definition tg_hint_seen (h : list Z) : list Z := firstn 127 (tg_cstr h).

(* psk_client_callback: identity and key given to GnuTLS for this hint *)
Definition tg_client_choice (c : tg_ccfg) (hint : list Z) : option (list Z * list Z) :=
  match cc_ih c with
  | None => Some (tg_cstr (cc_id c), cc_key c)
  | Some t => match tg_lookup hint t with
              | None => None
              | Some (i, k) => Some (tg_cstr i, k)
              end
  end.

(* psk_server_callback: key given to GnuTLS for this identity; sk = session->psk_key *)
Definition tg_server_key (s : tg_scfg) (sk : option (list Z)) (id : list Z) : option (list Z) :=
  match sc_ids s with
  | Some t => tg_lookup id t
  | None => match sk with
            | Some k => Some k
            | None => match sc_key s with [] => None | _ => Some (sc_key s) end
            end
  end.

(* both ends present the same key to GnuTLS *)
Definition tg_creds_match (c : tg_ccfg) (s : tg_scfg) : bool :=
  match tg_server_sni s (tg_sni_sent (cc_sni c)) with
  | None => false
  | Some (h, sk) =>
      match tg_client_choice c (tg_hint_seen h) with
      | None => false
      | Some (i, ck) =>
          match tg_server_key s sk i with
          | None => false
          | Some k => tg_beqb ck k
          end
      end
  end.

(* ------------------------------------------------------------------ ClientHello pre-filter
   coap_endpoint_get_session for a DTLS endpoint and a datagram from an unknown address,
   no session with a connection id. *)
Inductive tg_pre := PreDrop | PreNewHello.
Definition tg_prefilter (d : list Z) : tg_pre :=
  if len d <? 14 then PreDrop
  else
    let ct := nth 0 d 0 in
    let ht := nth 13 d 0 in
    if (Z.land ct 48 =? 48) || (ct =? 25) then PreDrop
    else if negb (ct =? 22) || negb (ht =? 1) then PreDrop
    else PreNewHello.

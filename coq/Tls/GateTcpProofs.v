(* C19 - proofs about the TLS-over-TCP session machine (GateTcp.v), part 1: no cleartext, nothing
   moves before the TLS handshake succeeded, application messages leave only after the session
   was declared connected (peer's CSM, or the CSM time-out of coap_client_delay_first). *)
From LibcoapV Require Import Base.Tactics Base.Bytes Tls.Gate Tls.GateProofs Tls.GateTcp.
Local Open Scope Z_scope.

(* scanner with two flags: hs = an OHs 0 was seen, cn = SESSION_CONNECTED was seen.
   ok fails on cleartext, on ODeliver / OTlsTx before hs, on an application OTlsTx before cn. *)
Definition tgt_is_conn (x : tg_out) : bool :=
  match x with OEvent e => e =? tg_EV_SESSION_CONNECTED | _ => false end.
Definition tgt_is_apptx (x : tg_out) : bool :=
  match x with OTlsTx i _ => negb (i =? tgt_CSM_ID) | _ => false end.

Fixpoint tgt_scan (hs cn : bool) (o : list tg_out) : bool * (bool * bool) :=
  match o with
  | [] => (true, (hs, cn))
  | x :: r =>
      let here := negb (tg_is_clear x) && (negb (tg_is_app x) || hs) && (negb (tgt_is_apptx x) || cn) in
      let '(ok, f) := tgt_scan (hs || tg_is_ok x) (cn || tgt_is_conn x) r in
      (here && ok, f)
  end.

Lemma tgt_scan_app : forall a b hs cn,
  tgt_scan hs cn (a ++ b) =
  let '(ok1, (h1, c1)) := tgt_scan hs cn a in
  let '(ok2, f2) := tgt_scan h1 c1 b in (ok1 && ok2, f2).
Proof.
  induction a as [|x a IH]; intros b hs cn; simpl.
  - destruct (tgt_scan hs cn b) as [ok [h c]]; reflexivity.
  - rewrite IH. destruct (tgt_scan (hs || tg_is_ok x) (cn || tgt_is_conn x) a) as [ok1 [h1 c1]].
    destruct (tgt_scan h1 c1 b) as [ok2 f2]. rewrite andb_assoc. reflexivity.
Qed.

Lemma tgt_scan_mono : forall o hs cn,
  (hs = true -> fst (snd (tgt_scan hs cn o)) = true) /\
  (cn = true -> snd (snd (tgt_scan hs cn o)) = true).
Proof.
  induction o as [|x o IH]; intros hs cn; simpl; auto.
  specialize (IH (hs || tg_is_ok x) (cn || tgt_is_conn x)).
  destruct (tgt_scan (hs || tg_is_ok x) (cn || tgt_is_conn x) o) as [ok [h c]]. simpl in *.
  destruct IH as [A B]. split; intros E; [apply A | apply B]; rewrite E; reflexivity.
Qed.

(* what an accepted output list looks like *)
Lemma tgt_scan_spec : forall o hs cn l1 x l2,
  fst (tgt_scan hs cn o) = true -> o = l1 ++ x :: l2 ->
  (forall b, x <> OWireClear b) /\
  (tg_is_app x = true -> hs = true \/ In (OHs 0) l1) /\
  (tgt_is_apptx x = true -> cn = true \/ In (OEvent tg_EV_SESSION_CONNECTED) l1).
Proof.
  induction o as [|y o IH]; intros hs cn l1 x l2 H E.
  - destruct l1; discriminate.
  - simpl in H. destruct (tgt_scan (hs || tg_is_ok y) (cn || tgt_is_conn y) o) as [ok f] eqn:ES.
    simpl in H. apply andb_true_iff in H. destruct H as [H1 H2].
    apply andb_true_iff in H1. destruct H1 as [H1 H1c]. apply andb_true_iff in H1. destruct H1 as [H1a H1b].
    destruct l1 as [|z l1]; simpl in E; injection E as E1 E2.
    + subst y. split; [|split].
      * intros b ->. discriminate.
      * intros A. rewrite A in H1b. simpl in H1b. left; exact H1b.
      * intros A. rewrite A in H1c. simpl in H1c. left; exact H1c.
    + subst y. destruct (IH (hs || tg_is_ok z) (cn || tgt_is_conn z) l1 x l2) as [P1 [P2 P3]]; auto.
      { rewrite ES. exact H2. }
      split; [exact P1|]. split.
      * intros A. destruct (P2 A) as [D|D]; [|right; right; exact D].
        apply orb_true_iff in D. destruct D as [D|D]; [left; exact D|].
        right. left. apply tg_is_ok_inv in D. auto.
      * intros A. destruct (P3 A) as [D|D]; [|right; right; exact D].
        apply orb_true_iff in D. destruct D as [D|D]; [left; exact D|].
        right. left. destruct z; simpl in D; try discriminate. apply Z.eqb_eq in D. subst. reflexivity.
Qed.

Lemma tgt_scan_flags : forall o hs cn,
  (fst (snd (tgt_scan hs cn o)) = true -> hs = true \/ In (OHs 0) o) /\
  (snd (snd (tgt_scan hs cn o)) = true -> cn = true \/ In (OEvent tg_EV_SESSION_CONNECTED) o).
Proof.
  induction o as [|x o IH]; intros hs cn; simpl; auto.
  specialize (IH (hs || tg_is_ok x) (cn || tgt_is_conn x)).
  destruct (tgt_scan (hs || tg_is_ok x) (cn || tgt_is_conn x) o) as [ok [h c]]. simpl in *.
  destruct IH as [A B]. split; intros E.
  - destruct (A E) as [D|D]; [|right; right; exact D].
    apply orb_true_iff in D. destruct D as [D|D]; [left; exact D|].
    right. left. apply tg_is_ok_inv in D. auto.
  - destruct (B E) as [D|D]; [|right; right; exact D].
    apply orb_true_iff in D. destruct D as [D|D]; [left; exact D|].
    right. left. destruct x; simpl in D; try discriminate. apply Z.eqb_eq in D. subst. reflexivity.
Qed.

Section ProofsTcp.
Variable O : tg_oracle.

(* invariant and triples *)
Definition tgt_I (s : tgt_sess) : Prop :=
  (tt_est s = true -> tt_tls s = true) /\
  (tt_state s = TgCsm \/ tt_state s = TgEstablished -> tt_est s = true).

Definition tgt_pre (hs cn : bool) (s : tgt_sess) : Prop :=
  tgt_I s /\ (tt_est s = true \/ tt_rxdata s = true -> hs = true) /\
  (tt_state s = TgEstablished -> cn = true).

Definition tgt_post (hs cn : bool) (o : list tg_out) (s' : tgt_sess) : Prop :=
  tgt_pre (fst (snd (tgt_scan hs cn o))) (snd (snd (tgt_scan hs cn o))) s' /\
  fst (tgt_scan hs cn o) = true /\ tg_hs_from O o.

Lemma tgt_post_nil : forall hs cn s, tgt_pre hs cn s -> tgt_post hs cn [] s.
Proof. intros. repeat split; try apply H. apply tg_hs_from_nil. Qed.

Lemma tgt_post_app : forall hs cn o1 s1 o2 s2,
  tgt_post hs cn o1 s1 ->
  tgt_post (fst (snd (tgt_scan hs cn o1))) (snd (snd (tgt_scan hs cn o1))) o2 s2 ->
  tgt_post hs cn (o1 ++ o2) s2.
Proof.
  intros hs cn o1 s1 o2 s2 [P1 [F1 H1]] [P2 [F2 H2]]. unfold tgt_post in *.
  rewrite tgt_scan_app. destruct (tgt_scan hs cn o1) as [ok1 [h1 c1]]. simpl in *.
  destruct (tgt_scan h1 c1 o2) as [ok2 [h2 c2]]. simpl in *. subst.
  repeat split; try apply P2. apply tg_hs_from_app; auto.
Qed.

(* outputs that are neither application data, nor handshake results, nor cleartext, nor the
   connected event *)
Definition tgt_neutral (x : tg_out) : bool := tg_neutral x && negb (tgt_is_conn x).

Lemma tgt_scan_neutral : forall o hs cn,
  forallb tgt_neutral o = true -> tgt_scan hs cn o = (true, (hs, cn)).
Proof.
  induction o as [|x o IH]; intros hs cn H; simpl in *; auto.
  apply andb_true_iff in H. destruct H as [Hx Ho].
  unfold tgt_neutral in Hx. apply andb_true_iff in Hx. destruct Hx as [Hn Hc].
  unfold tg_neutral in Hn. apply andb_true_iff in Hn. destruct Hn as [Hn H3].
  apply andb_true_iff in Hn. destruct Hn as [H1 H2].
  assert (K : tg_is_ok x = false) by (destruct x; simpl in *; auto; discriminate).
  assert (A : tgt_is_apptx x = false).
  { destruct x; simpl in *; auto. discriminate. }
  apply negb_true_iff in H1. apply negb_true_iff in H2. apply negb_true_iff in Hc.
  rewrite K, Hc, H1, H2, A, !orb_false_r, IH; auto.
Qed.

Lemma tgt_post_neutral : forall hs cn o s',
  forallb tgt_neutral o = true -> tgt_pre hs cn s' -> tgt_post hs cn o s'.
Proof.
  intros hs cn o s' H P. unfold tgt_post. rewrite tgt_scan_neutral; auto. simpl.
  repeat split; try apply P. intros c HI. rewrite forallb_forall in H. specialize (H _ HI).
  cbv in H. discriminate.
Qed.

Lemma tgt_neutral_map_nack : forall r (q : list tg_msg),
  forallb tgt_neutral (map (fun m => ONack (tm_id m) r) q) = true.
Proof. induction q; simpl; auto. Qed.

Ltac pre_fin :=
  simpl; intros;
  repeat match goal with H : _ \/ _ |- _ => destruct H end;
  try discriminate; try congruence; auto.

Lemma tgt_pre_intro : forall hs cn s,
  (tt_est s = true -> tt_tls s = true) ->
  (tt_state s = TgCsm \/ tt_state s = TgEstablished -> tt_est s = true) ->
  (tt_est s = true \/ tt_rxdata s = true -> hs = true) ->
  (tt_state s = TgEstablished -> cn = true) -> tgt_pre hs cn s.
Proof. intros. unfold tgt_pre, tgt_I. auto. Qed.

(* ------------------------------------------------------------------ helpers *)
Lemma tgt_disconnected_neutral : forall s r s' o,
  tgt_disconnected s r = (s', o) -> forallb tgt_neutral o = true.
Proof.
  intros s r s' o H. unfold tgt_disconnected, tgt_close in H. simpl in H.
  destruct (tt_tls s); inversion H; subst; clear H;
    rewrite !forallb_app, tgt_neutral_map_nack;
    destruct (map _ (tg_cons (tt_delayq s))); destruct (tt_sock s);
    destruct (tg_state_eqb (tt_state s) TgConnecting); destruct (tg_state_eqb (tt_state s) TgNone);
    destruct (tg_state_eqb (tt_state s) TgEstablished); reflexivity.
Qed.

Lemma tgt_disconnected_post : forall hs cn s r s' o,
  tgt_pre hs cn s -> tgt_disconnected s r = (s', o) ->
  tgt_post hs cn o s' /\ tt_state s' = TgNone /\ tt_est s' = false /\ tt_rxdata s' = tt_rxdata s.
Proof.
  intros hs cn s r s' o [[I0 I1] [G C]] H.
  pose proof (tgt_disconnected_neutral _ _ _ _ H) as N.
  unfold tgt_disconnected, tgt_close in H. simpl in H.
  destruct (tt_tls s) eqn:T; inversion H; subst; clear H; simpl.
  - split; [|auto]. apply tgt_post_neutral; auto.
    apply tgt_pre_intro; pre_fin.
  - assert (E : tt_est s = false).
    { destruct (tt_est s) eqn:E; auto. specialize (I0 eq_refl). congruence. }
    split; [|simpl; auto]. apply tgt_post_neutral; auto.
    apply tgt_pre_intro; pre_fin.
Qed.

Lemma tgt_hs_call_post : forall hs cn s s' o r,
  tgt_pre hs cn s -> tt_tls s = true -> tgt_hs_call O s = (s', o, r) ->
  tgt_post hs cn o s' /\ tt_state s' = tt_state s /\ tt_tls s' = true /\
  (r = 1 -> tt_est s' = true) /\ tt_rxdata s' = tt_rxdata s.
Proof.
  intros hs cn s s' o r [[I0 I1] [G C]] T H. unfold tgt_hs_call in H.
  pose proof (tg_do_handshake_ret (tt_sent_alert s) (or_hs O (tt_khs s))) as R.
  destruct (tg_do_handshake (tt_sent_alert s) (or_hs O (tt_khs s))) as [[ret ev] sa].
  simpl in R. inversion H; subst; clear H. simpl.
  split; [|repeat split; auto; intros ->; reflexivity].
  unfold tgt_post. simpl. rewrite !orb_false_r.
  split; [|split; [reflexivity|]].
  - rewrite <- R. apply tgt_pre_intro; simpl.
    + destruct (r =? 1); auto.
    + intros X. apply I1 in X. rewrite X. destruct (r =? 1); reflexivity.
    + destruct (r =? 1); [intros _; apply orb_true_r|]. rewrite orb_false_r. exact G.
    + exact C.
  - intros c [HI|[]]. inversion HI. eexists; reflexivity.
Qed.

Lemma tgt_after_event_post : forall hs cn s ret s' o r,
  tgt_pre hs cn s -> tgt_after_event s ret = (s', o, r) ->
  tgt_post hs cn o s' /\ (tt_state s' = tt_state s \/ tt_state s' = TgNone) /\
  (tt_rxdata s' = tt_rxdata s).
Proof.
  intros hs cn s ret s' o r P H. unfold tgt_after_event in H.
  destruct (tt_event s) as [e|]; [|inversion H; subst; split; [apply tgt_post_nil; auto | auto]].
  destruct (tgt_disconnected s tg_NACK_TLS_FAILED) as [s1 o2] eqn:D. inversion H; subst.
  destruct (tgt_disconnected_post _ _ _ _ _ _ P D) as [Q [Q1 [_ Q3]]].
  pose proof (tgt_disconnected_neutral _ _ _ _ D) as N2.
  split; [|auto]. apply tgt_post_neutral.
  - rewrite forallb_app, N2. destruct (e =? tg_EV_DTLS_CLOSED); reflexivity.
  - destruct Q as [Q _]. rewrite tgt_scan_neutral in Q by auto. exact Q.
Qed.

Lemma tgt_post_cons : forall hs cn x o s',
  negb (tg_is_clear x) && (negb (tg_is_app x) || hs) && (negb (tgt_is_apptx x) || cn) = true ->
  (forall c, x = OHs c -> exists k, c = or_hs O k) ->
  tgt_post (hs || tg_is_ok x) (cn || tgt_is_conn x) o s' -> tgt_post hs cn (x :: o) s'.
Proof.
  intros hs cn x o s' Hx Hh [P [F H]]. unfold tgt_post. simpl.
  destruct (tgt_scan (hs || tg_is_ok x) (cn || tgt_is_conn x) o) as [ok f] eqn:E. simpl in *.
  rewrite Hx, F. repeat split; try apply P.
  intros c [HI|HI]; [apply Hh; auto | apply H; auto].
Qed.

Definition tgt_kept (s s' : tgt_sess) : Prop :=
  (tt_state s' = tt_state s \/ tt_state s' = TgNone) /\ tt_rxdata s' = tt_rxdata s.
Lemma tgt_kept_refl : forall s, tgt_kept s s.
Proof. intros; split; auto. Qed.
Lemma tgt_kept_trans : forall a b c, tgt_kept a b -> tgt_kept b c -> tgt_kept a c.
Proof.
  intros a b c [A1 A2] [B1 B2]. split; [|congruence].
  destruct B1 as [B1|B1]; [rewrite B1; exact A1 | right; exact B1].
Qed.

Lemma tgt_write_post : forall hs cn s m s' o bw,
  tgt_pre hs cn s -> tm_id m = tgt_CSM_ID \/ tt_state s = TgEstablished ->
  tgt_write O s m = (s', o, bw) -> tgt_post hs cn o s' /\ tgt_kept s s'.
Proof.
  intros hs cn s m s' o bw P A H. unfold tgt_write in H.
  destruct (tt_tls s && tt_est s) eqn:TE; simpl in H.
  2:{ inversion H; subst. split; [apply tgt_post_nil; auto | (split; simpl; auto)]. }
  apply andb_true_iff in TE. destruct TE as [T E].
  pose proof P as [[I0 I1] [G C]].
  assert (HS : hs = true) by (apply G; auto). subst hs.
  assert (HX : negb (tg_is_clear (OTlsTx (tm_id m) (or_tx O (tt_ktx s)))) &&
               (negb (tg_is_app (OTlsTx (tm_id m) (or_tx O (tt_ktx s)))) || true) &&
               (negb (tgt_is_apptx (OTlsTx (tm_id m) (or_tx O (tt_ktx s)))) || cn) = true).
  { simpl. destruct A as [A|A]; [rewrite A; reflexivity|]. rewrite (C A). apply orb_true_r. }
  set (s1 := tgt_set_k (tgt_set_event s None) _ _ _) in H.
  assert (P1 : tgt_pre true cn s1) by exact P.
  destruct (0 <? or_tx O (tt_ktx s)).
  { inversion H; subst. split; [|(split; simpl; auto)].
    apply tgt_post_cons; [exact HX | discriminate |]. simpl. rewrite orb_false_r.
    apply tgt_post_nil. exact P1. }
  destruct (tgt_write_fail s1 (or_tx O (tt_ktx s))) as [s2 ret] eqn:S2.
  assert (P2 : tgt_pre true cn s2 /\ tgt_kept s s2).
  { unfold tgt_write_fail in S2. repeat match type of S2 with context [if ?b then _ else _] => destruct b end;
      inversion S2; subst; split; try exact P1; split; simpl; auto. }
  destruct P2 as [P2 K2].
  destruct (tgt_after_event s2 ret) as [[s3 o3] r3] eqn:AE. inversion H; subst.
  destruct (tgt_after_event_post _ _ _ _ _ _ _ P2 AE) as [Q3 [K3a K3b]].
  split.
  - apply tgt_post_cons; [exact HX | discriminate |]. simpl. rewrite orb_false_r. exact Q3.
  - eapply tgt_kept_trans; [exact K2 | split; auto].
Qed.

Lemma tgt_flush_post : forall q hs cn s s' o,
  tgt_pre hs cn s -> tgt_flush O q s = (s', o) -> tgt_post hs cn o s' /\ tgt_kept s s'.
Proof.
  induction q as [|m q IH]; intros hs cn s s' o P H; simpl in H.
  - inversion H; subst. split; [apply tgt_post_nil; auto | apply tgt_kept_refl].
  - destruct (tg_state_eqb (tt_state s) TgEstablished) eqn:E; simpl in H.
    2:{ inversion H; subst. split; [apply tgt_post_nil; auto | apply tgt_kept_refl]. }
    apply tg_state_eqb_eq in E.
    assert (P1 : tgt_pre hs cn (tgt_set_delayq s q)) by exact P.
    destruct (tgt_write O (tgt_set_delayq s q) m) as [[s2 o2] bw] eqn:W.
    destruct (tgt_write_post _ _ _ _ _ _ _ P1 (or_intror E) W) as [Q2 K2].
    destruct (bw <=? 0).
    + inversion H; subst. split; [exact Q2 | exact K2].
    + destruct (tgt_flush O q s2) as [s3 o3] eqn:FL. inversion H; subst.
      destruct (IH _ _ _ _ _ (proj1 Q2) FL) as [Q3 K3].
      split; [eapply tgt_post_app; eauto | eapply tgt_kept_trans; [exact K2 | exact K3]].
Qed.

(* coap_session_connected is only ever called in state CSM *)
Lemma tgt_connected_post : forall hs cn s s' o,
  tgt_pre hs cn s -> tt_state s = TgCsm -> tgt_connected O s = (s', o) ->
  tgt_post hs cn o s' /\ tt_rxdata s' = tt_rxdata s.
Proof.
  intros hs cn s s' o P ST H. unfold tgt_connected in H. rewrite ST in H. simpl in H.
  set (s1 := tgt_set_state (tgt_set_first s false) TgEstablished) in H.
  destruct (tgt_flush O (tt_delayq s) s1) as [s2 o2] eqn:FL. inversion H; subst.
  pose proof P as [[I0 I1] [G C]].
  assert (E : tt_est s = true) by (apply I1; auto).
  assert (P1 : tgt_pre hs true s1) by (apply tgt_pre_intro; pre_fin).
  destruct (tgt_flush_post _ _ _ _ _ _ P1 FL) as [Q2 [_ K2]].
  split; [|exact K2].
  apply tgt_post_cons; [reflexivity | discriminate |].
  simpl. rewrite orb_false_r, orb_true_r. exact Q2.
Qed.

Lemma tgt_send_csm_post : forall hs cn s s' o,
  tgt_pre hs cn s -> tt_est s = true -> tt_state s <> TgEstablished ->
  tgt_send_csm O s = (s', o) -> tgt_post hs cn o s' /\ tt_rxdata s' = tt_rxdata s.
Proof.
  intros hs cn s s' o P E NE H. unfold tgt_send_csm in H.
  pose proof P as [[I0 I1] [G C]].
  assert (P1 : tgt_pre hs cn (tgt_set_state s TgCsm)) by (apply tgt_pre_intro; pre_fin).
  destruct (tgt_write O (tgt_set_state s TgCsm) tgt_csm_msg) as [[s2 o2] bw] eqn:W.
  destruct (tgt_write_post hs cn (tgt_set_state s TgCsm) tgt_csm_msg _ _ _ P1 (or_introl eq_refl) W) as [Q2 [_ K2]].
  destruct (bw <=? 0).
  - destruct (tgt_disconnected s2 tg_NACK_NOT_DELIVERABLE) as [s3 o3] eqn:D. inversion H; subst.
    destruct (tgt_disconnected_post _ _ _ _ _ _ (proj1 Q2) D) as [Q3 [_ [_ K3]]].
    split; [eapply tgt_post_app; eauto | simpl in K2; congruence].
  - inversion H; subst. split; auto.
Qed.

Lemma tgt_establish_post : forall hs cn s s' o,
  tgt_pre hs cn s -> tt_state s <> TgEstablished ->
  tgt_establish O s = (s', o) -> tgt_post hs cn o s'.
Proof.
  intros hs cn s s' o P NE H. unfold tgt_establish in H.
  pose proof P as [[I0 I1] [G C]].
  set (s1 := tgt_set_tls (tgt_set_state s TgHandshake) true false false) in H.
  assert (P1 : tgt_pre hs cn s1).
  { apply tgt_pre_intro; pre_fin. }
  destruct (tgt_hs_call O s1) as [[s2 o2] ret] eqn:HC.
  destruct (tgt_hs_call_post _ _ _ _ _ _ P1 eq_refl HC) as [Q2 [St2 [T2 [R2 X2]]]].
  destruct (ret =? 1) eqn:RE.
  - apply Z.eqb_eq in RE. destruct (tgt_send_csm O s2) as [s3 o3] eqn:SC. inversion H; subst.
    assert (NE2 : tt_state s2 <> TgEstablished) by (rewrite St2; simpl; discriminate).
    eapply tgt_post_app; [exact Q2|].
    apply tgt_post_cons; [reflexivity | discriminate |]. simpl. rewrite !orb_false_r.
    eapply tgt_send_csm_post; eauto. apply Q2.
  - inversion H; subst. exact Q2.
Qed.

Lemma tgt_read_post : forall hs cn s s' o,
  tgt_pre hs cn s -> tgt_read O s = (s', o) -> tgt_post hs cn o s'.
Proof.
  intros hs cn s00 s' o P00 H. unfold tgt_read in H.
  pose proof P00 as [[I0 I1] [G C]].
  set (s0 := tgt_set_rxdata s00 false) in H.
  assert (P0 : tgt_pre hs cn s0).
  { apply tgt_pre_intro; pre_fin. }
  clearbody s0. clear P00 I0 I1 G C s00.
  destruct (tt_tls s0) eqn:T; simpl in H.
  2:{ eapply tgt_disconnected_post; eauto. }
  set (s := tgt_set_event s0 None) in H.
  assert (P : tgt_pre hs cn s) by exact P0.
  assert (Ts : tt_tls s = true) by exact T.
  clearbody s.
  (* handshake part *)
  destruct (tgt_read_hs O s) as [[s1 o1] ret1] eqn:HP.
  assert (Q1 : tgt_post hs cn o1 s1).
  { unfold tgt_read_hs in HP. destruct (negb (tt_est s) && negb (tt_sent_alert s)) eqn:B.
    - destruct (tgt_hs_call O s) as [[sa oa] r] eqn:HC.
      destruct (tgt_hs_call_post _ _ _ _ _ _ P Ts HC) as [Qa [Sta [Ta [Ra Xa]]]].
      destruct (r =? 1) eqn:RE.
      + apply Z.eqb_eq in RE. destruct (tgt_send_csm O sa) as [sb ob] eqn:SC. inversion HP; subst.
        apply andb_true_iff in B. destruct B as [B _]. apply negb_true_iff in B.
        assert (NEa : tt_state sa <> TgEstablished).
        { rewrite Sta. intros X. destruct P as [[_ I1] _]. rewrite (I1 (or_intror X)) in B. discriminate. }
        eapply tgt_post_app; [exact Qa|].
        apply tgt_post_cons; [reflexivity | discriminate |]. simpl. rewrite !orb_false_r.
        eapply tgt_send_csm_post; eauto. apply Qa.
      + inversion HP; subst. exact Qa.
    - inversion HP; subst. apply tgt_post_nil; auto. }
  (* record part *)
  destruct (tgt_read_rec O s1 ret1) as [[s2 o2] ret2] eqn:RP.
  set (h1 := fst (snd (tgt_scan hs cn o1))) in *.
  set (c1 := snd (snd (tgt_scan hs cn o1))) in *.
  assert (Q2 : tgt_post h1 c1 o2 s2).
  { destruct Q1 as [P1 _]. fold h1 c1 in P1. unfold tgt_read_rec in RP.
    destruct (negb (tg_state_eqb (tt_state s1) TgNone) && tt_est s1) eqn:B.
    - apply andb_true_iff in B. destruct B as [_ E1].
      pose proof P1 as [[J0 J1] [JG JC]].
      assert (H1 : h1 = true) by (apply JG; auto).
      repeat match type of RP with context [if ?b then _ else _] => destruct b end;
        inversion RP; subst; apply tgt_post_neutral; try reflexivity;
        apply tgt_pre_intro; pre_fin.
    - inversion RP; subst. apply tgt_post_nil; auto. }
  destruct (tgt_after_event s2 ret2) as [[s3 o3] ret3] eqn:AE.
  destruct (tgt_after_event_post _ _ _ _ _ _ _ (proj1 Q2) AE) as [Q3 _].
  assert (Q123 : tgt_post hs cn (o1 ++ o2 ++ o3) s3).
  { eapply tgt_post_app; [exact Q1|]. fold h1 c1. eapply tgt_post_app; [exact Q2 | exact Q3]. }
  destruct (ret3 <? 0).
  - destruct (tgt_disconnected s3 tg_NACK_NOT_DELIVERABLE) as [s4 o4] eqn:D. inversion H; subst.
    destruct (tgt_disconnected_post _ _ _ _ _ _ (proj1 Q123) D) as [Q4 _].
    replace (o1 ++ o2 ++ o3 ++ o4) with ((o1 ++ o2 ++ o3) ++ o4) by (rewrite <- !app_assoc; reflexivity).
    eapply tgt_post_app; eauto.
  - inversion H; subst. exact Q123.
Qed.

Lemma tgt_dispatch_post : forall hs cn s k s' o,
  tgt_pre hs cn s -> tgt_dispatch O s k = (s', o) -> tgt_post hs cn o s'.
Proof.
  intros hs cn s k s' o P H. unfold tgt_dispatch in H.
  destruct (tt_rxdata s) eqn:RX; simpl in H.
  2:{ inversion H; subst. apply tgt_post_nil; auto. }
  pose proof P as [[I0 I1] [G C]].
  assert (HS : hs = true) by (apply G; auto). subst hs.
  assert (DL : forall a b o2 s2, tgt_post true cn o2 s2 -> tgt_post true cn (ODeliver a b :: o2) s2).
  { intros. apply tgt_post_cons; [reflexivity | discriminate |]. simpl. rewrite orb_false_r. assumption. }
  destruct (k =? 3).
  - destruct (tg_state_eqb (tt_state s) TgCsm) eqn:ST.
    + apply tg_state_eqb_eq in ST. destruct (tgt_connected O s) as [s1 o1] eqn:CN. inversion H; subst.
      apply DL. eapply tgt_connected_post; eauto.
    + inversion H; subst. apply DL. apply tgt_post_nil; auto.
  - destruct (k =? 5).
    + destruct (tgt_disconnected s tg_NACK_RST) as [s1 o1] eqn:D. inversion H; subst.
      apply DL. eapply tgt_disconnected_post; eauto.
    + inversion H; subst. apply DL. apply tgt_post_nil; auto.
Qed.

Lemma tgt_send0_post : forall hs cn s m s' o,
  tgt_pre hs cn s -> tgt_send0 O s m = (s', o) -> tgt_post hs cn o s'.
Proof.
  intros hs cn s m s' o P H. unfold tgt_send0 in H.
  destruct (tg_state_eqb (tt_state s) TgNone && negb (tt_client s)).
  { inversion H; subst. apply tgt_post_neutral; auto. }
  destruct (tg_state_eqb (tt_state s) TgEstablished) eqn:E; simpl in H.
  2:{ inversion H; subst. apply tgt_post_neutral; auto. }
  apply tg_state_eqb_eq in E.
  destruct (tgt_write O s m) as [[s1 o1] bw] eqn:W.
  destruct (tgt_write_post _ _ _ _ _ _ _ P (or_intror E) W) as [Q1 _].
  destruct (bw <? 0); [|destruct (bw =? 0)]; inversion H; subst; try exact Q1;
    (eapply tgt_post_app; [exact Q1|]; apply tgt_post_neutral; [reflexivity | apply Q1]).
Qed.

Lemma tgt_filter_not_drop_post : forall hs cn o s',
  tgt_post hs cn o s' -> tgt_post hs cn (filter tg_not_drop o) s'.
Proof.
  intros hs cn o. revert hs cn. induction o as [|x o IH]; intros hs cn s' H; simpl; auto.
  destruct H as [P [F Hh]]. simpl in P, F.
  destruct (tgt_scan (hs || tg_is_ok x) (cn || tgt_is_conn x) o) as [ok f] eqn:E. simpl in P, F.
  apply andb_true_iff in F. destruct F as [F1 F2].
  assert (Q : tgt_post (hs || tg_is_ok x) (cn || tgt_is_conn x) o s').
  { unfold tgt_post. rewrite E. simpl. repeat split; try apply P; auto.
    intros c HI. apply Hh. right. exact HI. }
  destruct (tg_not_drop x) eqn:ND.
  - apply tgt_post_cons; auto. intros c ->. apply Hh. left. reflexivity.
  - destruct x; simpl in ND; try discriminate. simpl in Q. rewrite !orb_false_r in Q.
    apply IH. exact Q.
Qed.

Lemma tgt_send_post : forall hs cn s m app s' o,
  tgt_pre hs cn s -> tgt_send O s m app = (s', o) -> tgt_post hs cn o s'.
Proof.
  intros hs cn s m app s' o P H. unfold tgt_send in H. destruct app.
  - destruct (tt_client s && negb (tt_sock s)).
    { inversion H; subst. apply tgt_post_neutral; auto. }
    destruct (tt_client s && tt_first s).
    { inversion H; subst. apply tgt_post_nil; auto. }
    eapply tgt_send0_post; eauto.
  - destruct (tgt_send0 O s m) as [s1 o1] eqn:S0. inversion H; subst.
    apply tgt_filter_not_drop_post. eapply tgt_send0_post; eauto.
Qed.

Lemma tgt_first_timeout_post : forall hs cn s s' o,
  tgt_pre hs cn s -> tgt_first_timeout O s = (s', o) -> tgt_post hs cn o s'.
Proof.
  intros hs cn s s' o P H. unfold tgt_first_timeout in H.
  destruct (tt_client s && tt_first s).
  2:{ inversion H; subst. apply tgt_post_nil; auto. }
  simpl in H. destruct (tg_state_eqb (tt_state s) TgCsm) eqn:ST.
  - apply tg_state_eqb_eq in ST.
    assert (P1 : tgt_pre hs cn (tgt_set_first s false)) by exact P.
    eapply tgt_connected_post in H; eauto. apply H.
  - inversion H; subst. apply tgt_post_nil. exact P.
Qed.

Definition tgt_rinv (hs cn : bool) (s : tgt_sess) : Prop :=
  (tt_freed s = true \/ tgt_pre hs cn s) /\
  (tt_state s = TgEstablished -> hs = true /\ cn = true).
Definition tgt_post' (hs cn : bool) (o : list tg_out) (s' : tgt_sess) : Prop :=
  tgt_rinv (fst (snd (tgt_scan hs cn o))) (snd (snd (tgt_scan hs cn o))) s' /\
  fst (tgt_scan hs cn o) = true /\ tg_hs_from O o.

Lemma tgt_pre_W : forall hs cn s, tgt_pre hs cn s -> tt_state s = TgEstablished -> hs = true /\ cn = true.
Proof. intros hs cn s [[I0 I1] [G C]] E. split; auto. Qed.

Lemma tgt_post_weaken : forall hs cn o s', tgt_post hs cn o s' -> tgt_post' hs cn o s'.
Proof. intros hs cn o s' [P Q]. split; auto. split; auto. apply tgt_pre_W; auto. Qed.

Lemma tgt_mfree_facts : forall s s' o,
  tgt_mfree s = (s', o) -> forallb tgt_neutral o = true /\ tt_freed s' = true /\ tt_state s' = tt_state s.
Proof.
  intros s s' o H. unfold tgt_mfree, tgt_close in H.
  destruct (tt_tls s); inversion H; subst; simpl; repeat split; auto;
    try rewrite tgt_neutral_map_nack; reflexivity.
Qed.

Lemma tgt_step_post : forall hs cn s e s' o,
  tgt_pre hs cn s -> tgt_step O s e = (s', o) -> tgt_post' hs cn o s'.
Proof.
  intros hs cn s e s' o P H. unfold tgt_step in H.
  destruct (tt_freed s).
  { inversion H; subst. apply tgt_post_weaken. apply tgt_post_nil; auto. }
  pose proof P as [[I0 I1] [G C]].
  destruct e; simpl in H.
  - destruct (tt_client s); inversion H; subst; apply tgt_post_weaken.
    + apply tgt_post_nil. apply tgt_pre_intro; pre_fin.
    + apply tgt_post_nil; auto.
  - destruct (tt_client s && tg_state_eqb (tt_state s) TgConnecting) eqn:B; simpl in H.
    2:{ inversion H; subst. apply tgt_post_weaken. apply tgt_post_nil; auto. }
    apply andb_true_iff in B. destruct B as [_ B]. apply tg_state_eqb_eq in B.
    apply tgt_post_weaken. destruct ok.
    + destruct (tgt_establish O s) as [s1 o1] eqn:ES. inversion H; subst.
      apply tgt_post_cons; [reflexivity | discriminate |]. simpl. rewrite !orb_false_r.
      eapply tgt_establish_post; eauto. rewrite B. discriminate.
    + destruct (tgt_disconnected s tg_NACK_NOT_DELIVERABLE) as [s1 o1] eqn:D. inversion H; subst.
      apply tgt_post_cons; [reflexivity | discriminate |]. simpl. rewrite !orb_false_r.
      eapply tgt_disconnected_post; eauto.
  - destruct (tt_client s || negb (tg_state_eqb (tt_state s) TgNone)) eqn:B.
    { inversion H; subst. apply tgt_post_weaken. apply tgt_post_nil; auto. }
    apply orb_false_iff in B. destruct B as [_ B]. apply negb_false_iff in B. apply tg_state_eqb_eq in B.
    destruct (tgt_establish O (tgt_set_state s TgConnecting)) as [s1 o1] eqn:ES. inversion H; subst.
    apply tgt_post_weaken.
    apply tgt_post_cons; [reflexivity | discriminate |]. simpl. rewrite !orb_false_r.
    eapply tgt_establish_post; [| |exact ES]; simpl; try discriminate.
    apply tgt_pre_intro; pre_fin.
  - apply tgt_post_weaken. eapply tgt_read_post; eauto.
  - apply tgt_post_weaken. eapply tgt_dispatch_post; eauto.
  - apply tgt_post_weaken. eapply tgt_send_post; eauto.
  - apply tgt_post_weaken. eapply tgt_first_timeout_post; eauto.
  - destruct (tgt_mfree_facts _ _ _ H) as [N [F St]].
    unfold tgt_post', tgt_rinv. rewrite tgt_scan_neutral by auto. simpl.
    split; [split; auto|split; auto].
    + rewrite St. apply tgt_pre_W; auto.
    + intros c HI. rewrite forallb_forall in N. specialize (N _ HI). cbv in N. discriminate.
Qed.

Lemma tgt_step_freed : forall s e, tt_freed s = true -> tgt_step O s e = (s, []).
Proof. intros s e F. unfold tgt_step. rewrite F. reflexivity. Qed.

Lemma tgt_steps_rinv : forall evs hs cn s s' tr,
  tgt_rinv hs cn s -> tgt_steps O s evs = (s', tr) -> tgt_post' hs cn (tgt_outs tr) s'.
Proof.
  induction evs as [|e evs IH]; intros hs cn s s' tr R H; simpl in H.
  - inversion H; subst. unfold tgt_post', tgt_outs. simpl.
    split; [exact R|]. split; [reflexivity | apply tg_hs_from_nil].
  - destruct (tgt_step O s e) as [s1 o] eqn:S1.
    destruct (tgt_steps O s1 evs) as [s2 tr2] eqn:S2. inversion H; subst.
    assert (L1 : tgt_post' hs cn o s1).
    { destruct R as [[F|P] W].
      - rewrite tgt_step_freed in S1 by auto. inversion S1; subst.
        unfold tgt_post', tgt_rinv. simpl.
        split; [split; auto|]. split; [reflexivity | apply tg_hs_from_nil].
      - eapply tgt_step_post; eauto. }
    destruct L1 as [R1 [F1 H1]].
    destruct (IH _ _ _ _ _ R1 S2) as [R2 [F2 H2]].
    unfold tgt_outs. simpl. fold (tgt_outs tr2).
    unfold tgt_post'. rewrite tgt_scan_app.
    destruct (tgt_scan hs cn o) as [ok1 [h1 c1]]. simpl in *.
    destruct (tgt_scan h1 c1 (tgt_outs tr2)) as [ok2 [h2 c2]]. simpl in *. subst.
    split; [exact R2|]. split; [reflexivity|]. apply tg_hs_from_app; auto.
Qed.

Lemma tgt_new_rinv : forall c, tgt_rinv false false (tgt_new_session c).
Proof.
  intros c. split; [right; apply tgt_pre_intro; pre_fin | simpl; discriminate].
Qed.

(* ------------------------------------------------------------------ theorems *)
Theorem tgt_no_clear : forall c evs s' tr b,
  tgt_steps O (tgt_new_session c) evs = (s', tr) -> ~ In (OWireClear b) (tgt_outs tr).
Proof.
  intros c evs s' tr b H HI.
  destruct (tgt_steps_rinv _ _ _ _ _ _ (tgt_new_rinv c) H) as [_ [F _]].
  apply in_split in HI. destruct HI as [l1 [l2 E]].
  destruct (tgt_scan_spec _ _ _ _ _ _ F E) as [N _]. eapply N; eauto.
Qed.

(* nothing is handed to dispatch or to the record layer before gnutls_handshake succeeded, and
   no application message (anything but the CSM) before the session was declared connected *)
Theorem tgt_gate : forall c evs s' tr l1 x l2,
  tgt_steps O (tgt_new_session c) evs = (s', tr) -> tgt_outs tr = l1 ++ x :: l2 ->
  (tg_is_app x = true -> In (OHs 0) l1) /\
  (tgt_is_apptx x = true -> In (OEvent tg_EV_SESSION_CONNECTED) l1).
Proof.
  intros c evs s' tr l1 x l2 H E.
  destruct (tgt_steps_rinv _ _ _ _ _ _ (tgt_new_rinv c) H) as [_ [F _]].
  destruct (tgt_scan_spec _ _ _ _ _ _ F E) as [_ [A B]].
  split; intros X; [destruct (A X) | destruct (B X)]; auto; discriminate.
Qed.

Theorem tgt_established_after : forall c evs s' tr,
  tgt_steps O (tgt_new_session c) evs = (s', tr) -> tt_state s' = TgEstablished ->
  In (OHs 0) (tgt_outs tr) /\ In (OEvent tg_EV_SESSION_CONNECTED) (tgt_outs tr).
Proof.
  intros c evs s' tr H E.
  destruct (tgt_steps_rinv _ _ _ _ _ _ (tgt_new_rinv c) H) as [[_ W] _].
  destruct (W E) as [A B]. destruct (tgt_scan_flags (tgt_outs tr) false false) as [FA FB].
  split; [destruct (FA A) | destruct (FB B)]; auto; discriminate.
Qed.

Theorem tgt_hs_outputs_from_oracle : forall c evs s' tr x,
  tgt_steps O (tgt_new_session c) evs = (s', tr) ->
  In (OHs x) (tgt_outs tr) -> exists k, x = or_hs O k.
Proof.
  intros c evs s' tr x H HI.
  destruct (tgt_steps_rinv _ _ _ _ _ _ (tgt_new_rinv c) H) as [_ [_ Hh]]. apply Hh. exact HI.
Qed.

Section ContractTcp.
Variable cc : tg_ccfg.
Variable sc : tg_scfg.
Hypothesis hs_sound : forall k, or_hs O k = 0 -> tg_creds_match cc sc = true.

Theorem tgt_mismatch_never_established : forall c evs s' tr,
  tg_creds_match cc sc = false ->
  tgt_steps O (tgt_new_session c) evs = (s', tr) ->
  tt_state s' <> TgEstablished /\ (forall x, In x (tgt_outs tr) -> tg_is_app x = false).
Proof.
  intros c evs s' tr M H.
  assert (NO : ~ In (OHs 0) (tgt_outs tr)).
  { intros I1. destruct (tgt_hs_outputs_from_oracle _ _ _ _ _ H I1) as [k Hk].
    rewrite (hs_sound k) in M; [discriminate | auto]. }
  split.
  - intros E. apply NO. eapply tgt_established_after; eauto.
  - intros x HI. destruct (tg_is_app x) eqn:A; auto.
    apply in_split in HI. destruct HI as [l1 [l2 E]].
    destruct (tgt_gate _ _ _ _ _ _ _ H E) as [G _]. exfalso. apply NO. rewrite E.
    apply in_or_app. left. auto.
Qed.
End ContractTcp.

(* ------------------------------------------------------------------ who declares the session connected *)
Definition tgt_noconn (o : list tg_out) : bool := forallb (fun x => negb (tgt_is_conn x)) o.
Lemma tgt_noconn_app : forall a b, tgt_noconn (a ++ b) = tgt_noconn a && tgt_noconn b.
Proof. intros. apply forallb_app. Qed.
Lemma tgt_neutral_noconn : forall o, forallb tgt_neutral o = true -> tgt_noconn o = true.
Proof.
  induction o as [|x o IH]; intros H; simpl in *; auto.
  apply andb_true_iff in H. destruct H as [Hx Ho]. rewrite (IH Ho), andb_true_r.
  unfold tgt_neutral in Hx. apply andb_true_iff in Hx. apply Hx.
Qed.

Ltac nc_fin :=
  rewrite ?tgt_noconn_app; simpl; repeat (apply andb_true_iff; split);
  try assumption; try reflexivity; eauto.

Lemma tgt_disconnected_noconn : forall s r s' o, tgt_disconnected s r = (s', o) -> tgt_noconn o = true.
Proof. intros. apply tgt_neutral_noconn. eapply tgt_disconnected_neutral; eauto. Qed.

Lemma tgt_hs_call_noconn : forall s s' o r, tgt_hs_call O s = (s', o, r) -> tgt_noconn o = true.
Proof.
  intros s s' o r H. unfold tgt_hs_call in H.
  destruct (tg_do_handshake _ _) as [[a b] c]. inversion H; reflexivity.
Qed.

Lemma tgt_after_event_noconn : forall s ret s' o r,
  tgt_after_event s ret = (s', o, r) -> tgt_noconn o = true.
Proof.
  intros s ret s' o r H. unfold tgt_after_event in H.
  destruct (tt_event s) as [e|]; [|inversion H; reflexivity].
  destruct (tgt_disconnected s tg_NACK_TLS_FAILED) as [s1 o2] eqn:D. inversion H; subst.
  pose proof (tgt_disconnected_noconn _ _ _ _ D). destruct (e =? tg_EV_DTLS_CLOSED); nc_fin.
Qed.

Lemma tgt_write_noconn : forall s m s' o bw, tgt_write O s m = (s', o, bw) -> tgt_noconn o = true.
Proof.
  intros s m s' o bw H. unfold tgt_write in H.
  destruct (negb (tt_tls s && tt_est s)); [inversion H; reflexivity|].
  destruct (0 <? or_tx O (tt_ktx s)); [inversion H; reflexivity|].
  destruct (tgt_write_fail _ _) as [s2 ret].
  destruct (tgt_after_event s2 ret) as [[s3 o3] r3] eqn:AE.
  inversion H; subst. simpl. eapply tgt_after_event_noconn; eauto.
Qed.

Lemma tgt_flush_noconn : forall q s s' o, tgt_flush O q s = (s', o) -> tgt_noconn o = true.
Proof.
  induction q as [|m q IH]; intros s s' o H; simpl in H; [inversion H; reflexivity|].
  destruct (negb (tg_state_eqb (tt_state s) TgEstablished)); [inversion H; reflexivity|].
  destruct (tgt_write O (tgt_set_delayq s q) m) as [[s2 o2] bw] eqn:W.
  pose proof (tgt_write_noconn _ _ _ _ _ W) as N2.
  destruct (bw <=? 0); [inversion H; subst; exact N2|].
  destruct (tgt_flush O q s2) as [s3 o3] eqn:FL. inversion H; subst.
  pose proof (IH _ _ _ FL). nc_fin.
Qed.

Lemma tgt_send_csm_noconn : forall s s' o, tgt_send_csm O s = (s', o) -> tgt_noconn o = true.
Proof.
  intros s s' o H. unfold tgt_send_csm in H.
  destruct (tgt_write O (tgt_set_state s TgCsm) tgt_csm_msg) as [[s2 o2] bw] eqn:W.
  pose proof (tgt_write_noconn _ _ _ _ _ W) as N2.
  destruct (bw <=? 0); [|inversion H; subst; exact N2].
  destruct (tgt_disconnected s2 tg_NACK_NOT_DELIVERABLE) as [s3 o3] eqn:D. inversion H; subst.
  pose proof (tgt_disconnected_noconn _ _ _ _ D). nc_fin.
Qed.

Lemma tgt_establish_noconn : forall s s' o, tgt_establish O s = (s', o) -> tgt_noconn o = true.
Proof.
  intros s s' o H. unfold tgt_establish in H.
  destruct (tgt_hs_call O _) as [[s2 o2] ret] eqn:HC.
  pose proof (tgt_hs_call_noconn _ _ _ _ HC) as N2.
  destruct (ret =? 1); [|inversion H; subst; exact N2].
  destruct (tgt_send_csm O s2) as [s3 o3] eqn:SC. inversion H; subst.
  pose proof (tgt_send_csm_noconn _ _ _ SC). nc_fin.
Qed.

Lemma tgt_read_noconn : forall s s' o, tgt_read O s = (s', o) -> tgt_noconn o = true.
Proof.
  intros s s' o H. unfold tgt_read in H.
  destruct (negb (tt_tls (tgt_set_rxdata s false))); [eapply tgt_disconnected_noconn; eauto|].
  destruct (tgt_read_hs O _) as [[s1 o1] r1] eqn:HP.
  assert (N1 : tgt_noconn o1 = true).
  { unfold tgt_read_hs in HP. destruct (_ && _); [|inversion HP; reflexivity].
    destruct (tgt_hs_call O _) as [[sa oa] r] eqn:HC.
    pose proof (tgt_hs_call_noconn _ _ _ _ HC) as Na.
    destruct (r =? 1); [|inversion HP; subst; exact Na].
    destruct (tgt_send_csm O sa) as [sb ob] eqn:SC. inversion HP; subst.
    pose proof (tgt_send_csm_noconn _ _ _ SC). nc_fin. }
  destruct (tgt_read_rec O s1 r1) as [[s2 o2] r2] eqn:RP.
  assert (N2 : tgt_noconn o2 = true).
  { unfold tgt_read_rec in RP.
    repeat match type of RP with context [if ?b then _ else _] => destruct b end;
      inversion RP; reflexivity. }
  destruct (tgt_after_event s2 r2) as [[s3 o3] r3] eqn:AE.
  pose proof (tgt_after_event_noconn _ _ _ _ _ AE) as N3.
  destruct (r3 <? 0).
  - destruct (tgt_disconnected s3 tg_NACK_NOT_DELIVERABLE) as [s4 o4] eqn:D. inversion H; subst.
    pose proof (tgt_disconnected_noconn _ _ _ _ D). nc_fin.
  - inversion H; subst. nc_fin.
Qed.

Lemma tgt_send_noconn : forall s m app s' o, tgt_send O s m app = (s', o) -> tgt_noconn o = true.
Proof.
  assert (S0 : forall s m s' o, tgt_send0 O s m = (s', o) -> tgt_noconn o = true).
  { intros s m s' o H. unfold tgt_send0 in H.
    destruct (_ && _); [inversion H; reflexivity|].
    destruct (negb _); [inversion H; reflexivity|].
    destruct (tgt_write O s m) as [[s1 o1] bw] eqn:W. pose proof (tgt_write_noconn _ _ _ _ _ W) as N.
    destruct (bw <? 0); [|destruct (bw =? 0)]; inversion H; subst;
      nc_fin. }
  intros s m app s' o H. unfold tgt_send in H. destruct app.
  - destruct (_ && _); [inversion H; reflexivity|].
    destruct (_ && _); [inversion H; reflexivity|]. eapply S0; eauto.
  - destruct (tgt_send0 O s m) as [s1 o1] eqn:E. inversion H; subst.
    pose proof (S0 _ _ _ _ E) as N. clear -N. induction o1 as [|x o1 IH]; simpl in *; auto.
    apply andb_true_iff in N. destruct N as [A B]. destruct (tg_not_drop x); simpl; auto.
    rewrite A. simpl. auto.
Qed.

(* only the peer's CSM or the CSM time-out of the wait declare the session connected *)
Theorem tgt_connected_only_by : forall s e s' o,
  tgt_step O s e = (s', o) -> In (OEvent tg_EV_SESSION_CONNECTED) o ->
  e = TDispatch 3 \/ e = TFirstTimeout.
Proof.
  intros s e s' o H HI.
  assert (K : tgt_noconn o = true -> False).
  { intros N. unfold tgt_noconn in N. rewrite forallb_forall in N. specialize (N _ HI).
    simpl in N. discriminate. }
  unfold tgt_step in H. destruct (tt_freed s); [inversion H; subst; destruct HI|].
  destruct e; simpl in H; auto.
  - exfalso; apply K. destruct (tt_client s); inversion H; reflexivity.
  - exfalso; apply K. destruct (negb _); [inversion H; reflexivity|]. destruct ok.
    + destruct (tgt_establish O s) as [s1 o1] eqn:E. inversion H; subst. simpl.
      eapply tgt_establish_noconn; eauto.
    + destruct (tgt_disconnected s tg_NACK_NOT_DELIVERABLE) as [s1 o1] eqn:D. inversion H; subst.
      simpl. eapply tgt_disconnected_noconn; eauto.
  - exfalso; apply K. destruct (_ || _); [inversion H; reflexivity|].
    destruct (tgt_establish O _) as [s1 o1] eqn:E. inversion H; subst. simpl.
    eapply tgt_establish_noconn; eauto.
  - exfalso; apply K. eapply tgt_read_noconn; eauto.
  - destruct (kind =? 3) eqn:K3; [left; apply Z.eqb_eq in K3; subst; reflexivity|].
    exfalso; apply K. unfold tgt_dispatch in H. rewrite K3 in H.
    destruct (negb (tt_rxdata s)); [inversion H; reflexivity|].
    destruct (kind =? 5).
    + destruct (tgt_disconnected s tg_NACK_RST) as [s1 o1] eqn:D. inversion H; subst. simpl.
      eapply tgt_disconnected_noconn; eauto.
    + inversion H; reflexivity.
  - exfalso; apply K. eapply tgt_send_noconn; eauto.
  - exfalso; apply K. destruct (tgt_mfree_facts _ _ _ H) as [N _]. apply tgt_neutral_noconn; auto.
Qed.

End ProofsTcp.

(* C19 - proofs about the gate model, part 2: if no gnutls_handshake call ever succeeds (which is
   what GnuTLS's contract gives for credentials that do not match), every Confirmable the
   application queued is reported by exactly one NACK - at the latest when the handshake is
   abandoned or the session released - and nothing queued is ever handed to the record layer. *)
From LibcoapV Require Import Base.Tactics Base.Bytes Tls.Gate Tls.GateProofs.
Local Open Scope Z_scope.

(* ids of the Confirmables reported by a NACK / accepted into the delay queue, in output order *)
Fixpoint tg_nack_ids (o : list tg_out) : list Z :=
  match o with
  | [] => []
  | ONack i _ :: r => i :: tg_nack_ids r
  | _ :: r => tg_nack_ids r
  end.
Fixpoint tg_dcon_ids (o : list tg_out) : list Z :=
  match o with
  | [] => []
  | ODelayed i true :: r => i :: tg_dcon_ids r
  | _ :: r => tg_dcon_ids r
  end.
Definition tg_qcon_ids (s : tg_sess) : list Z := tg_ids (tg_cons (ts_delayq s)).

Lemma tg_nack_ids_app : forall a b, tg_nack_ids (a ++ b) = tg_nack_ids a ++ tg_nack_ids b.
Proof.
  induction a as [|x a IH]; intros b; simpl; auto. destruct x; simpl; rewrite ?IH; auto.
Qed.
Lemma tg_dcon_ids_app : forall a b, tg_dcon_ids (a ++ b) = tg_dcon_ids a ++ tg_dcon_ids b.
Proof.
  induction a as [|x a IH]; intros b; simpl; auto.
  destruct x; simpl; rewrite ?IH; auto. destruct con; simpl; rewrite ?IH; auto.
Qed.

Lemma tg_nack_ids_map : forall r (q : list tg_msg),
  tg_nack_ids (map (fun m => ONack (tm_id m) r) q) = tg_ids q.
Proof. induction q; simpl; auto. rewrite IHq. reflexivity. Qed.
Lemma tg_dcon_ids_map : forall r (q : list tg_msg),
  tg_dcon_ids (map (fun m => ONack (tm_id m) r) q) = [].
Proof. induction q; simpl; auto. Qed.

Section Nack.
Variable O : tg_oracle.
Hypothesis never_ok : forall k, or_hs O k <> 0.

(* the world in which the handshake has not succeeded *)
Definition tg_J (s : tg_sess) : Prop :=
  ts_proto s = TgDtls /\ ts_type s = TgClient /\
  ts_tls_est s = false /\ ts_state s <> TgEstablished /\ ts_sendq s = [] /\
  (ts_sock s = false -> ts_delayq s = []) /\ ts_freed s = false.

(* conservation: queued Confirmables + newly accepted ones = NACKed ones + still queued ones *)
Definition tg_law (s : tg_sess) (o : list tg_out) (s' : tg_sess) : Prop :=
  tg_J s' /\ tg_qcon_ids s ++ tg_dcon_ids o = tg_nack_ids o ++ tg_qcon_ids s' /\
  (forall i c, In (OTlsTx i c) o -> False).

Lemma tg_law_nil : forall s, tg_J s -> tg_law s [] s.
Proof. intros s J. split; auto. split; [simpl; rewrite app_nil_r; reflexivity | intros i c []]. Qed.

Lemma tg_law_app : forall s o1 s1 o2 s2,
  tg_law s o1 s1 -> tg_law s1 o2 s2 -> tg_law s (o1 ++ o2) s2.
Proof.
  intros s o1 s1 o2 s2 [J1 [L1 T1]] [J2 [L2 T2]]. split; auto. split.
  - rewrite tg_dcon_ids_app, tg_nack_ids_app, app_assoc, L1, <- app_assoc, L2, app_assoc.
    reflexivity.
  - intros i c H. apply in_app_or in H. destruct H; eauto.
Qed.

(* a step that touches neither queue and emits neither NACK nor ODelayed nor OTlsTx *)
Definition tg_quiet (x : tg_out) : bool :=
  match x with ONack _ _ | ODelayed _ _ | OTlsTx _ _ => false | _ => true end.

Lemma tg_quiet_ids : forall o, forallb tg_quiet o = true ->
  tg_nack_ids o = [] /\ tg_dcon_ids o = [] /\ (forall i c, In (OTlsTx i c) o -> False).
Proof.
  induction o as [|x o IH]; intros H; simpl in *.
  - repeat split; auto.
  - apply andb_true_iff in H. destruct H as [Hx Ho]. destruct (IH Ho) as [A [B C]].
    destruct x; simpl in Hx; try discriminate; simpl; repeat split; auto;
      intros i c' [E|E]; try discriminate; eauto.
Qed.

Lemma tg_law_quiet : forall s o s',
  tg_J s' -> ts_delayq s' = ts_delayq s -> forallb tg_quiet o = true -> tg_law s o s'.
Proof.
  intros s o s' J D Q. destruct (tg_quiet_ids _ Q) as [A [B C]].
  split; auto. split; auto. unfold tg_qcon_ids. rewrite A, B, D. simpl. rewrite app_nil_r. reflexivity.
Qed.

Lemma tg_J_intro : forall s,
  ts_proto s = TgDtls -> ts_type s = TgClient ->
  ts_tls_est s = false -> ts_state s <> TgEstablished -> ts_sendq s = [] ->
  (ts_sock s = false -> ts_delayq s = []) -> ts_freed s = false -> tg_J s.
Proof. intros. unfold tg_J. repeat split; assumption. Qed.

Lemma tg_hs_call_law : forall s s' o r,
  tg_J s -> tg_hs_call O s = (s', o, r) ->
  tg_law s o s' /\ r <> 1 /\ ts_state s' = ts_state s /\ ts_type s' = ts_type s /\
  ts_tls s' = ts_tls s /\ ts_delayq s' = ts_delayq s.
Proof.
  intros s s' o r [Jp [Jt [Je [Js [Jq [Jk Jf]]]]]] H. unfold tg_hs_call in H.
  pose proof (tg_do_handshake_ret (ts_sent_alert s) (or_hs O (ts_khs s))) as R.
  destruct (tg_do_handshake (ts_sent_alert s) (or_hs O (ts_khs s))) as [[ret ev] sa].
  simpl in R. inversion H; subst; clear H.
  assert (NE : (r =? 1) = false).
  { rewrite R. apply Z.eqb_neq. apply never_ok. }
  split; [|simpl; repeat split; auto; intros E; rewrite E in NE; discriminate].
  apply tg_law_quiet; auto. apply tg_J_intro; simpl; auto. rewrite NE. exact Je.
Qed.

Lemma tg_disconnected_law : forall s r s' o,
  tg_J s -> tg_disconnected s r = (s', o) ->
  tg_law s o s' /\ ts_state s' = TgNone /\ ts_type s' = ts_type s /\ ts_sock s' = false.
Proof.
  intros s r s' o [Jp [Jt [Je [Js [Jq [Jk Jf]]]]]] H.
  unfold tg_disconnected, tg_tls_close in H. simpl in H. rewrite Jp, Jq in H. simpl in H.
  assert (L : forall tail : list tg_out,
             forallb tg_quiet tail = true ->
             tg_nack_ids (map (fun m => ONack (tm_id m) r) (tg_cons (ts_delayq s)) ++ tail)
             = tg_qcon_ids s /\
             tg_dcon_ids (map (fun m => ONack (tm_id m) r) (tg_cons (ts_delayq s)) ++ tail) = [] /\
             (forall i c, In (OTlsTx i c)
                (map (fun m => ONack (tm_id m) r) (tg_cons (ts_delayq s)) ++ tail) -> False)).
  { intros tail Q. destruct (tg_quiet_ids _ Q) as [A [B C]].
    rewrite tg_nack_ids_app, tg_dcon_ids_app, tg_nack_ids_map, tg_dcon_ids_map, A, B.
    rewrite app_nil_r. repeat split; auto.
    intros i c HI. apply in_app_or in HI. destruct HI as [HI|HI]; [|eauto].
    apply in_map_iff in HI. destruct HI as [m [E _]]. discriminate. }
  destruct (ts_tls s); inversion H; subst; clear H;
    match goal with |- context [map ?f ?q ++ ?t] => destruct (L t) as [A [B C]] end;
    try (destruct (map _ _); reflexivity);
    (split; [|simpl; auto]);
    (split; [apply tg_J_intro; simpl; auto; discriminate|]);
    (split; [rewrite A, B; unfold tg_qcon_ids; simpl; rewrite app_nil_r; reflexivity | exact C]).
Qed.

Lemma tg_ids_cons_app : forall q (m : tg_msg),
  tg_ids (tg_cons (q ++ [m])) = tg_ids (tg_cons q) ++ (if tm_con m then [tm_id m] else []).
Proof.
  intros q m. unfold tg_cons, tg_ids. rewrite filter_app, map_app. simpl.
  destruct (tm_con m); reflexivity.
Qed.

Lemma tg_J_not_est : forall s, tg_J s -> tg_state_eqb (ts_state s) TgEstablished = false.
Proof.
  intros s J. destruct (tg_state_eqb (ts_state s) TgEstablished) eqn:E; auto.
  apply tg_state_eqb_eq in E. destruct J as [_ [_ [_ [N _]]]]. contradiction.
Qed.

Lemma tg_send_law : forall s m s' o,
  tg_J s -> tg_send O s m true = (s', o) -> tg_law s o s'.
Proof.
  intros s m s' o J H. pose proof J as [Jp [Jt [Je [Js [Jq [Jk Jf]]]]]].
  unfold tg_send in H. rewrite Jt in H. simpl in H.
  destruct (ts_sock s) eqn:SK; simpl in H.
  2:{ inversion H; subst. apply tg_law_quiet; auto. }
  unfold tg_send0 in H. rewrite Jt in H. simpl in H. rewrite andb_false_r in H.
  rewrite (tg_J_not_est _ J) in H. simpl in H. unfold tg_delay_new in H.
  destruct (tg_in (tm_id m) (tg_ids (ts_delayq s))); simpl in H; inversion H; subst; clear H.
  - apply tg_law_quiet; auto.
  - split; [apply tg_J_intro; simpl; auto; rewrite SK; discriminate|].
    split; [|intros i c [E|[]]; discriminate].
    unfold tg_qcon_ids. simpl. rewrite tg_ids_cons_app. destruct (tm_con m); reflexivity.
Qed.

Lemma tg_after_event_law : forall s ev s' o,
  tg_J s -> tg_after_event s ev = (s', o) -> tg_law s o s' /\ ts_type s' = ts_type s.
Proof.
  intros s ev s' o J H. unfold tg_after_event in H. destruct ev as [e|].
  2:{ inversion H; subst. split; auto. apply tg_law_nil; auto. }
  set (o1 := if e =? tg_EV_DTLS_CLOSED then [] else [OEvent e]) in H.
  assert (Q1 : forallb tg_quiet o1 = true) by (unfold o1; destruct (e =? tg_EV_DTLS_CLOSED); reflexivity).
  destruct ((e =? tg_EV_DTLS_ERROR) || (e =? tg_EV_DTLS_CLOSED)).
  - destruct (tg_disconnected s tg_NACK_TLS_FAILED) as [s1 o2] eqn:D. inversion H; subst.
    destruct (tg_disconnected_law _ _ _ _ J D) as [L [_ [T _]]]. split; auto.
    eapply tg_law_app; [apply tg_law_quiet; eauto | exact L].
  - inversion H; subst. split; auto. apply tg_law_quiet; auto.
Qed.

Lemma tg_dtls_receive_law : forall s0 pty pmid s' o,
  tg_J s0 -> tg_dtls_receive O s0 pty pmid = (s', o) -> tg_law s0 o s'.
Proof.
  intros s0 pty pmid s' o J0 H. unfold tg_dtls_receive in H.
  set (s := tg_set_dtls_event s0 None) in H.
  assert (J : tg_J s) by exact J0.
  change (tg_qcon_ids s0) with (tg_qcon_ids s) in *.
  assert (EQ : forall o s', tg_law s o s' -> tg_law s0 o s') by (intros; assumption).
  apply EQ. clear EQ. clearbody s. clear J0 s0.
  assert (E : ts_tls_est s = false) by apply J. rewrite E in H.
  destruct (tg_hs_call O s) as [[s1 o1] ret1] eqn:H1.
  destruct (tg_hs_call_law _ _ _ _ J H1) as [L1 [R1 _]].
  apply Z.eqb_neq in R1. rewrite R1 in H.
  destruct (or_more O (ts_khs s) && negb (ts_sent_alert s1)).
  - destruct (tg_hs_call O s1) as [[s2 o2] ret2] eqn:H2.
    destruct (tg_hs_call_law _ _ _ _ (proj1 L1) H2) as [L2 [R2 _]].
    apply Z.eqb_neq in R2. rewrite R2 in H.
    destruct (tg_after_event s2 (ts_dtls_event s2)) as [s4 o4] eqn:AE. inversion H; subst.
    destruct (tg_after_event_law _ _ _ _ (proj1 L2) AE) as [L4 _].
    simpl. eapply tg_law_app; eauto. eapply tg_law_app; eauto.
  - destruct (tg_after_event s1 (ts_dtls_event s1)) as [s2 o2] eqn:AE. inversion H; subst.
    destruct (tg_after_event_law _ _ _ _ (proj1 L1) AE) as [L2 _].
    eapply tg_law_app; eauto.
Qed.

Lemma tg_recv_law : forall s pty pmid s' o,
  tg_J s -> tg_recv O s pty pmid = (s', o) -> tg_law s o s'.
Proof.
  intros s pty pmid s' o J H. pose proof J as [Jp [Jt _]].
  unfold tg_recv in H. rewrite Jp, Jt in H. simpl in H.
  destruct (ts_tls s).
  - eapply tg_dtls_receive_law; eauto.
  - inversion H; subst. apply tg_law_nil; auto.
Qed.

Lemma tg_connect_law : forall s s' o,
  tg_J s -> tg_connect O s = (s', o) -> tg_law s o s'.
Proof.
  intros s s' o J H. pose proof J as [Jp [Jt [Je [Js [Jq [Jk Jf]]]]]].
  unfold tg_connect in H. rewrite Jp, Jt in H. simpl in H.
  set (s1 := tg_set_tls (tg_set_state s TgHandshake) true false false) in H.
  assert (J1 : tg_J s1) by (apply tg_J_intro; simpl; auto; discriminate).
  assert (EQ : forall o s', tg_law s1 o s' -> tg_law s o s') by (intros; assumption).
  apply EQ. clear EQ.
  destruct (tg_hs_call O s1) as [[s2 o2] ret] eqn:HC.
  destruct (tg_hs_call_law _ _ _ _ J1 HC) as [L2 [R2 [St2 [Ty2 [T2 D2]]]]].
  destruct (ret =? -1).
  - destruct (tg_disconnected (tg_set_tls s2 false false false) tg_NACK_TLS_LAYER_FAILED)
      as [s4 o4] eqn:D.
    inversion H; subst.
    assert (J3 : tg_J (tg_set_tls s2 false false false)).
    { destruct L2 as [[A1 [A2 [A3 [A4 [A5 [A6 A7]]]]]] _]. apply tg_J_intro; simpl; auto. }
    destruct (tg_disconnected_law _ _ _ _ J3 D) as [L4 _].
    eapply tg_law_app; [exact L2 | exact L4].
  - inversion H; subst. exact L2.
Qed.

Lemma tg_timeout_law : forall s s' o,
  tg_J s -> tg_timeout O s = (s', o) -> tg_law s o s'.
Proof.
  intros s s' o J H. unfold tg_timeout in H.
  destruct (tg_state_eqb (ts_state s) TgHandshake && tg_proto_eqb (ts_proto s) TgDtls && ts_tls s).
  2:{ inversion H; subst. apply tg_law_nil; auto. }
  simpl in H.
  set (s1 := tg_set_to_count s (ts_to_count s + 1)) in H.
  assert (J1 : tg_J s1) by exact J.
  assert (EQ : forall o s', tg_law s1 o s' -> tg_law s o s') by (intros; assumption).
  apply EQ. clear EQ.
  destruct (ts_max_retransmit s <? ts_to_count s + 1).
  { eapply tg_disconnected_law in H; eauto. apply H. }
  destruct (tg_hs_call O s1) as [[s2 o2] ret] eqn:HC.
  destruct (tg_hs_call_law _ _ _ _ J1 HC) as [L2 _].
  destruct (ret <? 0).
  - destruct (tg_disconnected s2 tg_NACK_TLS_FAILED) as [s3 o3] eqn:D. inversion H; subst.
    destruct (tg_disconnected_law _ _ _ _ (proj1 L2) D) as [L3 _].
    eapply tg_law_app; eauto.
  - inversion H; subst. exact L2.
Qed.

(* after coap_session_free: nothing is held any more *)
Definition tg_R (s : tg_sess) : Prop :=
  tg_J s \/ (ts_freed s = true /\ ts_delayq s = [] /\ ts_sock s = false /\
             ts_state s <> TgEstablished).
Definition tg_law' (s : tg_sess) (o : list tg_out) (s' : tg_sess) : Prop :=
  tg_R s' /\ tg_qcon_ids s ++ tg_dcon_ids o = tg_nack_ids o ++ tg_qcon_ids s' /\
  (forall i c, In (OTlsTx i c) o -> False).

Lemma tg_law_weaken : forall s o s', tg_law s o s' -> tg_law' s o s'.
Proof. intros s o s' [J L]. split; auto. left; auto. Qed.

Lemma tg_law'_app : forall s o1 s1 o2 s2,
  tg_law s o1 s1 -> tg_law' s1 o2 s2 -> tg_law' s (o1 ++ o2) s2.
Proof.
  intros s o1 s1 o2 s2 [J1 [L1 T1]] [J2 [L2 T2]]. split; auto. split.
  - rewrite tg_dcon_ids_app, tg_nack_ids_app, app_assoc, L1, <- app_assoc, L2, app_assoc.
    reflexivity.
  - intros i c H. apply in_app_or in H. destruct H; eauto.
Qed.

Lemma tg_mfree_law : forall s s' o,
  tg_J s -> tg_mfree s = (s', o) -> tg_law' s o s'.
Proof.
  intros s s' o [Jp [Jt [Je [Js [Jq [Jk Jf]]]]]] H.
  unfold tg_mfree, tg_tls_close in H. rewrite Jp in H.
  destruct (ts_tls s); inversion H; subst; clear H; simpl.
  - split; [right; simpl; auto|]. split.
    + simpl. rewrite tg_nack_ids_map, tg_dcon_ids_map. unfold tg_qcon_ids. simpl.
      rewrite !app_nil_r. reflexivity.
    + intros i c [E|HI]; [discriminate|]. apply in_map_iff in HI. destruct HI as [m [E _]].
      discriminate.
  - split; [right; simpl; auto|]. split.
    + rewrite tg_nack_ids_map, tg_dcon_ids_map. unfold tg_qcon_ids. simpl.
      rewrite !app_nil_r. reflexivity.
    + intros i c HI. apply in_map_iff in HI. destruct HI as [m [E _]]. discriminate.
Qed.

Lemma tg_maybe_free_law : forall s s' o,
  tg_J s -> tg_maybe_free s = (s', o) -> tg_law' s o s'.
Proof.
  intros s s' o J H. unfold tg_maybe_free in H.
  destruct (negb (ts_app_ref s) && tg_type_eqb (ts_type s) TgClient
            && match ts_sendq s with [] => true | _ => false end && negb (ts_freed s)).
  - eapply tg_mfree_law; eauto.
  - inversion H; subst. apply tg_law_weaken. apply tg_law_nil; auto.
Qed.

(* the events of this part: what the application and the network do to a client session *)
Definition tg_app_only (e : tg_ev) : Prop :=
  match e with ESend _ false => False | _ => True end.

Lemma tg_step_law : forall s e s' o,
  tg_J s -> tg_app_only e -> tg_step O s e = (s', o) -> tg_law' s o s'.
Proof.
  intros s e s' o J A H. unfold tg_step in H.
  assert (F : ts_freed s = false) by apply J. rewrite F in H.
  destruct (tg_step0 O s e) as [s1 o1] eqn:S0.
  destruct (tg_maybe_free s1) as [s2 o2] eqn:MF. inversion H; subst; clear H.
  destruct e; simpl in S0.
  - eapply tg_law'_app; [eapply tg_connect_law; eauto|].
    eapply tg_maybe_free_law; eauto. eapply tg_connect_law; eauto.
  - destruct app; [|contradiction].
    eapply tg_law'_app; [eapply tg_send_law; eauto|].
    eapply tg_maybe_free_law; eauto. eapply tg_send_law; eauto.
  - eapply tg_law'_app; [eapply tg_recv_law; eauto|].
    eapply tg_maybe_free_law; eauto. eapply tg_recv_law; eauto.
  - eapply tg_law'_app; [eapply tg_timeout_law; eauto|].
    eapply tg_maybe_free_law; eauto. eapply tg_timeout_law; eauto.
  - unfold tg_retransmit in S0. assert (Q : ts_sendq s = []) by apply J. rewrite Q in S0.
    simpl in S0. inversion S0; subst. simpl. eapply tg_maybe_free_law; eauto.
  - inversion S0; subst. simpl. exact (tg_maybe_free_law (tg_set_app_ref s false) _ _ J MF).
  - assert (J' : tg_J (tg_set_sendq s [])).
    { destruct J as [A1 [A2 [A3 [A4 [A5 [A6 A7]]]]]]. apply tg_J_intro; simpl; auto. }
    pose proof (tg_mfree_law _ _ _ J' S0) as [R [L T]].
    unfold tg_maybe_free in MF.
    assert (F1 : ts_freed s1 = true).
    { unfold tg_mfree in S0. destruct (tg_tls_close (tg_set_sendq s [])). inversion S0. reflexivity. }
    rewrite F1, andb_false_r in MF. inversion MF; subst. rewrite app_nil_r.
    split; auto.
Qed.

Lemma tg_law'_trans : forall s o1 s1 o2 s2,
  tg_law' s o1 s1 -> tg_law' s1 o2 s2 -> tg_law' s (o1 ++ o2) s2.
Proof.
  intros s o1 s1 o2 s2 [J1 [L1 T1]] [J2 [L2 T2]]. split; auto. split.
  - rewrite tg_dcon_ids_app, tg_nack_ids_app, app_assoc, L1, <- app_assoc, L2, app_assoc.
    reflexivity.
  - intros i c H. apply in_app_or in H. destruct H; eauto.
Qed.

Lemma tg_step_law' : forall s e s' o,
  tg_R s -> tg_app_only e -> tg_step O s e = (s', o) -> tg_law' s o s'.
Proof.
  intros s e s' o [J|[F [D [K N]]]] A H.
  - eapply tg_step_law; eauto.
  - unfold tg_step in H. rewrite F in H. inversion H; subst.
    split; [right; auto|]. split; [simpl; rewrite app_nil_r; reflexivity | intros i c []].
Qed.

Lemma tg_steps_law : forall evs s s' tr,
  tg_R s -> Forall tg_app_only evs -> tg_steps O s evs = (s', tr) -> tg_law' s (tg_outs tr) s'.
Proof.
  induction evs as [|e evs IH]; intros s s' tr R A H; simpl in H.
  - inversion H; subst. split; auto. split; [simpl; rewrite app_nil_r; reflexivity | intros i c []].
  - destruct (tg_step O s e) as [s1 o] eqn:S1.
    destruct (tg_steps O s1 evs) as [s2 tr2] eqn:S2. inversion H; subst.
    inversion A; subst.
    pose proof (tg_step_law' _ _ _ _ R H2 S1) as L1.
    pose proof (IH _ _ _ (proj1 L1) H3 S2) as L2.
    unfold tg_outs. simpl. fold (tg_outs tr2). eapply tg_law'_trans; eauto.
Qed.

Lemma tg_new_J : forall n, tg_J (tg_new_session TgDtls TgClient n).
Proof. intros n. apply tg_J_intro; simpl; auto; discriminate. Qed.

(* ------------------------------------------------------------------ theorems, part 2 *)

(* conservation: every Confirmable accepted into the delay queue is NACKed once or is still
   queued; nothing queued reaches the record layer *)
Theorem tg_nack_conservation : forall n evs s' tr,
  Forall tg_app_only evs ->
  tg_steps O (tg_new_session TgDtls TgClient n) evs = (s', tr) ->
  tg_dcon_ids (tg_outs tr) = tg_nack_ids (tg_outs tr) ++ tg_qcon_ids s' /\
  (forall i c, ~ In (OTlsTx i c) (tg_outs tr)).
Proof.
  intros n evs s' tr A H.
  destruct (tg_steps_law _ _ _ _ (or_introl (tg_new_J n)) A H) as [_ [L T]].
  split; [exact L | intros i c HI; eapply T; eauto].
Qed.

(* ... so, counting: the number of NACKs for an id is the number of times it was accepted
   minus the copies still queued *)
Theorem tg_nack_count : forall n evs s' tr i,
  Forall tg_app_only evs ->
  tg_steps O (tg_new_session TgDtls TgClient n) evs = (s', tr) ->
  count_occ Z.eq_dec (tg_dcon_ids (tg_outs tr)) i =
  (count_occ Z.eq_dec (tg_nack_ids (tg_outs tr)) i + count_occ Z.eq_dec (tg_qcon_ids s') i)%nat.
Proof.
  intros n evs s' tr i A H. destruct (tg_nack_conservation _ _ _ _ A H) as [L _].
  rewrite L. apply count_occ_app.
Qed.

(* with pairwise distinct message ids: exactly one NACK for each accepted Confirmable that is
   no longer queued, none for one that is *)
Theorem tg_failed_nacks_once : forall n evs s' tr,
  Forall tg_app_only evs ->
  tg_steps O (tg_new_session TgDtls TgClient n) evs = (s', tr) ->
  NoDup (tg_dcon_ids (tg_outs tr)) ->
  forall i, In i (tg_dcon_ids (tg_outs tr)) ->
  (In i (tg_qcon_ids s') /\ count_occ Z.eq_dec (tg_nack_ids (tg_outs tr)) i = 0%nat) \/
  (~ In i (tg_qcon_ids s') /\ count_occ Z.eq_dec (tg_nack_ids (tg_outs tr)) i = 1%nat).
Proof.
  intros n evs s' tr A H ND i HI.
  pose proof (tg_nack_count _ _ _ _ i A H) as C.
  assert (C1 : count_occ Z.eq_dec (tg_dcon_ids (tg_outs tr)) i = 1%nat).
  { apply NoDup_count_occ' with (decA := Z.eq_dec) in HI; auto. }
  rewrite C1 in C.
  destruct (count_occ Z.eq_dec (tg_qcon_ids s') i) as [|k] eqn:Q.
  - right. split; [|lia]. intros HQ. apply (count_occ_In Z.eq_dec) in HQ. lia.
  - left. split; [|lia]. apply (count_occ_In Z.eq_dec). lia.
Qed.

(* at the latest when the handshake is abandoned or the session released (the socket is closed
   in both cases) nothing is queued any more: every accepted Confirmable has its NACK *)
Theorem tg_closed_all_nacked : forall n evs s' tr,
  Forall tg_app_only evs ->
  tg_steps O (tg_new_session TgDtls TgClient n) evs = (s', tr) ->
  ts_sock s' = false ->
  ts_delayq s' = [] /\ tg_dcon_ids (tg_outs tr) = tg_nack_ids (tg_outs tr).
Proof.
  intros n evs s' tr A H K.
  destruct (tg_steps_law _ _ _ _ (or_introl (tg_new_J n)) A H) as [R [L _]].
  assert (D : ts_delayq s' = []).
  { destruct R as [[_ [_ [_ [_ [_ [Jk _]]]]]]|[_ [D _]]]; auto. }
  split; auto. change (tg_qcon_ids (tg_new_session TgDtls TgClient n)) with (@nil Z) in L.
  simpl in L. rewrite L. unfold tg_qcon_ids. rewrite D. simpl. rewrite app_nil_r. reflexivity.
Qed.

(* abandoning the handshake closes the socket: after the step in which the session leaves
   HANDSHAKE for NONE the queue is empty *)
Theorem tg_never_established_state : forall n evs s' tr,
  Forall tg_app_only evs ->
  tg_steps O (tg_new_session TgDtls TgClient n) evs = (s', tr) ->
  ts_state s' <> TgEstablished.
Proof.
  intros n evs s' tr A H.
  destruct (tg_steps_law _ _ _ _ (or_introl (tg_new_J n)) A H) as [R _].
  destruct R as [[_ [_ [_ [N _]]]]|[_ [_ [_ N]]]]; exact N.
Qed.

End Nack.

(* ------------------------------------------------------------------ distinct ids
   The ids accepted into the delay queue are a sub-sequence of the ids the application
   submitted: distinct submitted ids give distinct accepted ids. *)
Definition tg_nodl (o : list tg_out) : bool :=
  forallb (fun x => match x with ODelayed _ _ => false | _ => true end) o.

Lemma tg_nodl_dcon : forall o, tg_nodl o = true -> tg_dcon_ids o = [].
Proof.
  induction o as [|x o IH]; intros H; simpl in *; auto.
  apply andb_true_iff in H. destruct H as [Hx Ho]. destruct x; try discriminate; simpl; auto.
Qed.
Lemma tg_nodl_app : forall a b, tg_nodl (a ++ b) = tg_nodl a && tg_nodl b.
Proof. intros. unfold tg_nodl. apply forallb_app. Qed.
Lemma tg_nodl_map_nack : forall r (q : list tg_msg),
  tg_nodl (map (fun m => ONack (tm_id m) r) q) = true.
Proof. induction q; simpl; auto. Qed.

Lemma tg_disconnected_nodl : forall s r s' o, tg_disconnected s r = (s', o) -> tg_nodl o = true.
Proof.
  intros s r s' o H. unfold tg_disconnected, tg_tls_close in H.
  destruct (ts_proto _); [|destruct (ts_tls _)]; inversion H; subst; clear H;
    rewrite !tg_nodl_app, !tg_nodl_map_nack;
    destruct (ts_sendq s) as [|m q]; simpl; try (destruct (tm_con m)); simpl;
    try (destruct (map _ (tg_cons (ts_delayq s)))); reflexivity.
Qed.

Lemma tg_after_event_nodl : forall s ev s' o, tg_after_event s ev = (s', o) -> tg_nodl o = true.
Proof.
  intros s ev s' o H. unfold tg_after_event in H. destruct ev as [e|]; [|inversion H; reflexivity].
  destruct ((e =? tg_EV_DTLS_ERROR) || (e =? tg_EV_DTLS_CLOSED)).
  - destruct (tg_disconnected s tg_NACK_TLS_FAILED) as [s1 o2] eqn:D. inversion H; subst.
    rewrite tg_nodl_app, (tg_disconnected_nodl _ _ _ _ D).
    destruct (e =? tg_EV_DTLS_CLOSED); reflexivity.
  - inversion H; subst. destruct (e =? tg_EV_DTLS_CLOSED); reflexivity.
Qed.

Lemma tg_mfree_nodl : forall s s' o, tg_mfree s = (s', o) -> tg_nodl o = true.
Proof.
  intros s s' o H. unfold tg_mfree, tg_tls_close in H.
  destruct (ts_proto s); [|destruct (ts_tls s)]; inversion H; subst; simpl;
    try apply tg_nodl_map_nack.
Qed.

Lemma tg_maybe_free_nodl : forall s s' o, tg_maybe_free s = (s', o) -> tg_nodl o = true.
Proof.
  intros s s' o H. unfold tg_maybe_free in H.
  destruct (_ && _); [eapply tg_mfree_nodl; eauto | inversion H; reflexivity].
Qed.

Section NoDupIds.
Variable O : tg_oracle.
Hypothesis never_ok : forall k, or_hs O k <> 0.

Lemma tg_hs_call_nodl : forall s s' o r, tg_hs_call O s = (s', o, r) -> tg_nodl o = true.
Proof.
  intros s s' o r H. unfold tg_hs_call in H.
  destruct (tg_do_handshake _ _) as [[ret ev] sa]. inversion H; reflexivity.
Qed.

Lemma tg_step_dcon : forall s e s' o,
  tg_J s -> tg_app_only e -> tg_step O s e = (s', o) ->
  tg_dcon_ids o = [] \/ exists m, e = ESend m true /\ tg_dcon_ids o = [tm_id m].
Proof.
  intros s e s' o J A H. pose proof J as [Jp [Jt [Je [Js [Jq [Jk Jf]]]]]].
  unfold tg_step in H. rewrite Jf in H.
  destruct (tg_step0 O s e) as [s1 o1] eqn:S0.
  destruct (tg_maybe_free s1) as [s2 o2] eqn:MF. inversion H; subst; clear H.
  pose proof (tg_nodl_dcon _ (tg_maybe_free_nodl _ _ _ MF)) as D2.
  rewrite tg_dcon_ids_app, D2, app_nil_r.
  destruct e; simpl in S0.
  - (* EConnect *) left. apply tg_nodl_dcon. unfold tg_connect in S0. rewrite Jp, Jt in S0. simpl in S0.
    destruct (tg_hs_call O _) as [[sa oa] ra] eqn:HC. pose proof (tg_hs_call_nodl _ _ _ _ HC) as Na.
    destruct (ra =? -1).
    + destruct (tg_disconnected _ tg_NACK_TLS_LAYER_FAILED) as [sb ob] eqn:D. inversion S0; subst.
      rewrite tg_nodl_app, Na, (tg_disconnected_nodl _ _ _ _ D). reflexivity.
    + inversion S0; subst. exact Na.
  - (* ESend *) destruct app; [|contradiction].
    unfold tg_send in S0. rewrite Jt in S0. simpl in S0.
    destruct (ts_sock s); simpl in S0; [|inversion S0; subst; left; reflexivity].
    unfold tg_send0 in S0. rewrite Jt in S0. simpl in S0. rewrite andb_false_r in S0.
    rewrite (tg_J_not_est _ J) in S0. simpl in S0. unfold tg_delay_new in S0.
    destruct (tg_in (tm_id m) (tg_ids (ts_delayq s))); simpl in S0; inversion S0; subst.
    + left; reflexivity.
    + simpl. destruct (tm_con m); [right; exists m; auto | left; reflexivity].
  - (* ERecv *) left. apply tg_nodl_dcon. unfold tg_recv in S0. rewrite Jp, Jt in S0. simpl in S0.
    destruct (ts_tls s); [|inversion S0; reflexivity].
    unfold tg_dtls_receive in S0. simpl in S0. rewrite Je in S0.
    destruct (tg_hs_call O _) as [[sa oa] ra] eqn:HC. pose proof (tg_hs_call_nodl _ _ _ _ HC) as Na.
    assert (J0 : tg_J (tg_set_dtls_event s None)) by exact J.
    destruct (tg_hs_call_law O never_ok _ _ _ _ J0 HC) as [La [Ra _]].
    apply Z.eqb_neq in Ra. rewrite Ra in S0.
    destruct (or_more O _ && negb (ts_sent_alert sa)).
    + destruct (tg_hs_call O sa) as [[sb ob] rb] eqn:HC2.
      pose proof (tg_hs_call_nodl _ _ _ _ HC2) as Nb.
      destruct (tg_hs_call_law O never_ok _ _ _ _ (proj1 La) HC2) as [_ [Rb _]].
      apply Z.eqb_neq in Rb. rewrite Rb in S0.
      destruct (tg_after_event sb (ts_dtls_event sb)) as [sc oc] eqn:AE. inversion S0; subst.
      simpl. rewrite !tg_nodl_app, Na, Nb, (tg_after_event_nodl _ _ _ _ AE). reflexivity.
    + destruct (tg_after_event sa (ts_dtls_event sa)) as [sc oc] eqn:AE. inversion S0; subst.
      rewrite tg_nodl_app, Na, (tg_after_event_nodl _ _ _ _ AE). reflexivity.
  - (* ETimeout *) left. apply tg_nodl_dcon. unfold tg_timeout in S0.
    destruct (negb _); [inversion S0; reflexivity|].
    destruct (ts_max_retransmit _ <? ts_to_count _); [eapply tg_disconnected_nodl; eauto|].
    destruct (tg_hs_call O _) as [[sa oa] ra] eqn:HC. pose proof (tg_hs_call_nodl _ _ _ _ HC) as Na.
    destruct (ra <? 0).
    + destruct (tg_disconnected sa tg_NACK_TLS_FAILED) as [sb ob] eqn:D. inversion S0; subst.
      rewrite tg_nodl_app, Na, (tg_disconnected_nodl _ _ _ _ D). reflexivity.
    + inversion S0; subst. exact Na.
  - (* ERetransmit *) left. unfold tg_retransmit in S0. rewrite Jq in S0. simpl in S0.
    inversion S0; reflexivity.
  - left. inversion S0; reflexivity.
  - left. apply tg_nodl_dcon. eapply tg_mfree_nodl; eauto.
Qed.

(* ids of the messages the application submitted, in order *)
Fixpoint tg_send_ids (evs : list tg_ev) : list Z :=
  match evs with
  | [] => []
  | ESend m _ :: r => tm_id m :: tg_send_ids r
  | _ :: r => tg_send_ids r
  end.

Lemma tg_steps_dcon : forall evs s s' tr,
  tg_R s -> Forall tg_app_only evs -> tg_steps O s evs = (s', tr) ->
  incl (tg_dcon_ids (tg_outs tr)) (tg_send_ids evs) /\
  (NoDup (tg_send_ids evs) -> NoDup (tg_dcon_ids (tg_outs tr))).
Proof.
  induction evs as [|e evs IH]; intros s s' tr R A H; simpl in H.
  - inversion H; subst. split; [intros x []|intros; constructor].
  - destruct (tg_step O s e) as [s1 o] eqn:S1.
    destruct (tg_steps O s1 evs) as [s2 tr2] eqn:S2. inversion H; subst; clear H.
    pose proof (Forall_inv A) as A1. pose proof (Forall_inv_tail A) as A2.
    pose proof (tg_step_law' O never_ok _ _ _ _ R A1 S1) as L1.
    destruct (IH _ _ _ (proj1 L1) A2 S2) as [I2 N2].
    unfold tg_outs. simpl. fold (tg_outs tr2). rewrite tg_dcon_ids_app.
    assert (D : tg_dcon_ids o = [] \/ exists m, e = ESend m true /\ tg_dcon_ids o = [tm_id m]).
    { destruct R as [J|[F _]].
      - eapply tg_step_dcon; eauto.
      - unfold tg_step in S1. rewrite F in S1. inversion S1; subst. left; reflexivity. }
    destruct D as [D|[m [E D]]]; rewrite D; simpl.
    + split.
      * intros x Hx. apply I2 in Hx. destruct e; simpl; auto.
      * intros ND. apply N2. destruct e; simpl in ND; auto. inversion ND; auto.
    + subst e. simpl. split.
      * intros x [Hx|Hx]; [left; auto | right; apply I2; auto].
      * intros ND. inversion ND; subst. constructor; auto.
Qed.

(* the hypothesis of tg_failed_nacks_once on the outputs follows from distinct submitted ids *)
Theorem tg_distinct_ids : forall n evs s' tr,
  Forall tg_app_only evs ->
  tg_steps O (tg_new_session TgDtls TgClient n) evs = (s', tr) ->
  NoDup (tg_send_ids evs) -> NoDup (tg_dcon_ids (tg_outs tr)).
Proof.
  intros n evs s' tr A H ND.
  destruct (tg_steps_dcon _ _ _ _ (or_introl (tg_new_J n)) A H) as [_ N]. auto.
Qed.

End NoDupIds.

(* GnuTLS's contract turns "credentials do not match" into "no handshake call succeeds" *)
Lemma tg_never_ok_of_mismatch : forall O cc sc,
  (forall k, or_hs O k = 0 -> tg_creds_match cc sc = true) ->
  tg_creds_match cc sc = false -> forall k, or_hs O k <> 0.
Proof. intros O cc sc S M k E. rewrite (S k E) in M. discriminate. Qed.

(* C19 - proofs about the TLS-over-TCP session machine, part 2:
   (a) if no gnutls_handshake call succeeds, every message the application got queued is
       reported by exactly one NACK, at the latest when the session is closed or released, and
       nothing reaches the record layer;
   (b) the delay queue is a FIFO: while no NACK is reported and the session is not freed, what
       left the queue successfully, followed by what is still queued, is what was queued;
   (c) the acceptor is sound; concrete runs. *)
From LibcoapV Require Import Base.Tactics Base.Bytes Tls.Gate Tls.GateProofs Tls.GateNack Tls.GateFifo
  Tls.GateMisc Tls.GateTcp Tls.GateTcpProofs.
Local Open Scope Z_scope.

Definition tgt_qcon_ids (s : tgt_sess) : list Z := tg_ids (tg_cons (tt_delayq s)).

Section NackTcp.
Variable O : tg_oracle.
Hypothesis never_ok : forall k, or_hs O k <> 0.

Definition tgt_J (s : tgt_sess) : Prop :=
  tt_client s = true /\ tt_est s = false /\ tt_rxdata s = false /\
  tt_state s <> TgCsm /\ tt_state s <> TgEstablished /\
  (tt_sock s = false -> tt_delayq s = []) /\ tt_freed s = false.

Definition tgt_law (s : tgt_sess) (o : list tg_out) (s' : tgt_sess) : Prop :=
  tgt_J s' /\ tgt_qcon_ids s ++ tg_dcon_ids o = tg_nack_ids o ++ tgt_qcon_ids s' /\
  (forall i c, In (OTlsTx i c) o -> False).

Lemma tgt_law_app : forall s o1 s1 o2 s2,
  tgt_law s o1 s1 -> tgt_law s1 o2 s2 -> tgt_law s (o1 ++ o2) s2.
Proof.
  intros s o1 s1 o2 s2 [J1 [L1 T1]] [J2 [L2 T2]]. split; auto. split.
  - rewrite tg_dcon_ids_app, tg_nack_ids_app, app_assoc, L1, <- app_assoc, L2, app_assoc. reflexivity.
  - intros i c H. apply in_app_or in H. destruct H; eauto.
Qed.

Lemma tgt_law_quiet : forall s o s',
  tgt_J s' -> tt_delayq s' = tt_delayq s -> forallb tg_quiet o = true -> tgt_law s o s'.
Proof.
  intros s o s' J D Q. destruct (tg_quiet_ids _ Q) as [A [B C]].
  split; auto. split; auto. unfold tgt_qcon_ids. rewrite A, B, D. simpl. rewrite app_nil_r. reflexivity.
Qed.

Lemma tgt_J_intro : forall s,
  tt_client s = true -> tt_est s = false -> tt_rxdata s = false ->
  tt_state s <> TgCsm -> tt_state s <> TgEstablished ->
  (tt_sock s = false -> tt_delayq s = []) -> tt_freed s = false -> tgt_J s.
Proof. intros. unfold tgt_J. repeat split; assumption. Qed.

Lemma tgt_hs_call_law : forall s s' o r,
  tgt_J s -> tgt_hs_call O s = (s', o, r) ->
  tgt_law s o s' /\ r <> 1 /\ tt_state s' = tt_state s /\ tt_tls s' = tt_tls s.
Proof.
  intros s s' o r [Jc [Je [Jr [J1 [J2 [Jk Jf]]]]]] H. unfold tgt_hs_call in H.
  pose proof (tg_do_handshake_ret (tt_sent_alert s) (or_hs O (tt_khs s))) as R.
  destruct (tg_do_handshake (tt_sent_alert s) (or_hs O (tt_khs s))) as [[ret ev] sa].
  simpl in R. inversion H; subst; clear H.
  assert (NE : (r =? 1) = false) by (rewrite R; apply Z.eqb_neq; apply never_ok).
  split; [|simpl; repeat split; auto; intros E; rewrite E in NE; discriminate].
  apply tgt_law_quiet; auto. apply tgt_J_intro; simpl; auto. rewrite NE. exact Je.
Qed.

Lemma tgt_disconnected_law : forall s r s' o,
  tgt_J s -> tgt_disconnected s r = (s', o) ->
  tgt_law s o s' /\ tt_state s' = TgNone /\ tt_sock s' = false.
Proof.
  intros s r s' o [Jc [Je [Jr [J1 [J2 [Jk Jf]]]]]] H.
  unfold tgt_disconnected, tgt_close in H. simpl in H.
  assert (L : forall tail : list tg_out,
             forallb tg_quiet tail = true ->
             tg_nack_ids (map (fun m => ONack (tm_id m) r) (tg_cons (tt_delayq s)) ++ tail)
             = tgt_qcon_ids s /\
             tg_dcon_ids (map (fun m => ONack (tm_id m) r) (tg_cons (tt_delayq s)) ++ tail) = [] /\
             (forall i c, In (OTlsTx i c)
                (map (fun m => ONack (tm_id m) r) (tg_cons (tt_delayq s)) ++ tail) -> False)).
  { intros tail Q. destruct (tg_quiet_ids _ Q) as [A [B C]].
    rewrite tg_nack_ids_app, tg_dcon_ids_app, tg_nack_ids_map, tg_dcon_ids_map, A, B.
    rewrite app_nil_r. repeat split; auto.
    intros i c HI. apply in_app_or in HI. destruct HI as [HI|HI]; [|eauto].
    apply in_map_iff in HI. destruct HI as [m [E _]]. discriminate. }
  destruct (tt_tls s); inversion H; subst; clear H;
    match goal with |- context [map ?f ?q ++ ?t] => destruct (L t) as [A [B C]] end;
    try (destruct (map _ _); destruct (tt_sock s); destruct (tg_state_eqb (tt_state s) TgConnecting);
         destruct (tg_state_eqb (tt_state s) TgNone); destruct (tg_state_eqb (tt_state s) TgEstablished);
         reflexivity);
    (split; [|simpl; auto]);
    (split; [apply tgt_J_intro; simpl; auto; discriminate|]);
    (split; [rewrite A, B; unfold tgt_qcon_ids; simpl; rewrite app_nil_r; reflexivity | exact C]).
Qed.

Lemma tgt_after_event_law : forall s ret s' o r,
  tgt_J s -> tgt_after_event s ret = (s', o, r) -> tgt_law s o s'.
Proof.
  intros s ret s' o r J H. unfold tgt_after_event in H.
  destruct (tt_event s) as [e|].
  2:{ inversion H; subst. apply tgt_law_quiet; auto. }
  destruct (tgt_disconnected s tg_NACK_TLS_FAILED) as [s1 o2] eqn:D. inversion H; subst.
  destruct (tgt_disconnected_law _ _ _ _ J D) as [L _].
  eapply tgt_law_app with (s1 := s); [|exact L].
  apply tgt_law_quiet; auto. destruct (e =? tg_EV_DTLS_CLOSED); reflexivity.
Qed.

Lemma tgt_read_law : forall s s' o, tgt_J s -> tgt_read O s = (s', o) -> tgt_law s o s'.
Proof.
  intros s00 s' o J00 H. unfold tgt_read in H.
  pose proof J00 as [Jc [Je [Jr [J1 [J2 [Jk Jf]]]]]].
  assert (J0 : tgt_J (tgt_set_rxdata s00 false)) by (apply tgt_J_intro; auto).
  assert (EQ : forall o s', tgt_law (tgt_set_rxdata s00 false) o s' -> tgt_law s00 o s')
    by (intros; assumption).
  apply EQ. clear EQ.
  destruct (negb (tt_tls (tgt_set_rxdata s00 false))).
  { eapply tgt_disconnected_law; eauto. }
  set (s := tgt_set_event (tgt_set_rxdata s00 false) None) in H.
  assert (J : tgt_J s) by exact J0.
  assert (EQ : forall o s', tgt_law s o s' -> tgt_law (tgt_set_rxdata s00 false) o s')
    by (intros; assumption).
  apply EQ. clear EQ. clearbody s.
  destruct (tgt_read_hs O s) as [[s1 o1] r1] eqn:HP.
  assert (L1 : tgt_law s o1 s1).
  { unfold tgt_read_hs in HP. destruct (_ && _); [|inversion HP; subst; apply tgt_law_quiet; auto].
    destruct (tgt_hs_call O s) as [[sa oa] r] eqn:HC.
    destruct (tgt_hs_call_law _ _ _ _ J HC) as [La [Ra _]].
    apply Z.eqb_neq in Ra. rewrite Ra in HP. inversion HP; subst. exact La. }
  destruct (tgt_read_rec O s1 r1) as [[s2 o2] r2] eqn:RP.
  assert (E2 : s2 = s1 /\ o2 = []).
  { unfold tgt_read_rec in RP. destruct L1 as [[_ [E1 _]] _]. rewrite E1, andb_false_r in RP.
    inversion RP; auto. }
  destruct E2; subst s2 o2.
  destruct (tgt_after_event s1 r2) as [[s3 o3] r3] eqn:AE.
  pose proof (tgt_after_event_law _ _ _ _ _ (proj1 L1) AE) as L3.
  destruct (r3 <? 0).
  - destruct (tgt_disconnected s3 tg_NACK_NOT_DELIVERABLE) as [s4 o4] eqn:D. inversion H; subst.
    destruct (tgt_disconnected_law _ _ _ _ (proj1 L3) D) as [L4 _].
    simpl. eapply tgt_law_app; [exact L1|]. eapply tgt_law_app; eauto.
  - inversion H; subst. simpl. eapply tgt_law_app; eauto.
Qed.

Lemma tgt_J_not_est : forall s, tgt_J s -> tg_state_eqb (tt_state s) TgEstablished = false /\
  tg_state_eqb (tt_state s) TgCsm = false.
Proof.
  intros s [_ [_ [_ [J1 [J2 _]]]]]. split.
  - destruct (tg_state_eqb (tt_state s) TgEstablished) eqn:E; auto. apply tg_state_eqb_eq in E. contradiction.
  - destruct (tg_state_eqb (tt_state s) TgCsm) eqn:E; auto. apply tg_state_eqb_eq in E. contradiction.
Qed.

Lemma tgt_establish_law : forall s s' o,
  tgt_J s -> tgt_establish O s = (s', o) -> tgt_law s o s'.
Proof.
  intros s s' o J H. unfold tgt_establish in H.
  pose proof J as [Jc [Je [Jr [J1 [J2 [Jk Jf]]]]]].
  set (s1 := tgt_set_tls (tgt_set_state s TgHandshake) true false false) in H.
  assert (Js : tgt_J s1) by (apply tgt_J_intro; simpl; auto; discriminate).
  assert (EQ : forall o s', tgt_law s1 o s' -> tgt_law s o s') by (intros; assumption).
  apply EQ. clear EQ.
  destruct (tgt_hs_call O s1) as [[s2 o2] ret] eqn:HC.
  destruct (tgt_hs_call_law _ _ _ _ Js HC) as [L2 [R2 _]].
  apply Z.eqb_neq in R2. rewrite R2 in H. inversion H; subst. exact L2.
Qed.

Lemma tgt_mfree_law : forall s s' o,
  tgt_J s -> tgt_mfree s = (s', o) ->
  (tt_freed s' = true /\ tt_delayq s' = [] /\ tt_sock s' = false /\ tt_state s' = tt_state s) /\
  tgt_qcon_ids s ++ tg_dcon_ids o = tg_nack_ids o ++ tgt_qcon_ids s' /\
  (forall i c, In (OTlsTx i c) o -> False).
Proof.
  intros s s' o J H. unfold tgt_mfree, tgt_close in H.
  destruct (tt_tls s); inversion H; subst; clear H; simpl; (split; [auto|]); split.
  - simpl. rewrite tg_nack_ids_map, tg_dcon_ids_map. unfold tgt_qcon_ids. simpl.
    rewrite !app_nil_r. reflexivity.
  - intros i c [E|HI]; [discriminate|]. apply in_map_iff in HI. destruct HI as [m [E _]]. discriminate.
  - rewrite tg_nack_ids_map, tg_dcon_ids_map. unfold tgt_qcon_ids. simpl.
    rewrite !app_nil_r. reflexivity.
  - intros i c HI. apply in_map_iff in HI. destruct HI as [m [E _]]. discriminate.
Qed.

Definition tgt_R (s : tgt_sess) : Prop :=
  tgt_J s \/ (tt_freed s = true /\ tt_delayq s = [] /\ tt_sock s = false /\
             tt_state s <> TgEstablished).
Definition tgt_law' (s : tgt_sess) (o : list tg_out) (s' : tgt_sess) : Prop :=
  tgt_R s' /\ tgt_qcon_ids s ++ tg_dcon_ids o = tg_nack_ids o ++ tgt_qcon_ids s' /\
  (forall i c, In (OTlsTx i c) o -> False).

(* what the application and the network do to a client session *)
Definition tgt_app_only (e : tgt_ev) : Prop :=
  match e with TSend _ false | TAccept => False | _ => True end.

Lemma tgt_step_law : forall s e s' o,
  tgt_J s -> tgt_app_only e -> tgt_step O s e = (s', o) -> tgt_law' s o s'.
Proof.
  intros s e s' o J A H. unfold tgt_step in H.
  pose proof J as [Jc [Je [Jr [J1 [J2 [Jk Jf]]]]]]. rewrite Jf in H.
  assert (W : forall o s', tgt_law s o s' -> tgt_law' s o s').
  { intros o0 s0 [X Y]. split; [left; auto | auto]. }
  destruct e; simpl in H; try contradiction.
  - rewrite Jc in H. inversion H; subst. apply W. apply tgt_law_quiet; auto;
      try (apply tgt_J_intro; simpl; auto; discriminate).
  - rewrite Jc in H. simpl in H.
    destruct (tg_state_eqb (tt_state s) TgConnecting); simpl in H.
    2:{ inversion H; subst. apply W. apply tgt_law_quiet; auto. }
    destruct ok.
    + destruct (tgt_establish O s) as [s1 o1] eqn:E. inversion H; subst. apply W.
      pose proof (tgt_establish_law _ _ _ J E) as L.
      change (OEvent tg_EV_TCP_CONNECTED :: o1) with ([OEvent tg_EV_TCP_CONNECTED] ++ o1).
      eapply tgt_law_app with (s1 := s); [apply tgt_law_quiet; auto | exact L].
    + destruct (tgt_disconnected s tg_NACK_NOT_DELIVERABLE) as [s1 o1] eqn:D. inversion H; subst.
      apply W. destruct (tgt_disconnected_law _ _ _ _ J D) as [L _].
      change (OEvent tg_EV_TCP_FAILED :: o1) with ([OEvent tg_EV_TCP_FAILED] ++ o1).
      eapply tgt_law_app with (s1 := s); [apply tgt_law_quiet; auto | exact L].
  - apply W. eapply tgt_read_law; eauto.
  - unfold tgt_dispatch in H. rewrite Jr in H. simpl in H. inversion H; subst.
    apply W. apply tgt_law_quiet; auto.
  - destruct app; [|contradiction]. unfold tgt_send in H. rewrite Jc in H. simpl in H.
    destruct (tt_sock s) eqn:SK; simpl in H.
    2:{ inversion H; subst. apply W. apply tgt_law_quiet; auto. }
    destruct (tt_first s); simpl in H.
    { inversion H; subst. apply W. apply tgt_law_quiet; auto. }
    unfold tgt_send0 in H. rewrite Jc in H. simpl in H. rewrite andb_false_r in H.
    rewrite (proj1 (tgt_J_not_est _ J)) in H. simpl in H. inversion H; subst. apply W.
    split; [apply tgt_J_intro; simpl; auto; rewrite SK; discriminate|].
    split; [|intros i c [E|[]]; discriminate].
    unfold tgt_qcon_ids. simpl. rewrite tg_ids_cons_app. destruct (tm_con m); reflexivity.
  - unfold tgt_first_timeout in H. rewrite Jc in H. simpl in H.
    destruct (tt_first s); simpl in H.
    2:{ inversion H; subst. apply W. apply tgt_law_quiet; auto. }
    rewrite (proj2 (tgt_J_not_est _ J)) in H. inversion H; subst. apply W.
    apply tgt_law_quiet; auto.
  - destruct (tgt_mfree_law _ _ _ J H) as [[F [D [K St]]] [L T]].
    split; [right; repeat split; auto; rewrite St; auto | split; auto].
Qed.

Lemma tgt_steps_law : forall evs s s' tr,
  tgt_R s -> Forall tgt_app_only evs -> tgt_steps O s evs = (s', tr) -> tgt_law' s (tgt_outs tr) s'.
Proof.
  induction evs as [|e evs IH]; intros s s' tr R A H; simpl in H.
  - inversion H; subst. split; auto. split; [simpl; rewrite app_nil_r; reflexivity | intros i c []].
  - destruct (tgt_step O s e) as [s1 o] eqn:S1.
    destruct (tgt_steps O s1 evs) as [s2 tr2] eqn:S2. inversion H; subst.
    pose proof (Forall_inv A) as A1. pose proof (Forall_inv_tail A) as A2.
    assert (L1 : tgt_law' s o s1).
    { destruct R as [J|[F [D [K N]]]]; [eapply tgt_step_law; eauto|].
      unfold tgt_step in S1. rewrite F in S1. inversion S1; subst.
      split; [right; auto|]. split; [simpl; rewrite app_nil_r; reflexivity | intros i c []]. }
    pose proof (IH _ _ _ (proj1 L1) A2 S2) as L2.
    unfold tgt_outs. simpl. fold (tgt_outs tr2).
    destruct L1 as [R1 [E1 T1]]. destruct L2 as [R2 [E2 T2]]. split; auto. split.
    + rewrite tg_dcon_ids_app, tg_nack_ids_app, app_assoc, E1, <- app_assoc, E2, app_assoc. reflexivity.
    + intros i c HI. apply in_app_or in HI. destruct HI; eauto.
Qed.

Lemma tgt_new_J : tgt_J (tgt_new_session true).
Proof. apply tgt_J_intro; simpl; auto; discriminate. Qed.

Theorem tgt_nack_conservation : forall evs s' tr,
  Forall tgt_app_only evs -> tgt_steps O (tgt_new_session true) evs = (s', tr) ->
  tg_dcon_ids (tgt_outs tr) = tg_nack_ids (tgt_outs tr) ++ tgt_qcon_ids s' /\
  (forall i c, ~ In (OTlsTx i c) (tgt_outs tr)) /\ tt_state s' <> TgEstablished.
Proof.
  intros evs s' tr A H.
  destruct (tgt_steps_law _ _ _ _ (or_introl tgt_new_J) A H) as [R [L T]].
  split; [exact L|]. split; [intros i c HI; eapply T; eauto|].
  destruct R as [[_ [_ [_ [_ [N _]]]]]|[_ [_ [_ N]]]]; exact N.
Qed.

Theorem tgt_nack_count : forall evs s' tr i,
  Forall tgt_app_only evs -> tgt_steps O (tgt_new_session true) evs = (s', tr) ->
  count_occ Z.eq_dec (tg_dcon_ids (tgt_outs tr)) i =
  (count_occ Z.eq_dec (tg_nack_ids (tgt_outs tr)) i + count_occ Z.eq_dec (tgt_qcon_ids s') i)%nat.
Proof.
  intros evs s' tr i A H. destruct (tgt_nack_conservation _ _ _ A H) as [L _].
  rewrite L. apply count_occ_app.
Qed.

Theorem tgt_closed_all_nacked : forall evs s' tr,
  Forall tgt_app_only evs -> tgt_steps O (tgt_new_session true) evs = (s', tr) ->
  tt_sock s' = false ->
  tt_delayq s' = [] /\ tg_dcon_ids (tgt_outs tr) = tg_nack_ids (tgt_outs tr).
Proof.
  intros evs s' tr A H K.
  destruct (tgt_steps_law _ _ _ _ (or_introl tgt_new_J) A H) as [R [L _]].
  assert (D : tt_delayq s' = []).
  { destruct R as [[_ [_ [_ [_ [_ [Jk _]]]]]]|[_ [D _]]]; auto. }
  split; auto. change (tgt_qcon_ids (tgt_new_session true)) with (@nil Z) in L. simpl in L.
  rewrite L. unfold tgt_qcon_ids. rewrite D. simpl. rewrite app_nil_r. reflexivity.
Qed.

End NackTcp.

(* ------------------------------------------------------------------ FIFO *)
Fixpoint tgt_txok_ids (o : list tg_out) : list Z :=
  match o with
  | [] => []
  | OTlsTx i c :: r => if (0 <? c) && negb (i =? tgt_CSM_ID) then i :: tgt_txok_ids r else tgt_txok_ids r
  | _ :: r => tgt_txok_ids r
  end.
Lemma tgt_txok_ids_app : forall a b, tgt_txok_ids (a ++ b) = tgt_txok_ids a ++ tgt_txok_ids b.
Proof.
  induction a as [|x a IH]; intros b; simpl; auto. destruct x; simpl; rewrite ?IH; auto.
  destruct ((0 <? code) && negb (id =? tgt_CSM_ID)); simpl; rewrite ?IH; auto.
Qed.

Definition tgt_still (x : tg_out) : bool :=
  match x with OTlsTx _ _ | ODelayed _ _ => false | _ => true end.
Lemma tgt_still_ids : forall o, forallb tgt_still o = true -> tgt_txok_ids o = [] /\ tg_dl_ids o = [].
Proof.
  induction o as [|x o IH]; intros H; simpl in *; auto.
  apply andb_true_iff in H. destruct H as [Hx Ho]. destruct (IH Ho).
  destruct x; simpl in Hx; try discriminate; auto.
Qed.

Section FifoTcp.
Variable O : tg_oracle.

Definition tgt_fifoB (s : tgt_sess) (o : list tg_out) (s' : tgt_sess) : Prop :=
  tg_ids (tt_delayq s) = tgt_txok_ids o ++ tg_ids (tt_delayq s') /\ tg_dl_ids o = [].

Lemma tgt_fifoB_still : forall s o s',
  tt_delayq s' = tt_delayq s -> forallb tgt_still o = true -> tgt_fifoB s o s'.
Proof. intros s o s' D H. destruct (tgt_still_ids _ H) as [A B]. split; auto. rewrite A, D. auto. Qed.

Lemma tgt_fifoB_app : forall s o1 s1 o2 s2,
  tgt_fifoB s o1 s1 -> tgt_fifoB s1 o2 s2 -> tgt_fifoB s (o1 ++ o2) s2.
Proof.
  intros s o1 s1 o2 s2 [A1 B1] [A2 B2]. split.
  - rewrite tgt_txok_ids_app, A1, A2, app_assoc. reflexivity.
  - rewrite tg_dl_ids_app, B1, B2. reflexivity.
Qed.

Lemma tgt_disconnected_nacks : forall s r s' o,
  tgt_disconnected s r = (s', o) -> tg_nonack o = false.
Proof.
  intros s r s' o H. unfold tgt_disconnected in H.
  destruct (tgt_close _) as [s2 o2]. inversion H; subst; clear H.
  destruct (tg_cons (tt_delayq s)) as [|x l]; reflexivity.
Qed.

Lemma tgt_after_event_fifo : forall s ret s' o r,
  tgt_after_event s ret = (s', o, r) -> tg_nonack o = true -> s' = s /\ o = [] /\ r = ret.
Proof.
  intros s ret s' o r H N. unfold tgt_after_event in H.
  destruct (tt_event s) as [e|]; [|inversion H; auto].
  destruct (tgt_disconnected s tg_NACK_TLS_FAILED) as [s1 o2] eqn:D. inversion H; subst.
  apply tgt_disconnected_nacks in D. rewrite tg_nonack_app, D, andb_false_r in N. discriminate.
Qed.

Lemma tgt_write_fifo : forall s m s' o bw,
  tgt_write O s m = (s', o, bw) -> tg_nonack o = true ->
  tt_delayq s' = tt_delayq s /\ tt_state s' = tt_state s /\ tg_dl_ids o = [] /\
  tgt_txok_ids o = (if (0 <? bw) && negb (tm_id m =? tgt_CSM_ID) then [tm_id m] else []).
Proof.
  intros s m s' o bw H N. unfold tgt_write in H.
  destruct (negb (tt_tls s && tt_est s)). { inversion H; subst. auto. }
  destruct (0 <? or_tx O (tt_ktx s)) eqn:C.
  { inversion H; subst. simpl. rewrite C. simpl.
    destruct (negb (tm_id m =? tgt_CSM_ID)); auto. }
  destruct (tgt_write_fail _ _) as [s2 ret] eqn:WF.
  destruct (tgt_after_event s2 ret) as [[s3 o3] r3] eqn:AE. inversion H; subst.
  simpl in N. destruct (tgt_after_event_fifo _ _ _ _ _ AE N) as [E1 [E2 E3]]. subst.
  assert (K : tt_delayq s2 = tt_delayq s /\ tt_state s2 = tt_state s /\ ret <= 0).
  { unfold tgt_write_fail in WF. apply Z.ltb_ge in C.
    repeat match type of WF with context [if ?b then _ else _] => destruct b end;
      inversion WF; subst; simpl; repeat split; auto; lia. }
  destruct K as [K1 [K2 K3]]. simpl. rewrite C. simpl.
  assert (B : (0 <? ret) = false) by (apply Z.ltb_ge; exact K3). rewrite B. simpl. auto.
Qed.

Definition tgt_ids_ok (q : list tg_msg) : Prop := Forall (fun m => tm_id m <> tgt_CSM_ID) q.

Lemma tgt_flush_fifo : forall q s s' o,
  tt_delayq s = q -> tgt_ids_ok q -> tgt_flush O q s = (s', o) -> tg_nonack o = true ->
  tgt_fifoB s o s' /\ tgt_ids_ok (tt_delayq s').
Proof.
  induction q as [|m q IH]; intros s s' o Q OK H N; simpl in H.
  - inversion H; subst. split; [apply tgt_fifoB_still; auto | rewrite Q; exact OK].
  - destruct (negb (tg_state_eqb (tt_state s) TgEstablished)).
    { inversion H; subst. split; [apply tgt_fifoB_still; auto | rewrite Q; exact OK]. }
    destruct (tgt_write O (tgt_set_delayq s q) m) as [[s2 o2] bw] eqn:W.
    pose proof (Forall_inv OK) as Hm. pose proof (Forall_inv_tail OK) as Hq.
    destruct (bw <=? 0) eqn:B.
    + inversion H; subst.
      destruct (tgt_write_fifo _ _ _ _ _ W N) as [D2 [_ [L2 T2]]].
      assert (B' : (0 <? bw) = false) by (apply Z.ltb_ge; apply Z.leb_le in B; lia).
      rewrite B' in T2. simpl in T2. split.
      * split; auto. rewrite T2, Q. simpl. rewrite D2. reflexivity.
      * simpl. rewrite D2. simpl. exact OK.
    + destruct (tgt_flush O q s2) as [s3 o3] eqn:FL. inversion H; subst.
      rewrite tg_nonack_app in N. apply andb_true_iff in N. destruct N as [N2 N3].
      destruct (tgt_write_fifo _ _ _ _ _ W N2) as [D2 [_ [L2 T2]]].
      assert (B' : (0 <? bw) = true) by (apply Z.ltb_lt; apply Z.leb_gt in B; lia).
      rewrite B' in T2. apply Z.eqb_neq in Hm. rewrite Hm in T2. simpl in T2.
      destruct (IH s2 _ _ D2 Hq FL N3) as [[A3 B3] OK3]. split; auto. split.
      * rewrite tgt_txok_ids_app, T2, Q. simpl. rewrite <- A3, D2. reflexivity.
      * rewrite tg_dl_ids_app, L2, B3. reflexivity.
Qed.

Lemma tgt_connected_fifo : forall s s' o,
  tgt_ids_ok (tt_delayq s) -> tgt_connected O s = (s', o) -> tg_nonack o = true ->
  tgt_fifoB s o s' /\ tgt_ids_ok (tt_delayq s').
Proof.
  intros s s' o OK H N. unfold tgt_connected in H.
  destruct (if tg_state_eqb (tt_state s) TgCsm
            then (tgt_set_first s false, [OEvent tg_EV_SESSION_CONNECTED]) else (s, [])) as [s0 ev] eqn:E0.
  assert (D0 : tt_delayq s0 = tt_delayq s /\ forallb tgt_still ev = true /\ tg_nonack ev = true).
  { destruct (tg_state_eqb (tt_state s) TgCsm); inversion E0; subst; auto. }
  destruct D0 as [D0 [S0 N0]].
  destruct (tgt_flush O (tt_delayq (tgt_set_state s0 TgEstablished)) (tgt_set_state s0 TgEstablished))
    as [s2 o2] eqn:FL. inversion H; subst.
  rewrite tg_nonack_app in N. apply andb_true_iff in N. destruct N as [_ N2].
  assert (OK0 : tgt_ids_ok (tt_delayq (tgt_set_state s0 TgEstablished))) by (simpl; rewrite D0; exact OK).
  destruct (tgt_flush_fifo _ _ _ _ eq_refl OK0 FL N2) as [F2 OK2]. split; auto.
  eapply tgt_fifoB_app with (s1 := tgt_set_state s0 TgEstablished); [|exact F2].
  apply tgt_fifoB_still; auto.
Qed.

Lemma tgt_send_csm_fifo : forall s s' o,
  tgt_send_csm O s = (s', o) -> tg_nonack o = true ->
  tt_delayq s' = tt_delayq s /\ tgt_txok_ids o = [] /\ tg_dl_ids o = [].
Proof.
  intros s s' o H N. unfold tgt_send_csm in H.
  destruct (tgt_write O (tgt_set_state s TgCsm) tgt_csm_msg) as [[s2 o2] bw] eqn:W.
  destruct (bw <=? 0).
  - destruct (tgt_disconnected s2 tg_NACK_NOT_DELIVERABLE) as [s3 o3] eqn:D. inversion H; subst.
    apply tgt_disconnected_nacks in D. rewrite tg_nonack_app, D, andb_false_r in N. discriminate.
  - inversion H; subst. destruct (tgt_write_fifo _ _ _ _ _ W N) as [D2 [_ [L2 T2]]].
    simpl in T2. rewrite andb_false_r in T2. auto.
Qed.

Lemma tgt_hs_call_fifo : forall s s' o r,
  tgt_hs_call O s = (s', o, r) -> tt_delayq s' = tt_delayq s /\ forallb tgt_still o = true /\
  tg_nonack o = true.
Proof.
  intros s s' o r H. unfold tgt_hs_call in H.
  destruct (tg_do_handshake _ _) as [[a b] c]. inversion H; subst. auto.
Qed.

Lemma tgt_establish_fifo : forall s s' o,
  tgt_establish O s = (s', o) -> tg_nonack o = true -> tgt_fifoB s o s' /\ tt_delayq s' = tt_delayq s.
Proof.
  intros s s' o H N. unfold tgt_establish in H.
  destruct (tgt_hs_call O _) as [[s2 o2] ret] eqn:HC.
  destruct (tgt_hs_call_fifo _ _ _ _ HC) as [D2 [S2 N2]]. simpl in D2.
  destruct (tgt_still_ids _ S2) as [T2 L2].
  destruct (ret =? 1).
  - destruct (tgt_send_csm O s2) as [s3 o3] eqn:SC. inversion H; subst.
    rewrite !tg_nonack_app in N. apply andb_true_iff in N. destruct N as [_ N].
    apply andb_true_iff in N. destruct N as [_ N3].
    destruct (tgt_send_csm_fifo _ _ _ SC N3) as [D3 [T3 L3]].
    split; [|congruence]. split.
    + rewrite !tgt_txok_ids_app. simpl. rewrite T2, T3. simpl. congruence.
    + rewrite !tg_dl_ids_app. simpl. rewrite L2, L3. reflexivity.
  - inversion H; subst. split; [|auto]. split; [rewrite T2, D2; reflexivity | exact L2].
Qed.

Lemma tgt_read_fifo : forall s s' o,
  tgt_read O s = (s', o) -> tg_nonack o = true -> tgt_fifoB s o s' /\ tt_delayq s' = tt_delayq s.
Proof.
  intros s s' o H N. unfold tgt_read in H.
  destruct (negb (tt_tls (tgt_set_rxdata s false))).
  { apply tgt_disconnected_nacks in H. rewrite H in N. discriminate. }
  destruct (tgt_read_hs O _) as [[s1 o1] r1] eqn:HP.
  destruct (tgt_read_rec O s1 r1) as [[s2 o2] r2] eqn:RP.
  destruct (tgt_after_event s2 r2) as [[s3 o3] r3] eqn:AE.
  assert (NN : tg_nonack o1 = true /\ tg_nonack o2 = true /\ tg_nonack o3 = true).
  { destruct (r3 <? 0).
    - destruct (tgt_disconnected s3 _) as [s4 o4] eqn:D. inversion H; subst.
      apply tgt_disconnected_nacks in D. rewrite !tg_nonack_app, D, !andb_false_r in N. discriminate.
    - inversion H; subst. rewrite !tg_nonack_app in N.
      apply andb_true_iff in N. destruct N as [A N]. apply andb_true_iff in N. destruct N; auto. }
  destruct NN as [N1 [N2 N3]].
  destruct (tgt_after_event_fifo _ _ _ _ _ AE N3) as [E1 [E2 E3]]. subst s3 o3 r3.
  assert (F1 : tgt_txok_ids o1 = [] /\ tg_dl_ids o1 = [] /\ tt_delayq s1 = tt_delayq s).
  { unfold tgt_read_hs in HP. destruct (_ && _); [|inversion HP; subst; auto].
    destruct (tgt_hs_call O _) as [[sa oa] r] eqn:HC.
    destruct (tgt_hs_call_fifo _ _ _ _ HC) as [Da [Sa Na]]. simpl in Da.
    destruct (tgt_still_ids _ Sa) as [Ta La].
    destruct (r =? 1); [|inversion HP; subst; auto].
    destruct (tgt_send_csm O sa) as [sb ob] eqn:SC. inversion HP; subst.
    rewrite !tg_nonack_app in N1. apply andb_true_iff in N1. destruct N1 as [_ N1].
    apply andb_true_iff in N1. destruct N1 as [_ Nb].
    destruct (tgt_send_csm_fifo _ _ _ SC Nb) as [Db [Tb Lb]].
    rewrite !tgt_txok_ids_app, !tg_dl_ids_app. simpl. rewrite Ta, Tb, La, Lb. simpl.
    repeat split; congruence. }
  destruct F1 as [T1 [L1 D1]].
  assert (F2 : tgt_txok_ids o2 = [] /\ tg_dl_ids o2 = [] /\ tt_delayq s2 = tt_delayq s1).
  { unfold tgt_read_rec in RP.
    repeat match type of RP with context [if ?b then _ else _] => destruct b end;
      inversion RP; subst; auto. }
  destruct F2 as [T2 [L2 D2]].
  assert (E : s' = s2 /\ o = o1 ++ o2 ++ []).
  { destruct (r2 <? 0).
    - destruct (tgt_disconnected s2 _) as [s4 o4] eqn:D. inversion H; subst.
      apply tgt_disconnected_nacks in D. rewrite !tg_nonack_app, D, !andb_false_r in N. discriminate.
    - inversion H; auto. }
  destruct E; subst. split; [|congruence]. split.
  - rewrite !tgt_txok_ids_app, T1, T2. simpl. congruence.
  - rewrite !tg_dl_ids_app, L1, L2. reflexivity.
Qed.

Definition tgt_fifo_ev (e : tgt_ev) : Prop :=
  match e with
  | TSend m _ => tm_id m <> tgt_CSM_ID
  | TFree => False
  | _ => True
  end.

Fixpoint tgt_flushed (tr : list (tgt_ev * list tg_out)) : list Z :=
  match tr with
  | [] => []
  | (TSend _ _, _) :: r => tgt_flushed r
  | (_, o) :: r => tgt_txok_ids o ++ tgt_flushed r
  end.
Definition tgt_delayed (tr : list (tgt_ev * list tg_out)) : list Z := tg_dl_ids (tgt_outs tr).

Lemma tg_nonack_cons : forall x o, tg_nonack (x :: o) = negb (tg_is_nack x) && tg_nonack o.
Proof. reflexivity. Qed.

Lemma tgt_step_fifo : forall s e s' o,
  tt_freed s = false -> tgt_ids_ok (tt_delayq s) -> tgt_fifo_ev e ->
  tgt_step O s e = (s', o) -> tg_nonack o = true ->
  tgt_ids_ok (tt_delayq s') /\
  match e with
  | TSend _ _ => tg_ids (tt_delayq s') = tg_ids (tt_delayq s) ++ tg_dl_ids o
  | _ => tgt_fifoB s o s'
  end.
Proof.
  intros s e s' o F OK A H N. unfold tgt_step in H. rewrite F in H.
  assert (SAME : forall s1, tt_delayq s1 = tt_delayq s -> tgt_ids_ok (tt_delayq s1))
    by (intros s1 E; rewrite E; exact OK).
  destruct e; simpl in H; simpl in A; try contradiction.
  - destruct (tt_client s); inversion H; subst; split; auto; apply tgt_fifoB_still; auto.
  - destruct (negb _). { inversion H; subst. split; auto. apply tgt_fifoB_still; auto. }
    destruct ok.
    + destruct (tgt_establish O s) as [s1 o1] eqn:E. inversion H; subst.
      rewrite tg_nonack_cons in N. apply andb_true_iff in N. destruct N as [_ N].
      destruct (tgt_establish_fifo _ _ _ E N) as [[FA FB] D]. split; [apply SAME; exact D|].
      split; simpl; auto.
    + destruct (tgt_disconnected s _) as [s1 o1] eqn:D. inversion H; subst.
      apply tgt_disconnected_nacks in D. rewrite tg_nonack_cons, D, andb_false_r in N. discriminate.
  - destruct (_ || _). { inversion H; subst. split; auto. apply tgt_fifoB_still; auto. }
    destruct (tgt_establish O _) as [s1 o1] eqn:E. inversion H; subst.
    rewrite tg_nonack_cons in N. apply andb_true_iff in N. destruct N as [_ N].
    destruct (tgt_establish_fifo _ _ _ E N) as [[FA FB] D]. simpl in D, FA.
    split; [apply SAME; exact D|]. split; simpl; auto.
  - destruct (tgt_read_fifo _ _ _ H N) as [FB D]. split; [apply SAME; exact D | exact FB].
  - unfold tgt_dispatch in H. destruct (negb (tt_rxdata s)).
    { inversion H; subst. split; auto. apply tgt_fifoB_still; auto. }
    destruct (kind =? 3).
    + destruct (tg_state_eqb (tt_state s) TgCsm).
      * destruct (tgt_connected O s) as [s1 o1] eqn:CN. inversion H; subst.
        rewrite tg_nonack_cons in N. apply andb_true_iff in N. destruct N as [_ N].
        destruct (tgt_connected_fifo _ _ _ OK CN N) as [[FA FB] OK1]. split; auto. split; simpl; auto.
      * inversion H; subst. split; auto. apply tgt_fifoB_still; auto.
    + destruct (kind =? 5).
      * destruct (tgt_disconnected s tg_NACK_RST) as [s1 o1] eqn:D. inversion H; subst.
        apply tgt_disconnected_nacks in D. rewrite tg_nonack_cons, D, andb_false_r in N. discriminate.
      * inversion H; subst. split; auto. apply tgt_fifoB_still; auto.
  - assert (S0 : forall s1 o1, tgt_send0 O s m = (s1, o1) -> tg_nonack o1 = true ->
                 tgt_ids_ok (tt_delayq s1) /\ tg_ids (tt_delayq s1) = tg_ids (tt_delayq s) ++ tg_dl_ids o1).
    { intros s1 o1 H0 N0. unfold tgt_send0 in H0.
      destruct (_ && _). { inversion H0; subst. simpl. rewrite app_nil_r. auto. }
      destruct (negb _).
      { inversion H0; subst. simpl. split.
        - apply Forall_app. split; [exact OK | constructor; [exact A | constructor]].
        - unfold tg_ids. rewrite map_app. reflexivity. }
      destruct (tgt_write O s m) as [[s2 o2] bw] eqn:W.
      assert (N2 : tg_nonack o2 = true).
      { destruct (bw <? 0); [|destruct (bw =? 0)]; inversion H0; subst; auto;
          rewrite tg_nonack_app in N0; apply andb_true_iff in N0; apply N0. }
      destruct (tgt_write_fifo _ _ _ _ _ W N2) as [D2 [_ [L2 _]]].
      destruct (bw <? 0); [|destruct (bw =? 0)]; inversion H0; subst; simpl;
        rewrite ?tg_dl_ids_app, L2; simpl.
      - rewrite D2, app_nil_r. auto.
      - rewrite D2. split.
        + apply Forall_app. split; [exact OK | constructor; [exact A | constructor]].
        + unfold tg_ids. rewrite map_app. reflexivity.
      - rewrite D2, app_nil_r. auto. }
    unfold tgt_send in H. destruct app.
    + destruct (_ && _). { inversion H; subst. simpl. rewrite app_nil_r. auto. }
      destruct (_ && _). { inversion H; subst. simpl. rewrite app_nil_r. auto. }
      apply S0; auto.
    + destruct (tgt_send0 O s m) as [s1 o1] eqn:E. inversion H; subst.
      assert (ND : forall l, tg_nonack (filter tg_not_drop l) = tg_nonack l /\
                             tg_dl_ids (filter tg_not_drop l) = tg_dl_ids l).
      { induction l as [|x l IHl]; simpl; auto. destruct IHl as [I1 I2].
        destruct x; simpl; rewrite ?I1, ?I2; auto. }
      destruct (ND o1) as [ND1 ND2]. rewrite ND1 in N. rewrite ND2. apply S0; auto.
  - unfold tgt_first_timeout in H. destruct (_ && _).
    2:{ inversion H; subst. split; auto. apply tgt_fifoB_still; auto. }
    destruct (tg_state_eqb _ TgCsm).
    + assert (OK1 : tgt_ids_ok (tt_delayq (tgt_set_first s false))) by exact OK.
      destruct (tgt_connected_fifo _ _ _ OK1 H N) as [FB OK2]. split; auto.
    + inversion H; subst. split; auto. apply tgt_fifoB_still; auto.
Qed.

Lemma tgt_steps_freed_sticky : forall evs s s' tr,
  tt_freed s = true -> tgt_steps O s evs = (s', tr) -> tt_freed s' = true.
Proof.
  induction evs as [|e evs IH]; intros s s' tr F H; simpl in H.
  - inversion H; subst. exact F.
  - rewrite (tgt_step_freed O s e F) in H.
    destruct (tgt_steps O s evs) as [s2 tr2] eqn:S2. inversion H; subst. eapply IH; eauto.
Qed.

Lemma tgt_steps_fifo : forall evs s s' tr,
  tt_freed s = false -> tgt_ids_ok (tt_delayq s) -> Forall tgt_fifo_ev evs ->
  tgt_steps O s evs = (s', tr) -> tt_freed s' = false -> tg_nonack (tgt_outs tr) = true ->
  tg_ids (tt_delayq s) ++ tgt_delayed tr = tgt_flushed tr ++ tg_ids (tt_delayq s').
Proof.
  induction evs as [|e evs IH]; intros s s' tr F OK A H F' N; simpl in H.
  - inversion H; subst. unfold tgt_delayed, tgt_outs. simpl. rewrite app_nil_r. reflexivity.
  - destruct (tgt_step O s e) as [s1 o] eqn:S1.
    destruct (tgt_steps O s1 evs) as [s2 tr2] eqn:S2. inversion H; subst; clear H.
    pose proof (Forall_inv A) as A1. pose proof (Forall_inv_tail A) as A2.
    assert (F1 : tt_freed s1 = false).
    { destruct (tt_freed s1) eqn:X; auto.
      rewrite (tgt_steps_freed_sticky _ _ _ _ X S2) in F'. discriminate. }
    unfold tgt_outs in N. simpl in N. fold (tgt_outs tr2) in N.
    rewrite tg_nonack_app in N. apply andb_true_iff in N. destruct N as [N1 N2].
    destruct (tgt_step_fifo _ _ _ _ F OK A1 S1 N1) as [OK1 L1].
    pose proof (IH _ _ _ F1 OK1 A2 S2 F' N2) as L2.
    unfold tgt_delayed, tgt_outs. simpl. fold (tgt_outs tr2). rewrite tg_dl_ids_app.
    fold (tgt_delayed tr2).
    destruct e; simpl;
      try (destruct L1 as [X Y]; rewrite Y; simpl; rewrite X, <- !app_assoc, L2; reflexivity).
    rewrite app_assoc, <- L1. exact L2.
Qed.

(* While the session is not disconnected (no NACK reported) and not freed: what left the delay
   queue successfully, followed by what is still queued, is exactly what was queued, in order. *)
Theorem tgt_success_flush : forall c evs s' tr,
  Forall tgt_fifo_ev evs -> tgt_steps O (tgt_new_session c) evs = (s', tr) ->
  tt_freed s' = false -> tg_nonack (tgt_outs tr) = true ->
  tgt_flushed tr ++ tg_ids (tt_delayq s') = tgt_delayed tr.
Proof.
  intros c evs s' tr A H F N.
  pose proof (tgt_steps_fifo evs (tgt_new_session c) s' tr eq_refl (Forall_nil _) A H F N) as L. simpl in L.
  symmetry. exact L.
Qed.

End FifoTcp.

(* ------------------------------------------------------------------ acceptor *)
Theorem tgt_accepts_sound : forall O tr s,
  tgt_accepts O s tr = true -> snd (tgt_steps O s (map (fun x => fst (fst x)) tr)) = map fst tr.
Proof.
  intros O. induction tr as [|[[e o] n] tr IH]; intros s H; simpl in *; auto.
  destruct (tgt_step O s e) as [s1 o1] eqn:S1.
  apply andb_true_iff in H. destruct H as [H A]. apply andb_true_iff in H. destruct H as [E _].
  apply tg_outs_eqb_eq in E. subst o1.
  specialize (IH _ A). destruct (tgt_steps O s1 (map (fun x => fst (fst x)) tr)) as [s2 tr2].
  simpl in *. subst tr2. reflexivity.
Qed.

(* ------------------------------------------------------------------ concrete runs *)
(* handshake calls: AGAIN, SUCCESS; record calls succeed *)
Definition tgt_ex_ok : tg_oracle :=
  Build_tg_oracle (fun k => if k <? 1 then tg_E_AGAIN else 0) (fun _ => false)
                  (fun _ => 40) (fun _ => 30) (fun _ => 0).
Definition tgt_m (i : Z) : tg_msg := Build_tg_msg i true [].

(* two requests queued while the session comes up (the wait timed out), CSM exchange, flush in
   order, a third request sent directly *)
Example tgt_ex_success :
  let '(s', tr) := tgt_steps tgt_ex_ok (tgt_new_session true)
      [TConnect; TConnected true; TFirstTimeout; TSend (tgt_m 1) true; TSend (tgt_m 2) true;
       TRead; TRead; TDispatch 3; TSend (tgt_m 3) true] in
  tt_state s' = TgEstablished /\ tgt_flushed tr = [1; 2] /\ tgt_delayed tr = [1; 2] /\
  tt_delayq s' = [] /\ tg_nonack (tgt_outs tr) = true /\
  In (OTlsTx 3 40) (tgt_outs tr) /\ In (OTlsTx tgt_CSM_ID 40) (tgt_outs tr).
Proof. vm_compute. repeat split; auto 20. Qed.

(* the handshake fails: both queued requests are NACKed once, nothing reaches the record layer *)
Example tgt_ex_failure :
  let '(s', tr) := tgt_steps tg_ex_oracle_bad (tgt_new_session true)
      [TConnect; TConnected true; TFirstTimeout; TSend (tgt_m 1) true; TSend (tgt_m 2) true;
       TRead; TSend (tgt_m 3) true] in
  tt_state s' = TgNone /\ tg_nack_ids (tgt_outs tr) = [1; 2] /\ tg_dcon_ids (tgt_outs tr) = [1; 2] /\
  tgt_txok_ids (tgt_outs tr) = [] /\ tt_delayq s' = [] /\ tt_sock s' = false.
Proof. vm_compute. repeat split; auto. Qed.

(* libcoap dispatches what the record layer delivers whatever the session state: a request that
   arrives after the TLS handshake but before the peer's CSM (state CSM) is delivered. The
   handshake has succeeded at that point (tgt_gate); ESTABLISHED has not been reached. *)
Example tgt_ex_deliver_in_csm :
  let '(s', tr) := tgt_steps tgt_ex_ok (tgt_new_session false)
      [TAccept; TRead; TDispatch 1] in
  tt_state s' = TgCsm /\ In (ODeliver 1 0) (tgt_outs tr).
Proof. vm_compute. auto 10. Qed.

(* the CSM time-out of the wait declares the session connected without the peer's CSM *)
Example tgt_ex_csm_timeout :
  let '(s', tr) := tgt_steps tgt_ex_ok (tgt_new_session true)
      [TConnect; TConnected true; TRead; TFirstTimeout; TSend (tgt_m 1) true] in
  tt_state s' = TgEstablished /\ In (OTlsTx 1 40) (tgt_outs tr) /\
  ~ In (ODeliver 3 0) (tgt_outs tr).
Proof. vm_compute. repeat split; auto 10. intros H. repeat (destruct H as [H|H]; [discriminate|]). exact H. Qed.


(* C19 - model of the TLS-over-TCP session machine of libcoap (definitions only).

   Mirrors, for COAP_PROTO_TLS:
     coap_session_check_connect, coap_connect_session, coap_new_server_session  (CONNECTING)
     coap_tls_establish, coap_tls_new_client_session / coap_tls_new_server_session (HANDSHAKE)
     coap_session_establish -> coap_session_send_csm                            (CSM)
     handle_signaling (peer's CSM) -> coap_session_connected                    (ESTABLISHED)
     coap_client_delay_first (the wait inside coap_new_pdu / coap_send and its time-out, which
       in state CSM declares the session connected without the peer's CSM)
     coap_send_lkd / coap_send_internal / coap_send_pdu / coap_session_delay_pdu (reliable branch)
     coap_session_connected (reliable branch of the flush: a failed write goes back to the head)
     coap_tls_read, coap_tls_write, coap_tls_close                              (src/coap_gnutls.c)
     coap_read_session (reliable branch: a negative read disconnects), coap_dispatch for
       signalling / requests / responses (no state check there: see tgt_ex_deliver_in_csm)
     coap_session_disconnected_lkd (reliable branch: TCP / SESSION events), coap_session_mfree.
   On a reliable transport every message is sent as Confirmable and is never put on the
   context's send queue, so there is no NSTART and no retransmission here.
   The TLS library is the same oracle as in Gate.v. *)
From Coq Require Import ZArith List Bool.
From LibcoapV Require Import Base.Bytes Tls.Gate.
Import ListNotations.
Local Open Scope Z_scope.

Definition tg_EV_TCP_CONNECTED := 4097.     (* 0x1001 *)
Definition tg_EV_TCP_CLOSED := 4098.
Definition tg_EV_TCP_FAILED := 4099.
Definition tg_EV_SESSION_CLOSED := 8194.    (* 0x2002 *)
Definition tg_EV_SESSION_FAILED := 8195.
Definition tg_NACK_RST := 2.
Definition tgt_CSM_ID := -1.                (* the id under which the CSM appears in OTlsTx *)

Record tgt_sess := {
  tt_client : bool;
  tt_state : tg_state;
  tt_delayq : list tg_msg;
  tt_tls : bool; tt_est : bool; tt_sent_alert : bool;
  tt_sock : bool;                (* coap_netif_available *)
  tt_first : bool;               (* session->doing_first *)
  tt_event : option Z;           (* session->dtls_event *)
  tt_rxdata : bool;              (* the last coap_tls_read returned bytes *)
  tt_freed : bool;
  tt_khs : Z; tt_ktx : Z; tt_krx : Z
}.

Definition tgt_set_state (s : tgt_sess) v := Build_tgt_sess (tt_client s) v (tt_delayq s) (tt_tls s) (tt_est s) (tt_sent_alert s) (tt_sock s) (tt_first s) (tt_event s) (tt_rxdata s) (tt_freed s) (tt_khs s) (tt_ktx s) (tt_krx s).
Definition tgt_set_delayq (s : tgt_sess) v := Build_tgt_sess (tt_client s) (tt_state s) v (tt_tls s) (tt_est s) (tt_sent_alert s) (tt_sock s) (tt_first s) (tt_event s) (tt_rxdata s) (tt_freed s) (tt_khs s) (tt_ktx s) (tt_krx s).
Definition tgt_set_tls (s : tgt_sess) t e a := Build_tgt_sess (tt_client s) (tt_state s) (tt_delayq s) t e a (tt_sock s) (tt_first s) (tt_event s) (tt_rxdata s) (tt_freed s) (tt_khs s) (tt_ktx s) (tt_krx s).
Definition tgt_set_sock (s : tgt_sess) v := Build_tgt_sess (tt_client s) (tt_state s) (tt_delayq s) (tt_tls s) (tt_est s) (tt_sent_alert s) v (tt_first s) (tt_event s) (tt_rxdata s) (tt_freed s) (tt_khs s) (tt_ktx s) (tt_krx s).
Definition tgt_set_first (s : tgt_sess) v := Build_tgt_sess (tt_client s) (tt_state s) (tt_delayq s) (tt_tls s) (tt_est s) (tt_sent_alert s) (tt_sock s) v (tt_event s) (tt_rxdata s) (tt_freed s) (tt_khs s) (tt_ktx s) (tt_krx s).
Definition tgt_set_event (s : tgt_sess) v := Build_tgt_sess (tt_client s) (tt_state s) (tt_delayq s) (tt_tls s) (tt_est s) (tt_sent_alert s) (tt_sock s) (tt_first s) v (tt_rxdata s) (tt_freed s) (tt_khs s) (tt_ktx s) (tt_krx s).
Definition tgt_set_rxdata (s : tgt_sess) v := Build_tgt_sess (tt_client s) (tt_state s) (tt_delayq s) (tt_tls s) (tt_est s) (tt_sent_alert s) (tt_sock s) (tt_first s) (tt_event s) v (tt_freed s) (tt_khs s) (tt_ktx s) (tt_krx s).
Definition tgt_set_freed (s : tgt_sess) v := Build_tgt_sess (tt_client s) (tt_state s) (tt_delayq s) (tt_tls s) (tt_est s) (tt_sent_alert s) (tt_sock s) (tt_first s) (tt_event s) (tt_rxdata s) v (tt_khs s) (tt_ktx s) (tt_krx s).
Definition tgt_set_k (s : tgt_sess) h t r := Build_tgt_sess (tt_client s) (tt_state s) (tt_delayq s) (tt_tls s) (tt_est s) (tt_sent_alert s) (tt_sock s) (tt_first s) (tt_event s) (tt_rxdata s) (tt_freed s) h t r.

Definition tgt_new_session (client : bool) : tgt_sess :=
  Build_tgt_sess client TgNone [] false false false true false None false false 0 0 0.

Definition tgt_csm_msg : tg_msg := Build_tg_msg tgt_CSM_ID true [].

Section ModelTcp.
Variable O : tg_oracle.

Definition tgt_hs_call (s : tgt_sess) : tgt_sess * list tg_out * Z :=
  let code := or_hs O (tt_khs s) in
  let '(ret, ev, sa) := tg_do_handshake (tt_sent_alert s) code in
  let s1 := tgt_set_k s (tt_khs s + 1) (tt_ktx s) (tt_krx s) in
  let s2 := tgt_set_tls s1 (tt_tls s1) (if ret =? 1 then true else tt_est s1) sa in
  (tgt_set_event s2 (tg_merge_ev (tt_event s2) ev), [OHs code], ret).

(* coap_tls_close, then coap_netif_close *)
Definition tgt_close (s : tgt_sess) : tgt_sess * list tg_out :=
  let '(s1, o) := if tt_tls s then (tgt_set_tls s false false false, [OEvent tg_EV_DTLS_CLOSED])
                  else (s, []) in
  (tgt_set_sock s1 false, o).

(* coap_session_disconnected_lkd, reliable transport, reason other than ICMP *)
Definition tgt_disconnected (s : tgt_sess) (reason : Z) : tgt_sess * list tg_out :=
  let dqn := map (fun m => ONack (tm_id m) reason) (tg_cons (tt_delayq s)) in
  let anon := match dqn with [] => [ONackAnon reason] | _ => [] end in
  let tcp := if tt_sock s
             then [OEvent (if tg_state_eqb (tt_state s) TgConnecting then tg_EV_TCP_FAILED
                           else tg_EV_TCP_CLOSED)]
             else [] in
  let ses := if tg_state_eqb (tt_state s) TgNone then []
             else [OEvent (if tg_state_eqb (tt_state s) TgEstablished then tg_EV_SESSION_CLOSED
                           else tg_EV_SESSION_FAILED)] in
  let s1 := tgt_set_first (tgt_set_delayq (tgt_set_state s TgNone) []) false in
  let '(s2, o) := tgt_close s1 in
  (s2, dqn ++ anon ++ tcp ++ ses ++ o).

(* tail of coap_tls_read / coap_tls_write: report the event, disconnect on ERROR / CLOSED *)
Definition tgt_after_event (s : tgt_sess) (ret : Z) : tgt_sess * list tg_out * Z :=
  match tt_event s with
  | None => (s, [], ret)
  | Some e =>
      (* the field only ever holds DTLS_CLOSED or DTLS_ERROR; both disconnect, ERROR is reported *)
      let o1 := if e =? tg_EV_DTLS_CLOSED then [] else [OEvent tg_EV_DTLS_ERROR] in
      let '(s1, o2) := tgt_disconnected s tg_NACK_TLS_FAILED in (s1, o1 ++ o2, -1)
  end.

(* coap_tls_write: what a non-positive gnutls_record_send result leaves behind *)
Definition tgt_write_fail (s1 : tgt_sess) (code : Z) : tgt_sess * Z :=
  if code =? tg_E_AGAIN then (s1, 0)
  else if tg_in code [tg_E_PUSH_ERROR; tg_E_PULL_ERROR; tg_E_PREMATURE_TERMINATION]
       then (tgt_set_event s1 (Some tg_EV_DTLS_CLOSED), code)
  else if code =? tg_E_FATAL_ALERT_RECEIVED
       then (tgt_set_event (tgt_set_tls s1 (tt_tls s1) (tt_est s1) true) (Some tg_EV_DTLS_CLOSED), code)
  else (s1, -1).

(* coap_tls_write on an established TLS session (the other branch is unreachable: tgt_I) *)
Definition tgt_write (s : tgt_sess) (m : tg_msg) : tgt_sess * list tg_out * Z :=
  if negb (tt_tls s && tt_est s) then (s, [], -1)
  else
    let code := or_tx O (tt_ktx s) in
    let s0 := tgt_set_event s None in
    let s1 := tgt_set_k s0 (tt_khs s0) (tt_ktx s0 + 1) (tt_krx s0) in
    let o := [OTlsTx (tm_id m) code] in
    if 0 <? code then (s1, o, code)
    else
      let '(s2, ret) := tgt_write_fail s1 code in
      let '(s3, o3, r3) := tgt_after_event s2 ret in
      (s3, o ++ o3, r3).

(* the loop of coap_session_connected, reliable branch: a write that does not go through puts the
   message back at the head and stops *)
Fixpoint tgt_flush (q : list tg_msg) (s : tgt_sess) : tgt_sess * list tg_out :=
  match q with
  | [] => (s, [])
  | m :: q' =>
      if negb (tg_state_eqb (tt_state s) TgEstablished) then (s, [])
      else
        let s1 := tgt_set_delayq s q' in
        let '(s2, o, bw) := tgt_write s1 m in
        if bw <=? 0 then (tgt_set_delayq s2 (m :: tt_delayq s2), o)
        else let '(s3, o') := tgt_flush q' s2 in (s3, o ++ o')
  end.

Definition tgt_connected (s : tgt_sess) : tgt_sess * list tg_out :=
  let '(s0, ev) := if tg_state_eqb (tt_state s) TgCsm
                   then (tgt_set_first s false, [OEvent tg_EV_SESSION_CONNECTED]) else (s, []) in
  let s1 := tgt_set_state s0 TgEstablished in
  let '(s2, o) := tgt_flush (tt_delayq s1) s1 in
  (s2, ev ++ o).

(* coap_session_establish -> coap_session_send_csm *)
Definition tgt_send_csm (s : tgt_sess) : tgt_sess * list tg_out :=
  let s1 := tgt_set_state s TgCsm in
  let '(s2, o, bw) := tgt_write s1 tgt_csm_msg in
  if bw <=? 0 then
    let '(s3, o3) := tgt_disconnected s2 tg_NACK_NOT_DELIVERABLE in (s3, o ++ o3)
  else (s2, o).

(* coap_tls_establish: a new g_env, first handshake call *)
Definition tgt_establish (s : tgt_sess) : tgt_sess * list tg_out :=
  let s1 := tgt_set_tls (tgt_set_state s TgHandshake) true false false in
  let '(s2, o2, ret) := tgt_hs_call s1 in
  if ret =? 1 then
    let '(s3, o3) := tgt_send_csm s2 in (s3, o2 ++ [OEvent tg_EV_DTLS_CONNECTED] ++ o3)
  else (s2, o2).

(* coap_tls_read, first half: continue the handshake if it is not finished *)
Definition tgt_read_hs (s : tgt_sess) : tgt_sess * list tg_out * Z :=
  if negb (tt_est s) && negb (tt_sent_alert s) then
    let '(sa, oa, r) := tgt_hs_call s in
    if r =? 1 then
      let '(sb, ob) := tgt_send_csm sa in (sb, oa ++ [OEvent tg_EV_DTLS_CONNECTED] ++ ob, 0)
    else (sa, oa, r)
  else (s, [], -1).

(* coap_tls_read, second half: gnutls_record_recv on an established session *)
Definition tgt_read_rec (s1 : tgt_sess) (ret1 : Z) : tgt_sess * list tg_out * Z :=
  if negb (tg_state_eqb (tt_state s1) TgNone) && tt_est s1 then
    let code := or_rx O (tt_krx s1) in
    let sx := tgt_set_k s1 (tt_khs s1) (tt_ktx s1) (tt_krx s1 + 1) in
    let o := [OTlsRx code] in
    if 0 <? code then (tgt_set_rxdata sx true, o, code)
    else if code =? 0 then (tgt_set_event sx (Some tg_EV_DTLS_CLOSED), o, 0)
    else if code =? tg_E_AGAIN then (sx, o, 0)
    else if code =? tg_E_PULL_ERROR then (tgt_set_event sx (Some tg_EV_DTLS_ERROR), o, code)
    else if code =? tg_E_FATAL_ALERT_RECEIVED then
      (tgt_set_event (tgt_set_tls sx (tt_tls sx) (tt_est sx) true) (Some tg_EV_DTLS_CLOSED), o, code)
    else if code =? tg_E_WARNING_ALERT_RECEIVED then (tgt_set_event sx (Some tg_EV_DTLS_ERROR), o, code)
    else (sx, o, -1)
  else (s1, [], ret1).

(* one coap_tls_read call from coap_read_session, and coap_read_session's reaction to a
   negative result *)
Definition tgt_read (s00 : tgt_sess) : tgt_sess * list tg_out :=
  let s0 := tgt_set_rxdata s00 false in
  if negb (tt_tls s0) then tgt_disconnected s0 tg_NACK_NOT_DELIVERABLE
  else
    let s := tgt_set_event s0 None in
    let '(s1, o1, ret1) := tgt_read_hs s in
    let '(s2, o2, ret2) := tgt_read_rec s1 ret1 in
    let '(s3, o3, ret3) := tgt_after_event s2 ret2 in
    if ret3 <? 0 then
      let '(s4, o4) := tgt_disconnected s3 tg_NACK_NOT_DELIVERABLE in (s4, o1 ++ o2 ++ o3 ++ o4)
    else (s3, o1 ++ o2 ++ o3).

(* coap_dispatch of one PDU reassembled from what coap_tls_read returned.
   kind: 1 request, 2 response, 3 CSM, 4 ping/pong, 5 release/abort *)
Definition tgt_dispatch (s : tgt_sess) (kind : Z) : tgt_sess * list tg_out :=
  if negb (tt_rxdata s) then (s, [])
  else if kind =? 3 then
    if tg_state_eqb (tt_state s) TgCsm
    then let '(s1, o) := tgt_connected s in (s1, ODeliver 3 0 :: o)
    else (s, [ODeliver 3 0])
  else if kind =? 5 then
    let '(s1, o) := tgt_disconnected s tg_NACK_RST in (s1, ODeliver 5 0 :: o)
  else (s, [ODeliver kind 0]).

(* coap_send_pdu / coap_send_internal on a reliable session *)
Definition tgt_send0 (s : tgt_sess) (m : tg_msg) : tgt_sess * list tg_out :=
  if tg_state_eqb (tt_state s) TgNone && negb (tt_client s) then (s, [ODropSend (tm_id m)])
  else if negb (tg_state_eqb (tt_state s) TgEstablished)
  then (tgt_set_delayq s (tt_delayq s ++ [m]), [ODelayed (tm_id m) (tm_con m)])
  else
    let '(s1, o, bw) := tgt_write s m in
    if bw <? 0 then (s1, o ++ [ODropSend (tm_id m)])
    else if bw =? 0 then (tgt_set_delayq s1 (tt_delayq s1 ++ [m]), o ++ [ODelayed (tm_id m) (tm_con m)])
    else (s1, o).

(* coap_send by the application (app = true: refused on a closed client socket; while
   doing_first is set libcoap does not return from its wait, so the call is not enabled), or a
   message of the stack itself *)
Definition tgt_send (s : tgt_sess) (m : tg_msg) (app : bool) : tgt_sess * list tg_out :=
  if app then
    if tt_client s && negb (tt_sock s) then (s, [ODropSend (tm_id m)])
    else if tt_client s && tt_first s then (s, [])
    else tgt_send0 s m
  else let '(s1, o) := tgt_send0 s m in (s1, filter tg_not_drop o).

(* the wait of coap_client_delay_first ran out of time *)
Definition tgt_first_timeout (s : tgt_sess) : tgt_sess * list tg_out :=
  if tt_client s && tt_first s then
    let s1 := tgt_set_first s false in
    if tg_state_eqb (tt_state s1) TgCsm then tgt_connected s1 else (s1, [])
  else (s, []).

Definition tgt_mfree (s : tgt_sess) : tgt_sess * list tg_out :=
  let '(s1, o1) := tgt_close s in
  let nacks := map (fun m => ONack (tm_id m) tg_NACK_NOT_DELIVERABLE) (tg_cons (tt_delayq s1)) in
  (tgt_set_freed (tgt_set_delayq s1 []) true, o1 ++ nacks).

Inductive tgt_ev :=
| TConnect                      (* client session created, TCP connect started *)
| TConnected (ok : bool)        (* coap_connect_session *)
| TAccept                       (* coap_new_server_session *)
| TRead                         (* one coap_tls_read *)
| TDispatch (kind : Z)          (* one PDU dispatched *)
| TSend (m : tg_msg) (app : bool)
| TFirstTimeout
| TFree.                        (* released by the application / freed by the library *)

Definition tgt_step0 (s : tgt_sess) (e : tgt_ev) : tgt_sess * list tg_out :=
  match e with
  | TConnect => if tt_client s then (tgt_set_first (tgt_set_state s TgConnecting) true, []) else (s, [])
  | TConnected ok =>
      if negb (tt_client s && tg_state_eqb (tt_state s) TgConnecting) then (s, [])
      else if ok then let '(s1, o) := tgt_establish s in (s1, OEvent tg_EV_TCP_CONNECTED :: o)
      else let '(s1, o) := tgt_disconnected s tg_NACK_NOT_DELIVERABLE in (s1, OEvent tg_EV_TCP_FAILED :: o)
  | TAccept =>
      if tt_client s || negb (tg_state_eqb (tt_state s) TgNone) then (s, [])
      else let '(s1, o) := tgt_establish (tgt_set_state s TgConnecting) in
           (s1, OEvent tg_EV_TCP_CONNECTED :: o)
  | TRead => tgt_read s
  | TDispatch k => tgt_dispatch s k
  | TSend m app => tgt_send s m app
  | TFirstTimeout => tgt_first_timeout s
  | TFree => tgt_mfree s
  end.

Definition tgt_step (s : tgt_sess) (e : tgt_ev) : tgt_sess * list tg_out :=
  if tt_freed s then (s, []) else tgt_step0 s e.

Fixpoint tgt_steps (s : tgt_sess) (evs : list tgt_ev) : tgt_sess * list (tgt_ev * list tg_out) :=
  match evs with
  | [] => (s, [])
  | e :: r =>
      let '(s1, o) := tgt_step s e in
      let '(s2, tr) := tgt_steps s1 r in
      (s2, (e, o) :: tr)
  end.

Definition tgt_outs (tr : list (tgt_ev * list tg_out)) : list tg_out := concat (map snd tr).

(* acceptor with white-box snapshots: state, ids in the delay queue, tls, doing_first, socket *)
Record tgt_snap := { tn_state : Z; tn_dq : list Z; tn_tls : bool; tn_first : bool; tn_sock : bool }.
Definition tgt_snap_ok (s : tgt_sess) (n : tgt_snap) : bool :=
  (tg_state_num (tt_state s) =? tn_state n) && tg_zlist_eqb (tg_ids (tt_delayq s)) (tn_dq n) &&
  Bool.eqb (tt_tls s) (tn_tls n) && Bool.eqb (tt_first s) (tn_first n) &&
  Bool.eqb (tt_sock s) (tn_sock n) && negb (tt_freed s).

Fixpoint tgt_accepts (s : tgt_sess) (tr : list (tgt_ev * list tg_out * option tgt_snap)) : bool :=
  match tr with
  | [] => true
  | (e, o, n) :: r =>
      let '(s1, o1) := tgt_step s e in
      tg_outs_eqb o1 o && (match n with None => true | Some x => tgt_snap_ok s1 x end)
      && tgt_accepts s1 r
  end.

End ModelTcp.

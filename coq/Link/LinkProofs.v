(* C20 - the transcribed printers deliver exactly the (offset, buflen) window of the listing.
   Proof: an invariant of the macro state (bytes stored, position, Offset, Result) in terms of
   the string emitted so far, preserved by every macro, composed over coap_print_link and the
   resource loop of coap_print_wellknown_lkd. *)
From LibcoapV Require Import Base.Tactics Base.Bytes Base.BytesProofs Link.LinkFormat.
Local Open Scope Z_scope.

(* ------------------------------------------------------------------ windows of lists *)

Lemma lf_len1 (c : Z) : len [c] = 1.
Proof. reflexivity. Qed.

Lemma lf_take_nil {A} n : take n (@nil A) = [].
Proof. unfold take. apply firstn_nil. Qed.

Lemma lf_drop_nil {A} n : drop n (@nil A) = [].
Proof. unfold drop. apply skipn_nil. Qed.

Lemma lf_window_nil off blen : lf_window off blen [] = [].
Proof. unfold lf_window. rewrite lf_drop_nil. apply lf_take_nil. Qed.

Lemma lf_len_take {A} n (l : list A) : 0 <= n -> len (take n l) = Z.min n (len l).
Proof. unfold take, len. intros H. rewrite firstn_length. lia. Qed.

Lemma lf_len_drop {A} n (l : list A) : 0 <= n -> len (drop n l) = Z.max 0 (len l - n).
Proof. unfold drop, len. intros H. rewrite skipn_length. lia. Qed.

Lemma lf_len_window off blen l :
  0 <= off -> 0 <= blen -> len (lf_window off blen l) = Z.min blen (Z.max 0 (len l - off)).
Proof. intros. unfold lf_window. rewrite lf_len_take, lf_len_drop; lia. Qed.

Lemma lf_take_all {A} n (l : list A) : len l <= n -> take n l = l.
Proof. unfold take, len. intros H. apply firstn_all2. lia. Qed.

Lemma lf_drop_all {A} n (l : list A) : len l <= n -> drop n l = [].
Proof. unfold drop, len. intros H. apply skipn_all2. lia. Qed.

Lemma lf_take_0 {A} (l : list A) : take 0 l = [].
Proof. reflexivity. Qed.

Lemma lf_drop_app {A} n (a b : list A) :
  0 <= n -> drop n (a ++ b) = drop n a ++ drop (Z.max 0 (n - len a)) b.
Proof.
  intros H. unfold drop, len. rewrite skipn_app. f_equal. f_equal. lia.
Qed.

Lemma lf_take_app {A} n (a b : list A) :
  0 <= n -> take n (a ++ b) = take n a ++ take (Z.max 0 (n - len a)) b.
Proof.
  intros H. unfold take, len. rewrite firstn_app. f_equal. f_equal. lia.
Qed.

(* the window of a concatenation: the window of the first part, then - in the room that is
   left and with the offset that is left - the window of the second part *)
Lemma lf_window_app off blen a b :
  0 <= off -> 0 <= blen ->
  lf_window off blen (a ++ b) =
  lf_window off blen a ++
  lf_window (Z.max 0 (off - len a)) (blen - len (lf_window off blen a)) b.
Proof.
  intros Ho Hb. unfold lf_window.
  rewrite lf_drop_app by lia. rewrite lf_take_app by lia. f_equal.
  rewrite (lf_len_take blen) by lia.
  assert (H := len_nonneg (drop off a)).
  f_equal. lia.
Qed.

Lemma lf_window1_in off blen (c : Z) : off = 0 -> 1 <= blen -> lf_window off blen [c] = [c].
Proof.
  intros -> H. unfold lf_window, drop. cbn [Z.to_nat skipn]. apply lf_take_all. rewrite lf_len1. lia.
Qed.

Lemma lf_window1_out off blen (c : Z) : 1 <= off \/ blen = 0 -> lf_window off blen [c] = [].
Proof.
  intros [H|H]; unfold lf_window.
  - rewrite lf_drop_all. apply lf_take_nil. rewrite lf_len1. lia.
  - subst blen. apply lf_take_0.
Qed.

(* ------------------------------------------------------------------ macro invariant *)

(* state of the macros after the string S has gone through them, for a buffer of [bufend]
   bytes and an initial Offset [off0] *)
Definition lf_inv (bufend off0 : Z) (S : bytes) (s : lf_st) : Prop :=
  rev (lf_rev s) = lf_window off0 bufend S /\
  lf_pos s = len (lf_window off0 bufend S) /\
  lf_cnt s = len S /\
  lf_off s = (if 0 <? bufend then Z.max 0 (off0 - len S) else off0).

Lemma lf_inv_init bufend off0 :
  0 <= off0 ->
  lf_inv bufend off0 [] {| lf_rev := []; lf_pos := 0; lf_off := off0; lf_cnt := 0 |}.
Proof.
  intros H. unfold lf_inv. cbn [lf_rev lf_pos lf_cnt lf_off rev].
  rewrite lf_window_nil. change (len (@nil Z)) with 0. repeat split. destruct (0 <? bufend); lia.
Qed.

Lemma lf_inv_step bufend off0 S s c :
  0 <= off0 -> 0 <= bufend ->
  lf_inv bufend off0 S s -> lf_inv bufend off0 (S ++ [c]) (lf_print_cond bufend s c).
Proof.
  intros Ho Hb (Hr & Hp & Hc & Hf).
  assert (HW := lf_window_app off0 bufend S [c] Ho Hb).
  assert (HL := lf_len_window off0 bufend S Ho Hb).
  assert (HS := len_nonneg S).
  unfold lf_inv, lf_print_cond, lf_print_with_offset.
  rewrite len_app, lf_len1.
  destruct (lf_pos s <? bufend) eqn:E1.
  - assert (0 <? bufend = true) as Hb1 by lia. rewrite Hb1 in *.
    destruct (lf_off s =? 0) eqn:E2; cbn [lf_rev lf_pos lf_off lf_cnt rev].
    + (* the byte is stored *)
      assert (lf_window (Z.max 0 (off0 - len S)) (bufend - len (lf_window off0 bufend S)) [c] = [c]) as HC
        by (apply lf_window1_in; lia).
      rewrite HW, HC, Hr. rewrite len_app, lf_len1.
      repeat split; lia.
    + (* the byte is skipped *)
      assert (lf_window (Z.max 0 (off0 - len S)) (bufend - len (lf_window off0 bufend S)) [c] = []) as HC
        by (apply lf_window1_out; lia).
      rewrite HW, HC, app_nil_r. repeat split; try assumption; lia.
  - (* buffer full (or empty buffer) *)
    cbn [lf_rev lf_pos lf_off lf_cnt].
    assert (lf_window (Z.max 0 (off0 - len S)) (bufend - len (lf_window off0 bufend S)) [c] = []) as HC
      by (apply lf_window1_out; lia).
    rewrite HW, HC, app_nil_r. repeat split; try assumption; try lia.
    destruct (0 <? bufend) eqn:Hb1; lia.
Qed.

Lemma lf_inv_copy bufend off0 str : forall S s,
  0 <= off0 -> 0 <= bufend ->
  lf_inv bufend off0 S s -> lf_inv bufend off0 (S ++ str) (lf_copy_cond bufend s str).
Proof.
  induction str as [|c tl IH]; intros S s Ho Hb H; cbn [lf_copy_cond].
  - rewrite app_nil_r. exact H.
  - replace (S ++ c :: tl) with ((S ++ [c]) ++ tl) by (rewrite <- app_assoc; reflexivity).
    apply IH; auto. apply lf_inv_step; auto.
Qed.

Lemma lf_inv_attr bufend off0 S s a :
  0 <= off0 -> 0 <= bufend ->
  lf_inv bufend off0 S s -> lf_inv bufend off0 (S ++ lf_attr_text a) (lf_print_attr bufend s a).
Proof.
  intros Ho Hb H. unfold lf_print_attr, lf_attr_text.
  apply (lf_inv_step bufend off0 S s 59 Ho Hb) in H.
  apply (lf_inv_copy bufend off0 (lf_aname a) _ _ Ho Hb) in H.
  destruct (lf_avalue a) as [v|].
  - apply (lf_inv_step bufend off0 _ _ 61 Ho Hb) in H.
    apply (lf_inv_copy bufend off0 v _ _ Ho Hb) in H.
    repeat rewrite <- app_assoc in H. cbn [app] in H. exact H.
  - rewrite app_nil_r. repeat rewrite <- app_assoc in H. cbn [app] in H. exact H.
Qed.

Lemma lf_inv_attrs bufend off0 l : forall S s,
  0 <= off0 -> 0 <= bufend ->
  lf_inv bufend off0 S s ->
  lf_inv bufend off0 (S ++ concat (map lf_attr_text l)) (fold_left (lf_print_attr bufend) l s).
Proof.
  induction l as [|a tl IH]; intros S s Ho Hb H; cbn [map concat fold_left].
  - rewrite app_nil_r. exact H.
  - rewrite app_assoc. apply IH; auto. apply lf_inv_attr; auto.
Qed.

(* coap_print_link's macro sequence emits exactly lf_link r *)
Lemma lf_link_state_inv r len0 off :
  0 <= off -> 0 <= len0 -> lf_inv len0 off (lf_link r) (lf_link_state r len0 off).
Proof.
  intros Ho Hb. unfold lf_link_state.
  assert (H := lf_inv_init len0 off Ho).
  apply (lf_inv_step len0 off _ _ 60 Ho Hb) in H.
  apply (lf_inv_step len0 off _ _ 47 Ho Hb) in H.
  apply (lf_inv_copy len0 off (lf_path r) _ _ Ho Hb) in H.
  apply (lf_inv_step len0 off _ _ 62 Ho Hb) in H.
  apply (lf_inv_attrs len0 off (lf_attrs r) _ _ Ho Hb) in H.
  assert (forall (b : bool) S s t, lf_inv len0 off S s ->
            lf_inv len0 off (S ++ (if b then t else [])) (if b then lf_copy_cond len0 s t else s)) as Hopt.
  { intros b S s t H0. destruct b. apply lf_inv_copy; auto. rewrite app_nil_r. exact H0. }
  apply (Hopt (lf_obs r) _ _ lf_obs_text) in H.
  apply (Hopt (lf_osc r) _ _ lf_osc_text) in H.
  unfold lf_link. repeat rewrite <- app_assoc in H. cbn [app] in H. exact H.
Qed.

(* the TRUNC bit computed from the final state *)
Definition lf_trunc_spec (off blen total : Z) : bool :=
  if 0 <? blen then off + blen <? total else 0 <? total.

Lemma lf_status_of_inv bufend off0 S s :
  0 <= off0 -> 0 <= bufend <= lf_status_max -> lf_inv bufend off0 S s ->
  lf_status_of (lf_pos s) off0 (lf_off s) (lf_cnt s) =
  LfDone (len (lf_window off0 bufend S)) (lf_trunc_spec off0 bufend (len S)).
Proof.
  intros Ho Hb (Hr & Hp & Hc & Hf).
  assert (HL := lf_len_window off0 bufend S Ho (proj1 Hb)).
  assert (HS := len_nonneg S).
  unfold lf_status_of, lf_trunc_spec. rewrite Hp, Hc, Hf.
  destruct (lf_status_max <? len (lf_window off0 bufend S)) eqn:E; [lia|].
  f_equal. destruct (0 <? bufend) eqn:E1; lia.
Qed.

(* C20_link_window *)
Theorem lf_print_link_window r len0 off :
  0 <= off -> 0 <= len0 <= lf_status_max ->
  lf_print_link r len0 off =
  (LfDone (len (lf_window off len0 (lf_link r))) (lf_trunc_spec off len0 (len (lf_link r))),
   lf_window off len0 (lf_link r),
   len (lf_link r),
   if 0 <? len0 then Z.max 0 (off - len (lf_link r)) else off).
Proof.
  intros Ho Hb. unfold lf_print_link.
  assert (H := lf_link_state_inv r len0 off Ho (proj1 Hb)).
  rewrite (lf_status_of_inv len0 off (lf_link r) _ Ho Hb H).
  destruct H as (Hr & Hp & Hc & Hf). rewrite Hr, Hc, Hf. reflexivity.
Qed.

(* ------------------------------------------------------------------ joining links *)

Lemma lf_join_snoc ls x :
  lf_join (ls ++ [x]) = match ls with [] => x | _ :: _ => lf_join ls ++ 44 :: x end.
Proof.
  induction ls as [|y tl IH]; [reflexivity|].
  cbn [app]. destruct tl as [|z tl'].
  - reflexivity.
  - change (lf_join (y :: (z :: tl') ++ [x])) with (y ++ 44 :: lf_join ((z :: tl') ++ [x])).
    rewrite IH. change (lf_join (y :: z :: tl')) with (y ++ 44 :: lf_join (z :: tl')).
    rewrite <- app_assoc. reflexivity.
Qed.

(* ------------------------------------------------------------------ the resource loop *)

(* loop state after the links [done] have been printed *)
Definition lf_wk_inv (buflen off0 : Z) (done : list bytes) (w : lf_wk) : Prop :=
  lf_inv buflen off0 (lf_join done)
         {| lf_rev := lf_wrev w; lf_pos := lf_wpos w; lf_off := lf_woff w; lf_cnt := lf_written w |} /\
  lf_subseq w = match done with [] => false | _ :: _ => true end.

Lemma lf_wk_loop_inv guard term buflen off0 (f : option lf_filter) (P : lf_res -> bool) rs :
  0 <= off0 -> 0 <= buflen <= lf_status_max ->
  (forall r, In r rs ->
     match f with None => LfVal true | Some fl => lf_select guard term fl r end = LfVal (P r)) ->
  forall done w, lf_wk_inv buflen off0 done w ->
  exists w', lf_wk_loop guard term buflen f rs w = LfVal w' /\
             lf_wk_inv buflen off0
               (done ++ map lf_link (filter (fun r => lf_visible r && P r) rs)) w'.
Proof.
  intros Ho Hb. induction rs as [|r tl IH]; intros Hsel done w Hw.
  - exists w. cbn [lf_wk_loop filter map]. rewrite app_nil_r. auto.
  - cbn [lf_wk_loop filter]. unfold lf_visible at 1.
    assert (forall x, In x tl ->
             match f with None => LfVal true | Some fl => lf_select guard term fl x end = LfVal (P x)) as Htl.
    { intros x Hx. apply Hsel. right. exact Hx. }
    destruct (lf_beq (lf_path r) lf_wk_path) eqn:Ewk; cbn [negb andb].
    { apply IH; auto. }
    rewrite (Hsel r (or_introl eq_refl)).
    destruct (P r) eqn:EP.
    2:{ apply IH; auto. }
    cbn [map].
    (* separator *)
    set (w1 := lf_wk_sep buflen w).
    set (S1 := match done with [] => [] | _ :: _ => lf_join done ++ [44] end).
    assert (lf_inv buflen off0 S1
              {| lf_rev := lf_wrev w1; lf_pos := lf_wpos w1; lf_off := lf_woff w1; lf_cnt := lf_written w1 |}
            /\ lf_subseq w1 = true) as (H1 & Hs1).
    { destruct Hw as (Hi & Hs). subst w1 S1. unfold lf_wk_sep. rewrite Hs.
      destruct done as [|d0 dtl]; cbn [lf_wrev lf_wpos lf_woff lf_written lf_subseq].
      - split; [exact Hi | reflexivity].
      - split; [|reflexivity].
        apply (lf_inv_step buflen off0 _ _ 44 Ho (proj1 Hb)) in Hi.
        destruct (lf_print_cond buflen _ 44); exact Hi. }
    assert (lf_join (done ++ [lf_link r]) = S1 ++ lf_link r) as HJ.
    { rewrite lf_join_snoc. subst S1. destruct done; [reflexivity|].
      rewrite <- app_assoc. reflexivity. }
    (* the link, printed into what is left of the buffer *)
    destruct H1 as (Hr1 & Hp1 & Hc1 & Hf1).
    cbn [lf_rev lf_pos lf_off lf_cnt] in Hr1, Hp1, Hc1, Hf1.
    assert (HL1 := lf_len_window off0 buflen S1 Ho (proj1 Hb)).
    assert (HS1 := len_nonneg S1).
    assert (0 <= lf_woff w1) as Ho1 by (rewrite Hf1; destruct (0 <? buflen); lia).
    assert (0 <= buflen - lf_wpos w1 <= lf_status_max) as Hb1 by lia.
    rewrite (lf_print_link_window r _ _ Ho1 Hb1).
    pose (K := lf_link r).
    assert (HLK := lf_len_window (lf_woff w1) (buflen - lf_wpos w1) K Ho1 (proj1 Hb1)).
    assert (HK := len_nonneg K).
    replace (done ++ lf_link r :: map lf_link (filter (fun r0 => lf_visible r0 && P r0) tl))
      with ((done ++ [lf_link r]) ++ map lf_link (filter (fun r0 => lf_visible r0 && P r0) tl))
      by (rewrite <- app_assoc; reflexivity).
    apply IH; auto.
    split; [|cbn [lf_subseq]; destruct done; reflexivity].
    unfold lf_inv. cbn [lf_wrev lf_wpos lf_woff lf_written lf_rev lf_pos lf_off lf_cnt].
    rewrite HJ.
    assert (lf_window off0 buflen (S1 ++ K) =
            lf_window off0 buflen S1 ++ lf_window (lf_woff w1) (buflen - lf_wpos w1) K) as HW.
    { rewrite lf_window_app by lia. f_equal. rewrite Hp1, Hf1.
      destruct (0 <? buflen) eqn:E0; [reflexivity|].
      assert (buflen = 0) by lia. subst buflen. rewrite HL1.
      unfold lf_window. replace (0 - Z.min 0 (Z.max 0 (len S1 - off0))) with 0 by lia.
      reflexivity. }
    subst K. rewrite HW. rewrite rev_app_distr, rev_involutive, Hr1.
    rewrite !len_app. repeat split; try lia.
    rewrite Hf1. destruct (0 <? buflen) eqn:E0.
    + destruct (0 <? buflen - lf_wpos w1) eqn:E2; lia.
    + destruct (0 <? buflen - lf_wpos w1) eqn:E2; lia.
Qed.

(* C20_wellknown_window, for any per-resource filter decision P that the code computes *)
Lemma lf_print_wellknown_window_gen guard term rs (f : option lf_filter) (P : lf_res -> bool) off buflen :
  0 <= off -> 0 <= buflen <= lf_status_max ->
  (forall r, In r rs ->
     match f with None => LfVal true | Some fl => lf_select guard term fl r end = LfVal (P r)) ->
  let L := lf_listing (filter (fun r => lf_visible r && P r) rs) in
  exists w, lf_wk_loop guard term buflen f rs
              {| lf_wrev := []; lf_wpos := 0; lf_woff := off; lf_written := 0; lf_subseq := false |}
            = LfVal w /\
    {| lf_rstatus := lf_status_of (lf_wpos w) off (lf_woff w) (lf_written w);
       lf_rbytes := rev (lf_wrev w); lf_rtotal := lf_written w |} =
    {| lf_rstatus := LfDone (len (lf_window off buflen L)) (lf_trunc_spec off buflen (len L));
       lf_rbytes := lf_window off buflen L; lf_rtotal := len L |}.
Proof.
  intros Ho Hb Hsel L.
  destruct (lf_wk_loop_inv guard term buflen off f P rs Ho Hb Hsel []
              {| lf_wrev := []; lf_wpos := 0; lf_woff := off; lf_written := 0; lf_subseq := false |})
    as (w & Hrun & Hi & _).
  { split; [|reflexivity]. apply lf_inv_init. exact Ho. }
  exists w. split; [exact Hrun|].
  cbn [app] in Hi. fold (lf_listing (filter (fun r => lf_visible r && P r) rs)) in Hi. fold L in Hi.
  assert (Hst := lf_status_of_inv buflen off L _ Ho Hb Hi).
  cbn [lf_pos lf_off lf_cnt] in Hst. rewrite Hst.
  destruct Hi as (Hr & Hp & Hc & Hf). cbn [lf_rev lf_pos lf_off lf_cnt] in *.
  rewrite Hr, Hc. reflexivity.
Qed.

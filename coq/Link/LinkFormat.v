(* C20 - /.well-known/core: model of src/coap_resource.c (registration, the three printing
   macros, coap_print_link, match, coap_print_wellknown_lkd) and of the GET handler
   hnd_get_wellknown_lkd (src/coap_net.c), plus the RFC 6690 specification the property is
   stated against.  Definitions only; proofs are in Link/*Proofs.v.

   Conventions: bytes are Z, indices and lengths are Z, nat only drives recursion.  Every
   global name carries the prefix lf_ / Lf (all models are extracted into one flat module). *)
From Coq Require Import ZArith List Bool.
From LibcoapV Require Import Base.Bytes.
Import ListNotations.
Local Open Scope Z_scope.

(* ------------------------------------------------------------------ resource table *)

(* coap_attr_t: name, optional value (NULL when the attribute was added without a value) *)
Record lf_attr := { lf_aname : bytes; lf_avalue : option bytes }.

(* coap_resource_t as far as the listing can see it.  lf_attrs is the linked list
   resource->link_attr in list order: coap_add_attr does LL_PREPEND, so the attribute added
   last comes first. *)
Record lf_res := { lf_path : bytes; lf_attrs : list lf_attr; lf_obs : bool; lf_osc : bool }.

Fixpoint lf_beq (a b : bytes) : bool :=
  match a, b with
  | [], [] => true
  | x :: a', y :: b' => (x =? y) && lf_beq a' b'
  | _, _ => false
  end.

(* coap_resource_init(path, flags) ; flags & COAP_RESOURCE_FLAGS_OSCORE_ONLY *)
Definition lf_res_init (path : bytes) (osc : bool) : lf_res :=
  {| lf_path := path; lf_attrs := []; lf_obs := false; lf_osc := osc |}.

(* coap_add_attr: LL_PREPEND *)
Definition lf_add_attr (r : lf_res) (name : bytes) (val : option bytes) : lf_res :=
  {| lf_path := lf_path r; lf_attrs := {| lf_aname := name; lf_avalue := val |} :: lf_attrs r;
     lf_obs := lf_obs r; lf_osc := lf_osc r |}.

(* coap_resource_set_get_observable *)
Definition lf_set_obs (r : lf_res) (b : bool) : lf_res :=
  {| lf_path := lf_path r; lf_attrs := lf_attrs r; lf_obs := b; lf_osc := lf_osc r |}.

(* context->resources is a uthash table keyed by the path; HASH_ADD appends to the
   application-order list and HASH_ITER walks that list, so iteration order = registration
   order.  coap_add_resource deletes a resource with the same path first. *)
Definition lf_unregister (tbl : list lf_res) (path : bytes) : list lf_res :=
  filter (fun x => negb (lf_beq (lf_path x) path)) tbl.

Definition lf_register (tbl : list lf_res) (r : lf_res) : list lf_res :=
  lf_unregister tbl (lf_path r) ++ [r].

(* ------------------------------------------------------------------ specification: RFC 6690 *)

(* ";name" or ";name=value" *)
Definition lf_attr_text (a : lf_attr) : bytes :=
  59 :: lf_aname a ++ match lf_avalue a with Some v => 61 :: v | None => [] end.

Definition lf_obs_text : bytes := [59; 111; 98; 115].   (* ";obs" *)
Definition lf_osc_text : bytes := [59; 111; 115; 99].   (* ";osc" *)

(* "</path>" attributes ";obs"? ";osc"? *)
Definition lf_link (r : lf_res) : bytes :=
  60 :: 47 :: lf_path r ++ 62 :: concat (map lf_attr_text (lf_attrs r))
    ++ (if lf_obs r then lf_obs_text else []) ++ (if lf_osc r then lf_osc_text else []).

(* links separated by "," *)
Fixpoint lf_join (ls : list bytes) : bytes :=
  match ls with
  | [] => []
  | x :: tl => match tl with [] => x | _ :: _ => x ++ 44 :: lf_join tl end
  end.

Definition lf_listing (rs : list lf_res) : bytes := lf_join (map lf_link rs).

(* the bytes a call with (offset, buflen) has to deliver *)
Definition lf_window (off blen : Z) (l : bytes) : bytes := take blen (drop off l).

(* ".well-known/core" *)
Definition lf_wk_path : bytes :=
  [46; 119; 101; 108; 108; 45; 107; 110; 111; 119; 110; 47; 99; 111; 114; 101].

(* a resource the application registered under the path of the listing itself is the
   application's replacement for the listing and is not part of it *)
Definition lf_visible (r : lf_res) : bool := negb (lf_beq (lf_path r) lf_wk_path).

(* -- filter matching relation (RFC 6690 section 4.1) *)

Fixpoint lf_prefixb (p s : bytes) : bool :=
  match p, s with
  | [], _ => true
  | x :: p', y :: s' => (x =? y) && lf_prefixb p' s'
  | _ :: _, [] => false
  end.

(* value matches pattern: equal, or (pattern ended in '*') pattern is a prefix *)
Definition lf_str_match (prefix : bool) (pat s : bytes) : bool :=
  if prefix then lf_prefixb pat s else lf_beq pat s.

(* space-separated tokens of an rt/if/rel value; [cur] is the token being collected.  A value
   that ends in a space has no (empty) token after that space; the empty value has no token. *)
Fixpoint lf_tokens_aux (cur t : bytes) : list bytes :=
  match t with
  | [] => match cur with [] => [] | _ :: _ => [cur] end
  | c :: tl => if c =? 32 then cur :: lf_tokens_aux [] tl else lf_tokens_aux (cur ++ [c]) tl
  end.
Definition lf_tokens (t : bytes) : list bytes := lf_tokens_aux [] t.

(* attribute name / pattern of a filter "name=pattern": split at the first '=' *)
Fixpoint lf_before_eq (q : bytes) : bytes :=
  match q with [] => [] | c :: tl => if c =? 61 then [] else c :: lf_before_eq tl end.
Fixpoint lf_after_eq (q : bytes) : option bytes :=
  match q with [] => None | c :: tl => if c =? 61 then Some tl else lf_after_eq tl end.

Definition lf_href : bytes := [104; 114; 101; 102].
Definition lf_rt : bytes := [114; 116].
Definition lf_if : bytes := [105; 102].
Definition lf_rel : bytes := [114; 101; 108].
Definition lf_is_token_attr (n : bytes) : bool := lf_beq n lf_rt || lf_beq n lf_if || lf_beq n lf_rel.

(* a trailing '*' asks for prefix matching and is not part of the pattern *)
Definition lf_strip_star (p : bytes) : bytes * bool :=
  match rev p with
  | c :: r => if c =? 42 then (rev r, true) else (p, false)
  | [] => (p, false)
  end.

(* one leading '/' of an href pattern is not part of the path *)
Definition lf_strip_slash (p : bytes) : bytes :=
  match p with c :: tl => if c =? 47 then tl else p | [] => [] end.

(* a value of at least two bytes that starts with a double quote is a quoted-string: the text
   is what is between its first and its last byte *)
Definition lf_unquote (v : bytes) : bytes :=
  match v with
  | c :: tl => if (c =? 34) && negb (len tl =? 0) then removelast tl else v
  | [] => []
  end.

(* the code before the repair of F20e computed the length 1 - 2 in size_t for a value that
   consists of one double quote; lf_val_ok excludes that value (used for the old code only) *)
Definition lf_val_ok (v : bytes) : bool :=
  match v with
  | c :: tl => if c =? 34 then match tl with [] => false | _ :: _ => true end else true
  | [] => true
  end.
Definition lf_res_ok (r : lf_res) : bool :=
  forallb (fun a => match lf_avalue a with Some v => lf_val_ok v | None => true end) (lf_attrs r).
Definition lf_table_ok (rs : list lf_res) : bool := forallb lf_res_ok rs.

(* first attribute with that name (link_attr order) *)
Fixpoint lf_find_attr (l : list lf_attr) (n : bytes) : option lf_attr :=
  match l with
  | [] => None
  | a :: tl => if lf_beq (lf_aname a) n then Some a else lf_find_attr tl n
  end.

(* does resource r pass the filter q?  (q = whole query string)
   - no attribute name in front of '=' (empty filter, or "=..."): no restriction;
   - a name without '=': nothing is selected (there is no pattern to be equal to);
   - href=P: the path (without leading '/') equals P / has prefix P;
   - rt|if|rel=P: some space-separated token of the (unquoted) value equals / has prefix P;
   - any other name: the (unquoted) value equals / has prefix P. *)
Definition lf_filter_spec (q : bytes) (r : lf_res) : bool :=
  let name := lf_before_eq q in
  match name with
  | [] => true
  | _ :: _ =>
    match lf_after_eq q with
    | None => false
    | Some p0 =>
      if lf_beq name lf_href then
        let '(p, pfx) := lf_strip_star (lf_strip_slash p0) in lf_str_match pfx p (lf_path r)
      else
        let '(p, pfx) := lf_strip_star p0 in
        match lf_find_attr (lf_attrs r) name with
        | None => false
        | Some a =>
          match lf_avalue a with
          | None => false
          | Some v =>
            if lf_is_token_attr name then existsb (lf_str_match pfx p) (lf_tokens (lf_unquote v))
            else lf_str_match pfx p (lf_unquote v)
          end
        end
    end
  end.

Definition lf_selected (filter : option bytes) (rs : list lf_res) : list lf_res :=
  List.filter (fun r => lf_visible r &&
                        match filter with None => true | Some q => lf_filter_spec q r end) rs.

(* ------------------------------------------------------------------ the printing macros *)

(* Explicit state of the macros: the bytes stored through Buf so far (newest first), the
   position Buf - buf, Offset and Result. *)
Record lf_st := { lf_rev : bytes; lf_pos : Z; lf_off : Z; lf_cnt : Z }.

(* PRINT_WITH_OFFSET(Buf,Offset,Char) *)
Definition lf_print_with_offset (s : lf_st) (c : Z) : lf_st :=
  if lf_off s =? 0
  then {| lf_rev := c :: lf_rev s; lf_pos := lf_pos s + 1; lf_off := lf_off s; lf_cnt := lf_cnt s |}
  else {| lf_rev := lf_rev s; lf_pos := lf_pos s; lf_off := lf_off s - 1; lf_cnt := lf_cnt s |}.

(* PRINT_COND_WITH_OFFSET(Buf,Bufend,Offset,Char,Result) ; bufend as an index from buf *)
Definition lf_print_cond (bufend : Z) (s : lf_st) (c : Z) : lf_st :=
  let s1 := if lf_pos s <? bufend then lf_print_with_offset s c else s in
  {| lf_rev := lf_rev s1; lf_pos := lf_pos s1; lf_off := lf_off s1; lf_cnt := lf_cnt s1 + 1 |}.

(* COPY_COND_WITH_OFFSET(Buf,Bufend,Offset,Str,Length,Result) *)
Fixpoint lf_copy_cond (bufend : Z) (s : lf_st) (str : bytes) : lf_st :=
  match str with
  | [] => s
  | c :: tl => lf_copy_cond bufend (lf_print_cond bufend s c) tl
  end.

(* ------------------------------------------------------------------ coap_print_link *)

Definition lf_status_max : Z := 268435455.       (* COAP_PRINT_STATUS_MAX 0x0FFFFFFF *)

(* coap_print_status_t: ERROR bit, or output length + TRUNC bit *)
Inductive lf_status := LfError | LfDone (count : Z) (trunc : bool).

Definition lf_print_attr (bufend : Z) (s : lf_st) (a : lf_attr) : lf_st :=
  let s := lf_print_cond bufend s 59 in
  let s := lf_copy_cond bufend s (lf_aname a) in
  match lf_avalue a with
  | Some v => lf_copy_cond bufend (lf_print_cond bufend s 61) v
  | None => s
  end.

(* the body of coap_print_link up to the computation of output_length; len = *len on entry *)
Definition lf_link_state (r : lf_res) (len off : Z) : lf_st :=
  let s := {| lf_rev := []; lf_pos := 0; lf_off := off; lf_cnt := 0 |} in
  let s := lf_print_cond len s 60 in
  let s := lf_print_cond len s 47 in
  let s := lf_copy_cond len s (lf_path r) in
  let s := lf_print_cond len s 62 in
  let s := fold_left (lf_print_attr len) (lf_attrs r) s in
  let s := if lf_obs r then lf_copy_cond len s lf_obs_text else s in
  if lf_osc r then lf_copy_cond len s lf_osc_text else s.

Definition lf_status_of (pos old_off new_off total : Z) : lf_status :=
  if lf_status_max <? pos then LfError
  else LfDone pos (pos + old_off - new_off <? total).

(* coap_print_link(resource, buf, &len, &offset):
   (return value, bytes stored in buf[0..], *len afterwards, *offset afterwards) *)
Definition lf_print_link (r : lf_res) (len off : Z) : lf_status * bytes * Z * Z :=
  let s := lf_link_state r len off in
  (lf_status_of (lf_pos s) off (lf_off s) (lf_cnt s), rev (lf_rev s), lf_cnt s, lf_off s).

(* ------------------------------------------------------------------ match(), with checked reads *)

(* result of code that reads memory: a value, a read outside the object, or out of fuel *)
Inductive lf_m (A : Type) := LfVal (a : A) | LfOob | LfFuel.
Arguments LfVal {A} a.
Arguments LfOob {A}.
Arguments LfFuel {A}.

(* a coap_str_const_t: pointer (object + index) and length.  Objects created by
   coap_new_str_const carry a terminating 0 behind the string. *)
Record lf_str := { lf_obj : bytes; lf_at : Z; lf_len : Z }.

Definition lf_rd (m : bytes) (i : Z) : option Z :=
  if (0 <=? i) && (i <? len m) then nth_error m (Z.to_nat i) else None.

(* memcmp(a+i, b+j, n) == 0 ; all n bytes of both operands must lie inside their objects *)
Fixpoint lf_memeq (a : bytes) (i : Z) (b : bytes) (j : Z) (n : nat) : option bool :=
  match n with
  | O => Some true
  | S k =>
    match lf_rd a i, lf_rd b j with
    | Some x, Some y =>
      match lf_memeq a (i + 1) b (j + 1) k with
      | Some r => Some ((x =? y) && r)
      | None => None
      end
    | _, _ => None
    end
  end.

(* memchr(m+i, c, n): None = a read outside the object, Some None = NULL, Some (Some k) = m+k *)
Fixpoint lf_memchr (m : bytes) (i : Z) (n : nat) (c : Z) : option (option Z) :=
  match n with
  | O => Some None
  | S k =>
    match lf_rd m i with
    | None => None
    | Some x => if x =? c then Some (Some i) else lf_memchr m (i + 1) k c
    end
  end.

(* the while loop of match() for match_substring.  [guard] = the token is at least as long as
   the pattern before a prefix comparison (the repaired code); guard = false is the code
   before the repair: (match_prefix || pattern->length == token_length). *)
Fixpoint lf_match_loop (guard : bool) (fuel : nat) (obj : bytes) (next remaining : Z)
         (p : lf_str) (prefix : bool) : lf_m bool :=
  if remaining =? 0 then LfVal false else
  match fuel with
  | O => LfFuel
  | S fuel' =>
    match lf_memchr obj next (Z.to_nat remaining) 32 with
    | None => LfOob
    | Some found =>
      let tlen := match found with Some k => k - next | None => remaining end in
      let next' := match found with Some k => k + 1 | None => next end in
      let rem' := match found with Some k => remaining - (k - next + 1) | None => 0 end in
      let cond := if prefix then (if guard then lf_len p <=? tlen else true)
                  else lf_len p =? tlen in
      if cond then
        match lf_memeq obj next (lf_obj p) (lf_at p) (Z.to_nat (lf_len p)) with
        | None => LfOob
        | Some true => LfVal true
        | Some false => lf_match_loop guard fuel' obj next' rem' p prefix
        end
      else lf_match_loop guard fuel' obj next' rem' p prefix
    end
  end.

(* match(text, pattern, match_prefix, match_substring); pattern = None is {0, NULL} *)
Definition lf_match (guard : bool) (text : lf_str) (pat : option lf_str)
           (prefix substring : bool) : lf_m bool :=
  match pat with
  | None => LfVal false
  | Some p =>
    if lf_len text <? lf_len p then LfVal false
    else if substring then
      lf_match_loop guard (S (Z.to_nat (lf_len text))) (lf_obj text) (lf_at text) (lf_len text)
                    p prefix
    else if prefix || (lf_len p =? lf_len text) then
      match lf_memeq (lf_obj text) (lf_at text) (lf_obj p) (lf_at p) (Z.to_nat (lf_len p)) with
      | None => LfOob
      | Some b => LfVal b
      end
    else LfVal false
  end.

(* ------------------------------------------------------------------ query filter split *)

(* resource_param / query_pattern / flags of coap_print_wellknown_lkd *)
Record lf_filter := {
  lf_pname : bytes;            (* resource_param: first lf_plen bytes of the query *)
  lf_pat : option lf_str;      (* query_pattern ({0,NULL} = None) *)
  lf_uri : bool;               (* MATCH_URI *)
  lf_prefix : bool;            (* MATCH_PREFIX *)
  lf_substring : bool }.       (* MATCH_SUBSTRING *)

(* while (resource_param.length < query_filter->length && s[length] != '=') length++ *)
Fixpoint lf_param_len (q : bytes) (i : Z) : Z :=
  match q with [] => i | c :: tl => if c =? 61 then i else lf_param_len tl (i + 1) end.

(* [guard] = query_pattern.length is tested before query_pattern.s[0] is read (the repaired
   code); guard = false is the code before the repair, which reads s[0] of an empty pattern
   (the byte behind the query string) *)
Definition lf_split_filter (guard : bool) (q : bytes) : lf_m lf_filter :=
  let plen := lf_param_len q 0 in
  let name := take plen q in
  if plen <? len q then
    let uri := (plen =? 4) && lf_beq name lf_href in
    let sub := lf_is_token_attr name in
    let at0 := plen + 1 in
    let l0 := len q - (plen + 1) in
    (* if (query_pattern.length && query_pattern.s[0] == '/' && (flags & MATCH_URI)) *)
    let strip_r := if guard && (l0 =? 0) then Some false
                   else match lf_rd q at0 with
                        | None => None
                        | Some c => Some ((c =? 47) && uri)
                        end in
    match strip_r with
    | None => LfOob
    | Some strip =>
      let at1 := if strip then at0 + 1 else at0 in
      let l1 := if strip then l0 - 1 else l0 in
      (* if (query_pattern.length && query_pattern.s[length-1] == '*') *)
      if negb (l1 =? 0) then
        match lf_rd q (at1 + l1 - 1) with
        | None => LfOob
        | Some e =>
          if e =? 42
          then LfVal {| lf_pname := name; lf_pat := Some {| lf_obj := q; lf_at := at1; lf_len := l1 - 1 |};
                        lf_uri := uri; lf_prefix := true; lf_substring := sub |}
          else LfVal {| lf_pname := name; lf_pat := Some {| lf_obj := q; lf_at := at1; lf_len := l1 |};
                        lf_uri := uri; lf_prefix := false; lf_substring := sub |}
        end
      else LfVal {| lf_pname := name; lf_pat := Some {| lf_obj := q; lf_at := at1; lf_len := l1 |};
                    lf_uri := uri; lf_prefix := false; lf_substring := sub |}
    end
  else LfVal {| lf_pname := name; lf_pat := None; lf_uri := false; lf_prefix := false;
                lf_substring := false |}.

(* coap_find_attr *)
Definition lf_c_find_attr (r : lf_res) (name : bytes) : option lf_attr :=
  lf_find_attr (lf_attrs r) name.

(* the per-resource filter test inside RESOURCES_ITER: LfVal true = print it.
   [term] = the bytes that follow a path / an attribute value inside its memory object: [0]
   for strings stored by coap_new_str_const (the library's copy), [] for an exact-size string
   handed over by the application (COAP_RESOURCE_FLAGS_RELEASE_URI, COAP_ATTR_FLAGS_RELEASE_NAME, COAP_ATTR_FLAGS_RELEASE_VALUE) *)
Definition lf_select (guard : bool) (term : bytes) (f : lf_filter) (r : lf_res) : lf_m bool :=
  if len (lf_pname f) =? 0 then LfVal true
  else if lf_uri f then
    lf_match guard {| lf_obj := lf_path r ++ term; lf_at := 0; lf_len := len (lf_path r) |}
             (lf_pat f) (lf_prefix f) (lf_substring f)
  else
    match lf_c_find_attr r (lf_pname f) with
    | None => LfVal false
    | Some a =>
      match lf_avalue a with
      | None => LfVal false
      | Some v =>
        let obj := v ++ term in
        (* if (attr->value->length >= 2 && attr->value->s[0] is a double quote) ; before the repair
           (guard = false) only s[0] was tested *)
        let quoted_r := if guard && (len v <? 2) then Some false
                        else match lf_rd obj 0 with
                             | None => None
                             | Some c => Some (c =? 34)
                             end in
        match quoted_r with
        | None => LfOob
        | Some quoted =>
          let text := if quoted then {| lf_obj := obj; lf_at := 1; lf_len := len v - 2 |}
                      else {| lf_obj := obj; lf_at := 0; lf_len := len v |} in
          if lf_len text <? 0 then LfOob     (* size_t underflow of a lone quote: wild reads *)
          else lf_match guard text (lf_pat f) (lf_prefix f) (lf_substring f)
        end
      end
    end.

(* ------------------------------------------------------------------ coap_print_wellknown_lkd *)

(* p (as rev bytes + position), offset, written, subsequent_resource *)
Record lf_wk := { lf_wrev : bytes; lf_wpos : Z; lf_woff : Z; lf_written : Z; lf_subseq : bool }.

Definition lf_wk_sep (buflen : Z) (w : lf_wk) : lf_wk :=
  if lf_subseq w then
    let s := lf_print_cond buflen {| lf_rev := lf_wrev w; lf_pos := lf_wpos w; lf_off := lf_woff w;
                                     lf_cnt := lf_written w |} 44 in
    {| lf_wrev := lf_rev s; lf_wpos := lf_pos s; lf_woff := lf_off s; lf_written := lf_cnt s;
       lf_subseq := true |}
  else {| lf_wrev := lf_wrev w; lf_wpos := lf_wpos w; lf_woff := lf_woff w;
          lf_written := lf_written w; lf_subseq := true |}.

(* RESOURCES_ITER body; the result carries the loop state at its end (or at the break) *)
Fixpoint lf_wk_loop (guard : bool) (term : bytes) (buflen : Z) (f : option lf_filter) (rs : list lf_res)
         (w : lf_wk) : lf_m lf_wk :=
  match rs with
  | [] => LfVal w
  | r :: tl =>
    if lf_beq (lf_path r) lf_wk_path then lf_wk_loop guard term buflen f tl w
    else
      match (match f with None => LfVal true | Some fl => lf_select guard term fl r end) with
      | LfOob => LfOob
      | LfFuel => LfFuel
      | LfVal false => lf_wk_loop guard term buflen f tl w
      | LfVal true =>
        let w1 := lf_wk_sep buflen w in
        let left := buflen - lf_wpos w1 in
        match lf_print_link r left (lf_woff w1) with
        | (LfError, _, _, off') =>      (* break: offset already advanced, p and written are not *)
          LfVal {| lf_wrev := lf_wrev w1; lf_wpos := lf_wpos w1; lf_woff := off';
                   lf_written := lf_written w1; lf_subseq := true |}
        | (LfDone cnt _, stored, total, off') =>
          (* p += COAP_PRINT_OUTPUT_LENGTH(result); written += left *)
          lf_wk_loop guard term buflen f tl
            {| lf_wrev := rev stored ++ lf_wrev w1; lf_wpos := lf_wpos w1 + cnt; lf_woff := off';
               lf_written := lf_written w1 + total; lf_subseq := true |}
        end
      end
  end.

(* what a call returns: status, bytes stored in buf, *buflen afterwards *)
Record lf_ret := { lf_rstatus : lf_status; lf_rbytes : bytes; lf_rtotal : Z }.

(* coap_print_wellknown_lkd(context, buf, &buflen, offset, query_filter) *)
Definition lf_print_wellknown_g (guard : bool) (term : bytes) (rs : list lf_res) (filter : option bytes)
           (off buflen : Z) : lf_m lf_ret :=
  let fl := match filter with
            | None => LfVal None
            | Some q => match lf_split_filter guard q with
                        | LfVal f => LfVal (Some f) | LfOob => LfOob | LfFuel => LfFuel end
            end in
  match fl with
  | LfOob => LfOob
  | LfFuel => LfFuel
  | LfVal f =>
    match lf_wk_loop guard term buflen f rs
            {| lf_wrev := []; lf_wpos := 0; lf_woff := off; lf_written := 0; lf_subseq := false |} with
    | LfOob => LfOob
    | LfFuel => LfFuel
    | LfVal w =>
      LfVal {| lf_rstatus := lf_status_of (lf_wpos w) off (lf_woff w) (lf_written w);
               lf_rbytes := rev (lf_wrev w); lf_rtotal := lf_written w |}
    end
  end.

(* the code as it is now (all length guards present), on strings stored by the library *)
Definition lf_print_wellknown := lf_print_wellknown_g true [0].

Definition lf_rtotal_of (r : lf_m lf_ret) : option Z :=
  match r with LfVal x => Some (lf_rtotal x) | _ => None end.

(* ------------------------------------------------------------------ hnd_get_wellknown_lkd *)

Definition lf_uint_max : Z := 4294967295.

(* what the handler hands to the response: 2.05 with a body (passed to the block-wise layer
   or put into the PDU), or 5.03 *)
Inductive lf_resp := Lf205 (body : bytes) | Lf503 | LfFault.

Definition lf_get_wellknown (rs : list lf_res) (query : option bytes) : lf_resp :=
  (* size probe: empty buffer, offset UINT_MAX *)
  match lf_print_wellknown rs query lf_uint_max 0 with
  | LfOob | LfFuel => LfFault
  | LfVal r1 =>
    match lf_rstatus r1 with
    | LfError => Lf503
    | LfDone _ _ =>
      let wkc_len := lf_rtotal r1 in
      if 0 <? wkc_len then
        match lf_print_wellknown rs query 0 wkc_len with
        | LfOob | LfFuel => LfFault
        | LfVal r2 =>
          match lf_rstatus r2 with
          | LfError => Lf503
          | LfDone _ _ =>
            (* data_string->s = buffer of wkc_len bytes, data_string->length = len (the
               reported total); bytes of the buffer that were not written are unspecified -
               they are modelled as missing, so a short write shows as a short body *)
            Lf205 (take (lf_rtotal r2) (lf_rbytes r2))
          end
        end
      else Lf205 []
    end
  end.

(* Block2 transfer of a body: block number n of size 2^(szx+4) and its More bit *)
Definition lf_block_size (szx : Z) : Z := 2 ^ (szx + 4).
Definition lf_block (body : bytes) (szx n : Z) : bytes * bool :=
  let sz := lf_block_size szx in
  (take sz (drop (n * sz) body), (n + 1) * sz <? len body).

(* the client side: ask for blocks 0,1,2,... until More is clear *)
Fixpoint lf_reassemble (fuel : nat) (body : bytes) (szx n : Z) : option bytes :=
  match fuel with
  | O => None
  | S k =>
    let '(b, more) := lf_block body szx n in
    if more then match lf_reassemble k body szx (n + 1) with Some r => Some (b ++ r) | None => None end
    else Some b
  end.

(* ------------------------------------------------------------------ request -> query string *)

(* is_unescaped_in_query (src/coap_uri.c): ALPHA / DIGIT / "-._~!$'()*+,;=:@" / "/" / "?";
   '&' is escaped inside an option because it separates the options in the string *)
Definition lf_unescaped_in_query (c : Z) : bool :=
  ((65 <=? c) && (c <=? 90)) || ((97 <=? c) && (c <=? 122)) || ((48 <=? c) && (c <=? 57)) ||
  existsb (Z.eqb c) [45; 46; 95; 126; 33; 36; 39; 40; 41; 42; 43; 44; 59; 61; 58; 64; 47; 63].

Definition lf_hex_digit (n : Z) : Z := if n <? 10 then 48 + n else 55 + n.

Fixpoint lf_escape_query (s : bytes) : bytes :=
  match s with
  | [] => []
  | c :: tl =>
    if lf_unescaped_in_query c then c :: lf_escape_query tl
    else 37 :: lf_hex_digit (c / 16) :: lf_hex_digit (c mod 16) :: lf_escape_query tl
  end.

Fixpoint lf_join_amp (ls : list bytes) : bytes :=
  match ls with
  | [] => []
  | x :: tl => match tl with [] => x | _ :: _ => x ++ 38 :: lf_join_amp tl end
  end.

(* coap_get_query(request) for the Uri-Query option values of the request, in order:
   NULL when the string would be empty *)
Definition lf_get_query (opts : list bytes) : option bytes :=
  let q := lf_join_amp (map lf_escape_query opts) in
  match q with [] => None | _ :: _ => Some q end.

(* wellknown_hexval / wellknown_unescape_query (src/coap_net.c): the handler undoes the %XX
   escapes of coap_get_query before it filters *)
Definition lf_hexval (c : Z) : option Z :=
  if (48 <=? c) && (c <=? 57) then Some (c - 48)
  else if (65 <=? c) && (c <=? 70) then Some (c - 55)
  else if (97 <=? c) && (c <=? 102) then Some (c - 87)
  else None.

Fixpoint lf_unescape_query (s : bytes) : bytes :=
  match s with
  | [] => []
  | c :: tl =>
    if c =? 37 then
      match tl with
      | h :: l :: tl2 =>
        match lf_hexval h, lf_hexval l with
        | Some a, Some b => (a * 16 + b) :: lf_unescape_query tl2
        | _, _ => c :: lf_unescape_query tl
        end
      | _ => c :: lf_unescape_query tl
      end
    else c :: lf_unescape_query tl
  end.

(* GET /.well-known/core with these Uri-Query options, COAP_BLOCK_USE_LIBCOAP set: the body
   handed to coap_add_data_large_response *)
Definition lf_handle_get (rs : list lf_res) (opts : list bytes) : lf_resp :=
  lf_get_wellknown rs (match lf_get_query opts with
                       | Some q => Some (lf_unescape_query q)
                       | None => None
                       end).

(* the handler before that repair: the escaped text went to the printer as it is *)
Definition lf_handle_get_escaped (rs : list lf_res) (opts : list bytes) : lf_resp :=
  lf_get_wellknown rs (lf_get_query opts).

(* the filter the request asks for: the bytes of its Uri-Query options, joined by '&' *)
Definition lf_raw_query (opts : list bytes) : option bytes :=
  match lf_join_amp opts with [] => None | q => Some q end.

(* without COAP_BLOCK_USE_LIBCOAP (block mode 0, the default of a new context) the handler
   now renders the listing for every request and hands it to coap_add_data_blocked_response,
   which serves block n of the requested size: lf_block (lf_handle_get ..) szx n.
   Before that repair the body was cut to the room left in the response PDU
   (max_size - used_size - 1) and sent as a complete response: *)
Definition lf_handle_get_nolib (rs : list lf_res) (opts : list bytes) (room : Z) : lf_resp :=
  match lf_handle_get rs opts with
  | Lf205 b => Lf205 (if room <? len b then take room b else b)
  | x => x
  end.

(* ------------------------------------------------------------------ who answers the GET *)

(* resource selection of handle_request() for GET /.well-known/core: an application resource
   registered under that path takes it; else an unknown-resource handler that has a GET handler
   AND asked for it with COAP_RESOURCE_HANDLE_WELLKNOWN_CORE; else the built-in handler
   (an unknown-resource handler without the flag is asked only for other unknown paths) *)
Inductive lf_target := LfToApp | LfToUnknown | LfToBuiltin.
Definition lf_wk_target (registered unk_get unk_flag : bool) : lf_target :=
  if registered then LfToApp
  else if unk_flag && unk_get then LfToUnknown
  else LfToBuiltin.

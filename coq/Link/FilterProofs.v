(* C20 - match() and the query-filter handling of coap_print_wellknown_lkd, transcribed with
   checked reads (pointer = object + index), compute the RFC 6690 section 4.1 relation
   lf_filter_spec and never read outside an object. *)
From LibcoapV Require Import Base.Tactics Base.Bytes Base.BytesProofs Link.LinkFormat Link.LinkProofs.
Local Open Scope Z_scope.

(* ------------------------------------------------------------------ lists *)

Lemma lf_skipn_nth {A} (l : list A) : forall n x,
  nth_error l n = Some x -> skipn n l = x :: skipn (S n) l.
Proof.
  induction l as [|y tl IH]; intros [|n] x H; cbn in H; try discriminate.
  - inversion H. reflexivity.
  - cbn [skipn]. rewrite (IH n x H). reflexivity.
Qed.

Lemma lf_take_succ {A} n (x : A) l : 0 <= n -> take (n + 1) (x :: l) = x :: take n l.
Proof.
  intros H. unfold take. replace (Z.to_nat (n + 1)) with (S (Z.to_nat n)) by lia. reflexivity.
Qed.

Lemma lf_drop_succ {A} n (x : A) l : 0 <= n -> drop (n + 1) (x :: l) = drop n l.
Proof.
  intros H. unfold drop. replace (Z.to_nat (n + 1)) with (S (Z.to_nat n)) by lia. reflexivity.
Qed.

Lemma lf_drop_0 {A} (l : list A) : drop 0 l = l.
Proof. reflexivity. Qed.

Lemma lf_take_take {A} a b (l : list A) : 0 <= a <= b -> take a (take b l) = take a l.
Proof.
  intros H. unfold take. rewrite firstn_firstn. f_equal. lia.
Qed.

Lemma lf_skipn_skipn {A} : forall b a (l : list A), skipn a (skipn b l) = skipn (b + a) l.
Proof.
  induction b as [|b IH]; intros a l; [reflexivity|].
  destruct l as [|x tl]; cbn [skipn Nat.add]; [apply skipn_nil|apply IH].
Qed.

Lemma lf_drop_drop {A} a b (l : list A) : 0 <= a -> 0 <= b -> drop a (drop b l) = drop (a + b) l.
Proof.
  intros Ha Hb. unfold drop. rewrite lf_skipn_skipn. f_equal. lia.
Qed.

Lemma lf_drop_take {A} a b (l : list A) : 0 <= a <= b -> drop a (take b l) = take (b - a) (drop a l).
Proof.
  intros H. unfold drop, take. rewrite skipn_firstn_comm. f_equal. lia.
Qed.

Lemma lf_beq_refl a : lf_beq a a = true.
Proof. induction a as [|x tl IH]; cbn [lf_beq]; [reflexivity|]. rewrite IH. lia. Qed.

Lemma lf_beq_eq a : forall b, lf_beq a b = true <-> a = b.
Proof.
  induction a as [|x tl IH]; intros [|y b']; cbn [lf_beq]; split; intros H; try reflexivity;
    try discriminate.
  - apply andb_true_iff in H. destruct H as [H1 H2]. apply IH in H2. f_equal; [lia|exact H2].
  - inversion H; subst. rewrite lf_beq_refl. lia.
Qed.

Lemma lf_beq_sym a : forall b, lf_beq a b = lf_beq b a.
Proof.
  induction a as [|x tl IH]; intros [|y b']; cbn [lf_beq]; try reflexivity.
  rewrite IH. f_equal. lia.
Qed.

Lemma lf_beq_len a : forall b, lf_beq a b = true -> len a = len b.
Proof. intros b H. apply lf_beq_eq in H. subst. reflexivity. Qed.

(* prefix test = length test + comparison of the first len p bytes *)
Lemma lf_prefixb_take p : forall s,
  lf_prefixb p s = (len p <=? len s) && lf_beq (take (len p) s) p.
Proof.
  induction p as [|x tl IH]; intros s.
  - cbn [lf_prefixb]. assert (H := len_nonneg s). change (len (@nil Z)) with 0.
    rewrite lf_take_0. cbn [lf_beq]. lia.
  - destruct s as [|y s']; cbn [lf_prefixb].
    + rewrite len_cons. change (len (@nil Z)) with 0. assert (H := len_nonneg tl).
      replace (1 + len tl <=? 0) with false by lia. reflexivity.
    + rewrite IH. rewrite !len_cons. assert (H := len_nonneg tl).
      replace (1 + len tl) with (len tl + 1) by lia. rewrite lf_take_succ by lia.
      cbn [lf_beq]. replace (len tl + 1 <=? 1 + len s') with (len tl <=? len s') by lia.
      rewrite (Z.eqb_sym y x). destruct (x =? y); destruct (len tl <=? len s'); reflexivity.
Qed.

Lemma lf_prefixb_spec p s : lf_prefixb p s = true <-> exists t, s = p ++ t.
Proof.
  revert s. induction p as [|x tl IH]; intros s; cbn [lf_prefixb].
  - split; intros _; [exists s|]; reflexivity.
  - destruct s as [|y s'].
    + split; [discriminate|]. intros (t & Ht). discriminate.
    + rewrite andb_true_iff, IH. split.
      * intros (H1 & t & Ht). exists t. subst. cbn [app]. f_equal. lia.
      * intros (t & Ht). inversion Ht; subst. split; [lia|]. exists t. reflexivity.
Qed.

(* ------------------------------------------------------------------ checked reads *)

Definition lf_view (s : lf_str) : bytes := take (lf_len s) (drop (lf_at s) (lf_obj s)).
Definition lf_inb (s : lf_str) : Prop :=
  0 <= lf_at s /\ 0 <= lf_len s /\ lf_at s + lf_len s <= len (lf_obj s).

Lemma lf_len_view s : lf_inb s -> len (lf_view s) = lf_len s.
Proof.
  intros (H1 & H2 & H3). unfold lf_view. rewrite lf_len_take, lf_len_drop; lia.
Qed.

Lemma lf_rd_some m i : 0 <= i < len m ->
  exists x, lf_rd m i = Some x /\ drop i m = x :: drop (i + 1) m.
Proof.
  intros H. unfold lf_rd. replace ((0 <=? i) && (i <? len m)) with true by lia.
  unfold len in H. destruct (nth_error m (Z.to_nat i)) eqn:E.
  - exists z. split; [reflexivity|]. unfold drop.
    replace (Z.to_nat (i + 1)) with (S (Z.to_nat i)) by lia. apply lf_skipn_nth. exact E.
  - apply nth_error_None in E. lia.
Qed.

Lemma lf_rd_none m i : i < 0 \/ len m <= i -> lf_rd m i = None.
Proof.
  intros H. unfold lf_rd. replace ((0 <=? i) && (i <? len m)) with false by lia. reflexivity.
Qed.

Lemma lf_memeq_ok n : forall a i b j,
  0 <= i -> 0 <= j -> i + Z.of_nat n <= len a -> j + Z.of_nat n <= len b ->
  lf_memeq a i b j n =
  Some (lf_beq (take (Z.of_nat n) (drop i a)) (take (Z.of_nat n) (drop j b))).
Proof.
  induction n as [|k IH]; intros a i b j Hi Hj Ha Hb.
  - reflexivity.
  - cbn [lf_memeq].
    destruct (lf_rd_some a i) as (x & Hx & Dx); [lia|].
    destruct (lf_rd_some b j) as (y & Hy & Dy); [lia|].
    rewrite Hx, Hy, IH by lia. rewrite Dx, Dy.
    replace (Z.of_nat (S k)) with (Z.of_nat k + 1) by lia.
    rewrite !lf_take_succ by lia. reflexivity.
Qed.

(* position of the first c *)
Fixpoint lf_index (c : Z) (t : bytes) : option Z :=
  match t with
  | [] => None
  | x :: tl => if x =? c then Some 0
               else match lf_index c tl with Some k => Some (k + 1) | None => None end
  end.

Lemma lf_index_range c t : forall k, lf_index c t = Some k -> 0 <= k < len t.
Proof.
  induction t as [|x tl IH]; intros k H; cbn [lf_index] in H; [discriminate|].
  rewrite len_cons. assert (Hl := len_nonneg tl).
  destruct (x =? c).
  - inversion H. lia.
  - destruct (lf_index c tl) as [k'|]; [|discriminate]. inversion H. specialize (IH k' eq_refl). lia.
Qed.

Lemma lf_memchr_ok n : forall m i c,
  0 <= i -> i + Z.of_nat n <= len m ->
  lf_memchr m i n c =
  Some (match lf_index c (take (Z.of_nat n) (drop i m)) with Some k => Some (i + k) | None => None end).
Proof.
  induction n as [|k IH]; intros m i c Hi Hm.
  - reflexivity.
  - cbn [lf_memchr].
    destruct (lf_rd_some m i) as (x & Hx & Dx); [lia|].
    rewrite Hx, Dx. replace (Z.of_nat (S k)) with (Z.of_nat k + 1) by lia.
    rewrite lf_take_succ by lia. cbn [lf_index].
    destruct (x =? c).
    + f_equal. f_equal. lia.
    + rewrite IH by lia. destruct (lf_index c (take (Z.of_nat k) (drop (i + 1) m))); f_equal.
      f_equal. lia.
Qed.

(* ------------------------------------------------------------------ tokens *)

Lemma lf_tokens_aux_index t : forall cur,
  lf_tokens_aux cur t =
  match lf_index 32 t with
  | None => match cur ++ t with [] => [] | _ :: _ => [cur ++ t] end
  | Some k => (cur ++ take k t) :: lf_tokens_aux [] (drop (k + 1) t)
  end.
Proof.
  induction t as [|c tl IH]; intros cur; cbn [lf_tokens_aux lf_index].
  - rewrite app_nil_r. reflexivity.
  - destruct (c =? 32) eqn:E.
    + rewrite lf_take_0, app_nil_r. reflexivity.
    + rewrite IH. destruct (lf_index 32 tl) as [k|] eqn:Ek.
      * assert (Hk := lf_index_range _ _ _ Ek).
        rewrite lf_take_succ by lia. rewrite lf_drop_succ by lia.
        rewrite <- app_assoc. reflexivity.
      * rewrite <- app_assoc. reflexivity.
Qed.

Lemma lf_tokens_index t :
  lf_tokens t =
  match lf_index 32 t with
  | None => match t with [] => [] | _ :: _ => [t] end
  | Some k => take k t :: lf_tokens (drop (k + 1) t)
  end.
Proof. unfold lf_tokens. rewrite lf_tokens_aux_index. reflexivity. Qed.

Lemma lf_tokens_len t : forall n tok, (length t <= n)%nat -> In tok (lf_tokens t) -> len tok <= len t.
Proof.
  intros n. revert t. induction n as [|n IH]; intros t tok Hn Hin.
  - destruct t; [|cbn in Hn; lia]. cbn in Hin. contradiction.
  - rewrite lf_tokens_index in Hin. destruct (lf_index 32 t) as [k|] eqn:Ek.
    + assert (Hk := lf_index_range _ _ _ Ek). destruct Hin as [Hin|Hin].
      * subst tok. rewrite lf_len_take; lia.
      * assert (Hl : len (drop (k + 1) t) = len t - (k + 1)) by (rewrite lf_len_drop; lia).
        apply IH in Hin; [lia|]. unfold len in *. lia.
    + destruct t; [contradiction|]. destruct Hin as [Hin|[]]. subst. lia.
Qed.

(* ------------------------------------------------------------------ match() *)

(* the test applied to one token (repaired code): length condition, then memcmp *)
Lemma lf_token_test obj next tlen p (prefix : bool) :
  0 <= next -> 0 <= tlen -> next + tlen <= len obj -> lf_inb p ->
  (if (if prefix then lf_len p <=? tlen else lf_len p =? tlen)
   then lf_memeq obj next (lf_obj p) (lf_at p) (Z.to_nat (lf_len p)) else Some false) =
  Some (lf_str_match prefix (lf_view p) (take tlen (drop next obj))).
Proof.
  intros Hn Ht Ho Hp. assert (Hv := lf_len_view p Hp). destruct Hp as (P1 & P2 & P3).
  assert (Hl : len (take tlen (drop next obj)) = tlen) by (rewrite lf_len_take, lf_len_drop; lia).
  unfold lf_str_match. destruct prefix.
  - rewrite lf_prefixb_take, Hv, Hl. destruct (lf_len p <=? tlen) eqn:E; [|reflexivity].
    rewrite lf_memeq_ok by lia. rewrite Z2Nat.id by lia. cbn [andb].
    rewrite lf_take_take by lia. reflexivity.
  - destruct (lf_len p =? tlen) eqn:E.
    + rewrite lf_memeq_ok by lia. rewrite Z2Nat.id by lia.
      replace tlen with (lf_len p) by lia. rewrite lf_beq_sym. reflexivity.
    + destruct (lf_beq (lf_view p) (take tlen (drop next obj))) eqn:B; [|reflexivity].
      apply lf_beq_len in B. lia.
Qed.

Lemma lf_match_loop_ok fuel : forall obj next remaining p prefix,
  0 <= next -> 0 <= remaining -> next + remaining <= len obj -> lf_inb p ->
  (Z.to_nat remaining < fuel)%nat ->
  lf_match_loop true fuel obj next remaining p prefix =
  LfVal (existsb (lf_str_match prefix (lf_view p)) (lf_tokens (take remaining (drop next obj)))).
Proof.
  induction fuel as [|fuel IH]; intros obj next remaining p prefix Hn Hr Ho Hp Hf; [lia|].
  cbn [lf_match_loop].
  destruct (remaining =? 0) eqn:E0.
  { replace remaining with 0 by lia. rewrite lf_take_0. reflexivity. }
  rewrite lf_memchr_ok by lia. rewrite Z2Nat.id by lia.
  set (t := take remaining (drop next obj)).
  assert (Hlt : len t = remaining) by (subst t; rewrite lf_len_take, lf_len_drop; lia).
  rewrite (lf_tokens_index t).
  destruct (lf_index 32 t) as [k|] eqn:Ek.
  - assert (Hk := lf_index_range _ _ _ Ek). rewrite Hlt in Hk.
    replace (next + k - next) with k by lia.
    assert (Htok : take k t = take k (drop next obj)) by (subst t; apply lf_take_take; lia).
    assert (Hrest : drop (k + 1) t = take (remaining - (k + 1)) (drop (next + k + 1) obj)).
    { subst t. rewrite lf_drop_take by lia. rewrite lf_drop_drop by lia. f_equal. f_equal. lia. }
    assert (Hrec := IH obj (next + k + 1) (remaining - (k + 1)) p prefix).
    rewrite <- Hrest in Hrec.
    assert (Htest := lf_token_test obj next k p prefix Hn (proj1 Hk)). rewrite <- Htok in Htest.
    cbn [existsb]. cbv zeta.
    replace (if prefix then if true then lf_len p <=? k else true else lf_len p =? k)
      with (if prefix then lf_len p <=? k else lf_len p =? k) by (destruct prefix; reflexivity).
    destruct (if prefix then lf_len p <=? k else lf_len p =? k).
    + rewrite Htest by (auto; lia).
      destruct (lf_str_match prefix (lf_view p) (take k t)); [reflexivity|].
      cbn [orb]. apply Hrec; auto; lia.
    + assert (Some false = Some (lf_str_match prefix (lf_view p) (take k t))) as Hfalse
        by (apply Htest; auto; lia).
      injection Hfalse as Hf2. rewrite <- Hf2. cbn [orb]. apply Hrec; auto; lia.
  - assert (Htest := lf_token_test obj next remaining p prefix Hn Hr Ho Hp). fold t in Htest.
    destruct t as [|t0 ttl] eqn:Et; [change (len (@nil Z)) with 0 in Hlt; lia|].
    cbn [existsb]. cbv zeta.
    replace (if prefix then if true then lf_len p <=? remaining else true else lf_len p =? remaining)
      with (if prefix then lf_len p <=? remaining else lf_len p =? remaining)
      by (destruct prefix; reflexivity).
    assert (Hlast : forall f o n, lf_match_loop true f o n 0 p prefix = LfVal false).
    { intros f o n. destruct f; reflexivity. }
    destruct (if prefix then lf_len p <=? remaining else lf_len p =? remaining).
    + rewrite Htest. destruct (lf_str_match prefix (lf_view p) (t0 :: ttl)); [reflexivity|].
      rewrite Hlast. reflexivity.
    + injection Htest as Hf2. rewrite <- Hf2. rewrite Hlast. reflexivity.
Qed.

(* match() on in-bounds operands = the matching relation; never a read outside, never out of
   fuel *)
Theorem lf_match_ok text p prefix substring :
  lf_inb text -> lf_inb p ->
  lf_match true text (Some p) prefix substring =
  LfVal (if substring then existsb (lf_str_match prefix (lf_view p)) (lf_tokens (lf_view text))
         else lf_str_match prefix (lf_view p) (lf_view text)).
Proof.
  intros Ht Hp. assert (Hvt := lf_len_view text Ht). assert (Hvp := lf_len_view p Hp).
  unfold lf_match. destruct (lf_len text <? lf_len p) eqn:E.
  - (* the text is shorter than the pattern: nothing can match *)
    f_equal. symmetry. destruct substring.
    + apply not_true_iff_false. intros H. apply existsb_exists in H. destruct H as (tok & Hin & Hm).
      apply (lf_tokens_len _ (length (lf_view text))) in Hin; [|lia].
      unfold lf_str_match in Hm. destruct prefix.
      * rewrite lf_prefixb_take in Hm. lia.
      * apply lf_beq_len in Hm. lia.
    + unfold lf_str_match. destruct prefix.
      * rewrite lf_prefixb_take. lia.
      * destruct (lf_beq (lf_view p) (lf_view text)) eqn:B; [|reflexivity].
        apply lf_beq_len in B. lia.
  - destruct Ht as (T1 & T2 & T3). destruct substring.
    + apply lf_match_loop_ok; auto; lia.
    + assert (Htest := lf_token_test (lf_obj text) (lf_at text) (lf_len text) p prefix T1 T2 T3 Hp).
      fold (lf_view text) in Htest.
      replace (prefix || (lf_len p =? lf_len text))
        with (if prefix then lf_len p <=? lf_len text else lf_len p =? lf_len text)
        by (destruct prefix; cbn [orb]; lia).
      destruct (if prefix then lf_len p <=? lf_len text else lf_len p =? lf_len text).
      * rewrite Htest. reflexivity.
      * inversion Htest. reflexivity.
Qed.

(* ------------------------------------------------------------------ splitting the query *)

Lemma lf_param_len_before q : forall i, lf_param_len q i = i + len (lf_before_eq q).
Proof.
  induction q as [|c tl IH]; intros i; cbn [lf_param_len lf_before_eq].
  - change (len (@nil Z)) with 0. lia.
  - destruct (c =? 61).
    + change (len (@nil Z)) with 0. lia.
    + rewrite IH, len_cons. lia.
Qed.

Lemma lf_eq_split q :
  match lf_after_eq q with
  | None => lf_before_eq q = q
  | Some p0 => q = lf_before_eq q ++ 61 :: p0
  end.
Proof.
  induction q as [|c tl IH]; cbn [lf_after_eq lf_before_eq]; [reflexivity|].
  destruct (c =? 61) eqn:E.
  - cbn [app]. f_equal. lia.
  - destruct (lf_after_eq tl); cbn [app]; f_equal; exact IH.
Qed.

Lemma lf_take_split {A} n (l : list A) : 0 < n -> take n l = take (n - 1) l ++ take 1 (drop (n - 1) l).
Proof.
  intros H. rewrite <- (take_drop (n - 1) (take n l)).
  rewrite lf_take_take by lia. f_equal.
  rewrite lf_drop_take by lia. f_equal. lia.
Qed.

(* the last byte of a non-empty in-bounds view *)
Lemma lf_view_last obj at0 l :
  0 <= at0 -> 0 < l -> at0 + l <= len obj ->
  exists e, lf_rd obj (at0 + l - 1) = Some e /\
            take l (drop at0 obj) = take (l - 1) (drop at0 obj) ++ [e].
Proof.
  intros Ha Hl Ho. destruct (lf_rd_some obj (at0 + l - 1)) as (e & He & De); [lia|].
  exists e. split; [exact He|]. rewrite (lf_take_split l) by lia. f_equal.
  rewrite lf_drop_drop by lia. replace (l - 1 + at0) with (at0 + l - 1) by lia.
  rewrite De. reflexivity.
Qed.

Definition lf_filter_ok (q : bytes) (f : lf_filter) : Prop :=
  lf_pname f = lf_before_eq q /\
  match lf_after_eq q with
  | None => lf_pat f = None /\ lf_uri f = false
  | Some p0 =>
    lf_uri f = lf_beq (lf_before_eq q) lf_href /\
    lf_substring f = lf_is_token_attr (lf_before_eq q) /\
    exists ps, lf_pat f = Some ps /\ lf_inb ps /\
      (lf_view ps, lf_prefix f) = lf_strip_star (if lf_uri f then lf_strip_slash p0 else p0)
  end.

Lemma lf_strip_star_view obj at1 l1 :
  0 <= at1 -> 0 <= l1 -> at1 + l1 <= len obj ->
  exists ps pfx,
    (if negb (l1 =? 0) then
       match lf_rd obj (at1 + l1 - 1) with
       | None => None
       | Some e => if e =? 42 then Some ({| lf_obj := obj; lf_at := at1; lf_len := l1 - 1 |}, true)
                   else Some ({| lf_obj := obj; lf_at := at1; lf_len := l1 |}, false)
       end
     else Some ({| lf_obj := obj; lf_at := at1; lf_len := l1 |}, false)) = Some (ps, pfx) /\
    lf_inb ps /\ lf_obj ps = obj /\
    (lf_view ps, pfx) = lf_strip_star (take l1 (drop at1 obj)).
Proof.
  intros Ha Hl Ho. destruct (l1 =? 0) eqn:E; cbn [negb].
  - eexists. eexists. split; [reflexivity|]. replace l1 with 0 by lia.
    split; [unfold lf_inb; cbn; lia|]. split; [reflexivity|]. reflexivity.
  - destruct (lf_view_last obj at1 l1) as (e & He & Hv); try lia.
    rewrite He. unfold lf_strip_star. rewrite Hv, rev_app_distr. cbn [rev app].
    destruct (e =? 42); eexists; eexists; (split; [reflexivity|]).
    + split; [unfold lf_inb; cbn [lf_at lf_len lf_obj]; lia|]. split; [reflexivity|].
      rewrite rev_involutive. reflexivity.
    + split; [unfold lf_inb; cbn [lf_at lf_len lf_obj]; lia|]. split; [reflexivity|].
      unfold lf_view. cbn [lf_at lf_len lf_obj]. rewrite Hv. reflexivity.
Qed.

Lemma lf_href_flag name : (len name =? 4) && lf_beq name lf_href = lf_beq name lf_href.
Proof.
  destruct (lf_beq name lf_href) eqn:E; [|apply andb_false_r].
  apply lf_beq_len in E. rewrite E. reflexivity.
Qed.

(* the split never reads outside the query string and yields the parts the specification
   names *)
Theorem lf_split_filter_ok q : exists f, lf_split_filter true q = LfVal f /\ lf_filter_ok q f.
Proof.
  unfold lf_split_filter. rewrite lf_param_len_before. cbn [Z.add].
  set (name := lf_before_eq q). assert (Hsp := lf_eq_split q). fold name in Hsp.
  assert (Hn := len_nonneg name).
  destruct (lf_after_eq q) as [p0|] eqn:Ea.
  - assert (Hp0 := len_nonneg p0).
    assert (Hlq : len q = len name + 1 + len p0) by (rewrite Hsp at 1; rewrite len_app, len_cons; lia).
    replace (len name <? len q) with true by lia.
    assert (Htn : take (len name) q = name) by (rewrite Hsp at 1; apply take_app_exact).
    rewrite Htn, lf_href_flag.
    assert (Hd0 : drop (len name + 1) q = p0).
    { rewrite Hsp at 1. replace (name ++ 61 :: p0) with ((name ++ [61]) ++ p0)
        by (rewrite <- app_assoc; reflexivity).
      replace (len name + 1) with (len (name ++ [61])) by (rewrite len_app; reflexivity).
      apply drop_app_exact. }
    replace (len q - (len name + 1)) with (len p0) by lia.
    cbn [andb].
    set (uri := lf_beq name lf_href).
    (* the stripped pattern as a view *)
    assert (exists strip, (if len p0 =? 0 then Some false
                           else match lf_rd q (len name + 1) with
                                | Some c => Some ((c =? 47) && uri) | None => None end) = Some strip /\
              take (if strip then len p0 - 1 else len p0)
                   (drop (if strip then len name + 1 + 1 else len name + 1) q) =
              (if uri then lf_strip_slash p0 else p0) /\
              0 <= (if strip then len p0 - 1 else len p0)) as (strip & Hs & Hview & Hl1).
    { destruct (len p0 =? 0) eqn:E0.
      - exists false. split; [reflexivity|]. rewrite Hd0. split; [|lia].
        destruct p0; [|rewrite len_cons in E0; assert (X := len_nonneg p0); lia].
        destruct uri; reflexivity.
      - destruct (lf_rd_some q (len name + 1)) as (c & Hc & Dc); [lia|].
        rewrite Hc. exists ((c =? 47) && uri). split; [reflexivity|].
        rewrite Hd0 in Dc. rewrite Dc in *. rewrite len_cons in *.
        assert (X := len_nonneg (drop (len name + 1 + 1) q)).
        destruct uri; cbn [lf_strip_slash]; destruct (c =? 47); cbn [andb].
        + split; [|lia]. apply lf_take_all. lia.
        + split; [|lia]. rewrite Hd0. apply lf_take_all. rewrite len_cons. lia.
        + split; [|lia]. rewrite Hd0. apply lf_take_all. rewrite len_cons. lia.
        + split; [|lia]. rewrite Hd0. apply lf_take_all. rewrite len_cons. lia. }
    rewrite Hs.
    destruct (lf_strip_star_view q (if strip then len name + 1 + 1 else len name + 1)
                (if strip then len p0 - 1 else len p0)) as (ps & pfx & Hrun & Hinb & Hobj & Hstar).
    { destruct strip; lia. } { exact Hl1. }
    { destruct strip; [|lia]. destruct (len p0 =? 0) eqn:E0; [discriminate|]. lia. }
    rewrite Hview in Hstar.
    destruct (negb ((if strip then len p0 - 1 else len p0) =? 0)).
    + match type of Hrun with match ?X with _ => _ end = _ => destruct X as [e|] end; [|discriminate].
      destruct (e =? 42); injection Hrun as <- <-;
        (eexists; split; [reflexivity|]); (split; [reflexivity|]); rewrite Ea;
        cbn [lf_uri lf_substring lf_pat lf_prefix]; fold name;
        (split; [reflexivity|]); (split; [reflexivity|]); eexists; (split; [reflexivity|]);
        (split; [exact Hinb|exact Hstar]).
    + injection Hrun as <- <-.
      eexists; split; [reflexivity|]. split; [reflexivity|]. rewrite Ea.
      cbn [lf_uri lf_substring lf_pat lf_prefix]. fold name.
      split; [reflexivity|]. split; [reflexivity|]. eexists. split; [reflexivity|].
      split; [exact Hinb|exact Hstar].
  - unfold name in *. clear name. rewrite Hsp. replace (len q <? len q) with false by lia.
    eexists. split; [reflexivity|]. split.
    + cbn [lf_pname]. rewrite Hsp. apply lf_take_all. lia.
    + rewrite Ea. cbn [lf_pat lf_uri]. auto.
Qed.

(* ------------------------------------------------------------------ the per-resource test *)

Lemma lf_find_attr_ok l n a : lf_find_attr l n = Some a -> In a l.
Proof.
  induction l as [|x tl IH]; cbn [lf_find_attr]; [discriminate|].
  destruct (lf_beq (lf_aname x) n).
  - intros H. inversion H. left. reflexivity.
  - intros H. right. apply IH. exact H.
Qed.

(* the text coap_print_wellknown_lkd hands to match() for an attribute value *)
Lemma lf_unquote_view v term :
  exists quoted,
    (if len v <? 2 then Some false
     else match lf_rd (v ++ term) 0 with None => None | Some c => Some (c =? 34) end) = Some quoted /\
    let text := if quoted then {| lf_obj := v ++ term; lf_at := 1; lf_len := len v - 2 |}
                else {| lf_obj := v ++ term; lf_at := 0; lf_len := len v |} in
    lf_inb text /\ lf_view text = lf_unquote v.
Proof.
  assert (Hv := len_nonneg v).
  assert (Hplain : lf_inb {| lf_obj := v ++ term; lf_at := 0; lf_len := len v |} /\
                   lf_view {| lf_obj := v ++ term; lf_at := 0; lf_len := len v |} = v).
  { split.
    - unfold lf_inb. cbn [lf_at lf_len lf_obj]. rewrite len_app. assert (X := len_nonneg term). lia.
    - unfold lf_view. cbn [lf_at lf_len lf_obj]. rewrite lf_drop_0. apply take_app_exact. }
  destruct (len v <? 2) eqn:E2.
  - exists false. split; [reflexivity|]. cbv zeta.
    destruct Hplain as [Hi Hw]. split; [exact Hi|]. rewrite Hw.
    destruct v as [|x tl]; [reflexivity|]. cbn [lf_unquote].
    rewrite len_cons in E2. assert (X := len_nonneg tl).
    replace (len tl =? 0) with true by lia. rewrite andb_false_r. reflexivity.
  - destruct v as [|x tl]; [change (len (@nil Z)) with 0 in E2; lia|].
    exists (x =? 34). split; [reflexivity|]. cbv zeta. cbn [lf_unquote].
    rewrite len_cons in E2. assert (X := len_nonneg tl).
    replace (len tl =? 0) with false by lia. rewrite andb_true_r.
    destruct (x =? 34) eqn:E.
    + destruct tl as [|y tl']; [change (len (@nil Z)) with 0 in E2; lia|].
      assert (Hl := len_nonneg tl'). rewrite !len_cons.
      split.
      * unfold lf_inb. cbn [lf_at lf_len lf_obj]. rewrite len_app, !len_cons.
        assert (X2 := len_nonneg term). lia.
      * unfold lf_view. cbn [lf_at lf_len lf_obj].
        change (drop 1 ((x :: y :: tl') ++ term)) with ((y :: tl') ++ term).
        rewrite lf_take_app by lia. rewrite len_cons.
        replace (Z.max 0 (1 + (1 + len tl') - 2 - (1 + len tl'))) with 0 by lia.
        rewrite lf_take_0, app_nil_r. rewrite removelast_firstn_len.
        unfold take. f_equal. cbn [length]. unfold len. lia.
    + exact Hplain.
Qed.

(* C20_filter_spec: the code's per-resource decision is the RFC relation *)
Theorem lf_select_ok term q f r :
  lf_filter_ok q f ->
  lf_select true term f r = LfVal (lf_filter_spec q r).
Proof.
  intros (Hname & Hrest). unfold lf_select, lf_filter_spec. rewrite Hname.
  destruct (lf_before_eq q) as [|n0 ntl] eqn:En.
  { reflexivity. }
  rewrite len_cons. assert (Hl := len_nonneg ntl). replace (1 + len ntl =? 0) with false by lia.
  destruct (lf_after_eq q) as [p0|] eqn:Ea.
  - destruct Hrest as (Huri & Hsub & ps & Hpat & Hinb & Hstar).
    rewrite Hpat. destruct (lf_uri f) eqn:Eu.
    + (* href *)
      rewrite <- Huri.
      assert (lf_substring f = false) as Hs0.
      { rewrite Hsub. symmetry in Huri. apply lf_beq_eq in Huri. rewrite Huri. reflexivity. }
      rewrite lf_match_ok; [|unfold lf_inb; cbn [lf_at lf_len lf_obj]; rewrite len_app;
                             assert (X := len_nonneg (lf_path r)); assert (X2 := len_nonneg term); lia|exact Hinb].
      rewrite Hs0. unfold lf_view at 2. cbn [lf_at lf_len lf_obj]. rewrite lf_drop_0, take_app_exact.
      destruct (lf_strip_star (lf_strip_slash p0)) as [p pfx]. inversion Hstar. reflexivity.
    + rewrite <- Huri.
      destruct (lf_strip_star p0) as [p pfx] eqn:Es. inversion Hstar as [[Hv Hp]].
      unfold lf_c_find_attr.
      destruct (lf_find_attr (lf_attrs r) (n0 :: ntl)) as [a|] eqn:Ef; [|reflexivity].
      destruct (lf_avalue a) as [v|] eqn:Ev; [|reflexivity].
      destruct (lf_unquote_view v term) as (quoted & Hq & Htext). cbn [andb]. rewrite Hq.
      cbv zeta in Htext. destruct Htext as (Htin & Htv).
      set (text := if quoted then _ else _) in *.
      assert (lf_len text <? 0 = false) as Hneg by (destruct Htin as (_ & ? & _); lia).
      rewrite Hneg. rewrite lf_match_ok by assumption.
      rewrite Htv, Hsub. reflexivity.
  - destruct Hrest as (Hpat & Huri). rewrite Hpat, Huri.
    unfold lf_c_find_attr.
    destruct (lf_find_attr (lf_attrs r) (n0 :: ntl)) as [a|] eqn:Ef; [|reflexivity].
    destruct (lf_avalue a) as [v|] eqn:Ev; [|reflexivity].
    destruct (lf_unquote_view v term) as (quoted & Hq & Htext). cbn [andb]. rewrite Hq.
    cbv zeta in Htext. destruct Htext as (Htin & Htv).
    set (text := if quoted then _ else _) in *.
    assert (lf_len text <? 0 = false) as Hneg by (destruct Htin as (_ & ? & _); lia).
    rewrite Hneg. reflexivity.
Qed.

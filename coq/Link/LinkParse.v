(* C20 - a reader for the link-format (RFC 6690 section 2: link-value list with link-params),
   used to state that the listing determines the registered resources: what a client parses
   out of the listing is exactly the table.  Definitions only; proofs in LinkParseProofs.v. *)
From Coq Require Import ZArith List Bool.
From LibcoapV Require Import Base.Bytes Link.LinkFormat.
Import ListNotations.
Local Open Scope Z_scope.

(* longest prefix without a byte that satisfies [stop], and the rest *)
Fixpoint lf_span (stop : Z -> bool) (s : bytes) : bytes * bytes :=
  match s with
  | [] => ([], [])
  | c :: tl => if stop c then ([], s) else let '(a, b) := lf_span stop tl in (c :: a, b)
  end.

Definition lf_is_delim (c : Z) : bool := (c =? 59) || (c =? 44).        (* ';' ',' *)
Definition lf_is_name_end (c : Z) : bool := lf_is_delim c || (c =? 61).  (* ';' ',' '=' *)
Definition lf_is_quote (c : Z) : bool := c =? 34.
Definition lf_is_gt (c : Z) : bool := c =? 62.

(* one link-param; [s] starts behind its ';'.  parmname [ "=" ( quoted-string | ptoken ) ] *)
Definition lf_parse_param (s : bytes) : option (lf_attr * bytes) :=
  let '(name, r) := lf_span lf_is_name_end s in
  match r with
  | c :: r1 =>
    if c =? 61 then
      match r1 with
      | d :: r2 =>
        if d =? 34 then
          let '(inner, r3) := lf_span lf_is_quote r2 in
          match r3 with
          | _ :: r4 => Some ({| lf_aname := name; lf_avalue := Some (34 :: inner ++ [34]) |}, r4)
          | [] => None                                   (* no closing quote *)
          end
        else
          let '(v, r3) := lf_span lf_is_delim r1 in
          Some ({| lf_aname := name; lf_avalue := Some v |}, r3)
      | [] => Some ({| lf_aname := name; lf_avalue := Some [] |}, [])
      end
    else Some ({| lf_aname := name; lf_avalue := None |}, r)
  | [] => Some ({| lf_aname := name; lf_avalue := None |}, [])
  end.

(* the params of one link: (params, None) at the end of the input, (params, Some rest) when a
   ',' and the next link follow *)
Fixpoint lf_parse_params (fuel : nat) (s : bytes) : option (list lf_attr * option bytes) :=
  match fuel with
  | O => None
  | S k =>
    match s with
    | [] => Some ([], None)
    | c :: tl =>
      if c =? 59 then
        match lf_parse_param tl with
        | Some (a, r) =>
          match lf_parse_params k r with
          | Some (l, more) => Some (a :: l, more)
          | None => None
          end
        | None => None
        end
      else if c =? 44 then Some ([], Some tl)
      else None
    end
  end.

(* "<" "/" path ">" params *( "," link ) ; a link is (path, params) *)
Fixpoint lf_parse_links (fuel : nat) (s : bytes) : option (list (bytes * list lf_attr)) :=
  match fuel with
  | O => None
  | S k =>
    match s with
    | a :: b :: r =>
      if (a =? 60) && (b =? 47) then
        let '(path, r1) := lf_span lf_is_gt r in
        match r1 with
        | _ :: r2 =>
          match lf_parse_params (S (length r2)) r2 with
          | Some (attrs, None) => Some [(path, attrs)]
          | Some (attrs, Some r3) =>
            match lf_parse_links k r3 with
            | Some l => Some ((path, attrs) :: l)
            | None => None
            end
          | None => None
          end
        | [] => None
        end
      else None
    | _ => None
    end
  end.

Definition lf_parse (s : bytes) : option (list (bytes * list lf_attr)) :=
  match s with [] => Some [] | _ :: _ => lf_parse_links (S (length s)) s end.

(* what a reader sees of a resource: the path and the params in order; the observable and
   OSCORE markers are the value-less params "obs" and "osc" behind the attributes *)
Definition lf_marker (name : bytes) : lf_attr := {| lf_aname := name; lf_avalue := None |}.
Definition lf_canon (r : lf_res) : bytes * list lf_attr :=
  (lf_path r,
   lf_attrs r ++ (if lf_obs r then [lf_marker [111; 98; 115]] else [])
              ++ (if lf_osc r then [lf_marker [111; 115; 99]] else [])).

(* resources whose text is unambiguous link-format: no '>' in the path, no ';' ',' '=' in a
   name, a value either a quoted-string without inner quote or free of ';' ',' and not
   starting with a quote *)
Definition lf_clean_value (v : bytes) : bool :=
  match v with
  | [] => true
  | c :: tl =>
    if c =? 34 then
      match rev tl with
      | q :: rin => (q =? 34) && forallb (fun x => negb (lf_is_quote x)) rin
      | [] => false
      end
    else forallb (fun x => negb (lf_is_delim x)) v
  end.
Definition lf_clean_attr (a : lf_attr) : bool :=
  forallb (fun x => negb (lf_is_name_end x)) (lf_aname a) &&
  match lf_avalue a with Some v => lf_clean_value v | None => true end.
Definition lf_clean_res (r : lf_res) : bool :=
  forallb (fun x => negb (lf_is_gt x)) (lf_path r) && forallb lf_clean_attr (lf_attrs r).

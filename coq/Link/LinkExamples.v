(* C20 - characterisation of the token split, concrete instances (the hypotheses of the
   theorems are met by non-trivial tables) and the witnesses against the code as it was before
   the two repairs (guard = false). *)
From LibcoapV Require Import Base.Tactics Base.Bytes Base.BytesProofs Link.LinkFormat
  Link.LinkProofs Link.FilterProofs Link.WellknownProofs.
Local Open Scope Z_scope.

(* ------------------------------------------------------------------ tokens, by equations *)

Lemma lf_tokens_aux_nospace a : forall cur,
  ~ In 32 a -> lf_tokens_aux cur a = match cur ++ a with [] => [] | _ :: _ => [cur ++ a] end.
Proof.
  induction a as [|c tl IH]; intros cur Hn; cbn [lf_tokens_aux].
  - rewrite app_nil_r. reflexivity.
  - destruct (c =? 32) eqn:E.
    + exfalso. apply Hn. left. lia.
    + rewrite IH by (intros H; apply Hn; right; exact H). rewrite <- app_assoc. reflexivity.
Qed.

Lemma lf_tokens_aux_space a b : forall cur,
  ~ In 32 a -> lf_tokens_aux cur (a ++ 32 :: b) = (cur ++ a) :: lf_tokens_aux [] b.
Proof.
  induction a as [|c tl IH]; intros cur Hn; cbn [lf_tokens_aux app].
  - rewrite app_nil_r. reflexivity.
  - destruct (c =? 32) eqn:E.
    + exfalso. apply Hn. left. lia.
    + rewrite IH by (intros H; apply Hn; right; exact H). rewrite <- app_assoc. reflexivity.
Qed.

(* the three equations that define the token list of a value *)
Theorem lf_tokens_equations :
  lf_tokens [] = [] /\
  (forall a, ~ In 32 a -> a <> [] -> lf_tokens a = [a]) /\
  (forall a b, ~ In 32 a -> lf_tokens (a ++ 32 :: b) = a :: lf_tokens b).
Proof.
  split; [reflexivity|]. split.
  - intros a Hn Ha. unfold lf_tokens. rewrite lf_tokens_aux_nospace by exact Hn.
    cbn [app]. destruct a; [contradiction|reflexivity].
  - intros a b Hn. unfold lf_tokens. rewrite lf_tokens_aux_space by exact Hn. reflexivity.
Qed.

(* the matching relation in logical form *)
Theorem lf_str_match_spec prefix pat s :
  lf_str_match prefix pat s = true <->
  (if prefix then exists t, s = pat ++ t else s = pat).
Proof.
  unfold lf_str_match. destruct prefix.
  - apply lf_prefixb_spec.
  - rewrite lf_beq_eq. split; intros H; symmetry; exact H.
Qed.

Lemma lf_strip_star_yes p : lf_strip_star (p ++ [42]) = (p, true).
Proof. unfold lf_strip_star. rewrite rev_app_distr. cbn [rev app Z.eqb Pos.eqb]. rewrite rev_involutive. reflexivity. Qed.

Lemma lf_strip_star_no p c : c <> 42 -> lf_strip_star (p ++ [c]) = (p ++ [c], false).
Proof.
  intros H. unfold lf_strip_star. rewrite rev_app_distr. cbn [rev app].
  replace (c =? 42) with false by lia. reflexivity.
Qed.

(* ------------------------------------------------------------------ a concrete table *)

(* sensors/temp;rt="temperature-c sensor";if="sensor";obs , sensors/light;ct=40;rt="light-lux" ,
   time;title ; built through the registration functions, in this order *)
Definition lf_ex_temp : lf_res :=
  lf_set_obs
    (lf_add_attr
      (lf_add_attr (lf_res_init [115;101;110;115;111;114;115;47;116;101;109;112] false)
         [105;102] (Some [34;115;101;110;115;111;114;34]))
      [114;116] (Some [34;116;101;109;112;101;114;97;116;117;114;101;45;99;32;115;101;110;115;111;114;34]))
    true.
Definition lf_ex_light : lf_res :=
  lf_add_attr
    (lf_add_attr (lf_res_init [115;101;110;115;111;114;115;47;108;105;103;104;116] true)
       [114;116] (Some [34;108;105;103;104;116;45;108;117;120;34]))
    [99;116] (Some [52;48]).
Definition lf_ex_time : lf_res :=
  lf_add_attr (lf_res_init [116;105;109;101] false) [116;105;116;108;101] None.
Definition lf_ex_table : list lf_res :=
  lf_register (lf_register (lf_register [] lf_ex_temp) lf_ex_light) lf_ex_time.

(* rt=sensor : token match inside a quoted value selects the first resource only *)
Example lf_ex_filter_token :
  lf_table_ok lf_ex_table = true /\
  lf_selected (Some [114;116;61;115;101;110;115;111;114]) lf_ex_table = [lf_ex_temp] /\
  lf_selected (Some [114;116;61;115;101;110;115]) lf_ex_table = [] /\
  lf_selected (Some [114;116;61;115;101;110;115;42]) lf_ex_table = [lf_ex_temp] /\
  lf_selected (Some [104;114;101;102;61;47;115;101;110;115;111;114;115;47;42]) lf_ex_table
    = [lf_ex_temp; lf_ex_light] /\
  lf_selected (Some [99;116;61;52;48]) lf_ex_table = [lf_ex_light] /\
  lf_selected None lf_ex_table = lf_ex_table.
Proof. vm_compute. repeat split. Qed.

(* a window in the middle of the unfiltered listing (113 bytes): offset 40, 16 bytes, TRUNC *)
Example lf_ex_window :
  len (lf_listing (lf_selected None lf_ex_table)) = 113 /\
  lf_print_wellknown lf_ex_table None 40 16 =
  LfVal {| lf_rstatus := LfDone 16 true;
           lf_rbytes := lf_window 40 16 (lf_listing lf_ex_table);
           lf_rtotal := 113 |} /\
  lf_get_wellknown lf_ex_table None = Lf205 (lf_listing lf_ex_table) /\
  lf_reassemble 114 (lf_listing lf_ex_table) 0 0 = Some (lf_listing lf_ex_table).
Proof. vm_compute. repeat split. Qed.

(* ------------------------------------------------------------------ before the repairs *)

(* match(): with match_prefix the code compared pattern->length bytes of every token, also of
   tokens shorter than the pattern.
   (a) value "ab cd" (stored with its terminating 0), query pattern "cdefg": the comparison of
       the second token reads 5 bytes where 3 are left in the object;
   (b) value "cd ab", filter rt=cd a* : the comparison runs over the space into the next token
       and reports a match, so a resource that has no token with that prefix is listed. *)
Theorem lf_match_unguarded_refuted :
  (exists text pat, lf_inb text /\ lf_inb pat /\ lf_match false text (Some pat) true true = LfOob) /\
  (exists rs q, lf_table_ok rs = true /\ lf_selected (Some q) rs = [] /\
     exists r, lf_print_wellknown_g false [0] rs (Some q) 0 64 = LfVal r /\ lf_rtotal r <> 0).
Proof.
  split.
  - exists {| lf_obj := [97;98;32;99;100;0]; lf_at := 0; lf_len := 5 |}.
    exists {| lf_obj := [99;100;101;102;103]; lf_at := 0; lf_len := 5 |}.
    split; [unfold lf_inb; vm_compute; repeat split; discriminate|].
    split; [unfold lf_inb; vm_compute; repeat split; discriminate|].
    vm_compute. reflexivity.
  - exists [lf_add_attr (lf_res_init [97] false) [114;116] (Some [99;100;32;97;98])].
    exists [114;116;61;99;100;32;97;42].
    split; [vm_compute; reflexivity|]. split; [vm_compute; reflexivity|].
    eexists. split; [vm_compute; reflexivity|]. vm_compute. discriminate.
Qed.

(* the same inputs on the repaired code *)
Example lf_match_guarded_ok :
  lf_match true {| lf_obj := [97;98;32;99;100;0]; lf_at := 0; lf_len := 5 |}
           (Some {| lf_obj := [99;100;101;102;103]; lf_at := 0; lf_len := 5 |}) true true = LfVal false /\
  lf_rtotal_of (lf_print_wellknown
     [lf_add_attr (lf_res_init [97] false) [114;116] (Some [99;100;32;97;98])]
     (Some [114;116;61;99;100;32;97;42]) 0 64) = Some 0.
Proof. vm_compute. split; reflexivity. Qed.

(* F20e: an attribute value that is one double quote.  The old code took it for a quoted string
   and computed the length 1 - 2 (size_t): match() then read far outside the value; the
   repaired code treats values shorter than two bytes as unquoted text. *)
Theorem lf_lone_quote_refuted :
  exists rs q, lf_table_ok rs = false /\
    lf_print_wellknown_g false [0] rs (Some q) 0 64 = LfOob /\
    lf_print_wellknown rs (Some q) 0 64 =
    LfVal {| lf_rstatus := LfDone 0 false; lf_rbytes := []; lf_rtotal := 0 |}.
Proof.
  exists [lf_add_attr (lf_res_init [97] false) [114;116] (Some [34])]. exists [114;116;61;97].
  split; [vm_compute; reflexivity|]. split; vm_compute; reflexivity.
Qed.

(* filter split: query_pattern.s[0] was read before query_pattern.length was tested; for a
   filter that ends in '=' this is the byte behind the query string *)
Theorem lf_split_unguarded_refuted :
  exists q, lf_split_filter false q = LfOob /\
            exists f, lf_split_filter true q = LfVal f.
Proof.
  exists [114;116;61]. split; [vm_compute; reflexivity|]. eexists. vm_compute. reflexivity.
Qed.

(* ------------------------------------------------------------------ findings in the handler *)

(* F20c (repaired): the GET handler matched against the percent-escaped query text.  rt="a#b"
   and the request option Uri-Query "rt=a#b": the filter relation holds for the resource, but
   the handler's body was empty ('#' reached the printer as %23). *)
Theorem lf_handle_get_escaped_refuted :
  exists rs q r, lf_table_ok rs = true /\ rs = [r] /\ lf_filter_spec q r = true /\
                 lf_handle_get_escaped rs [q] = Lf205 [] /\
                 lf_handle_get rs [q] = Lf205 (lf_link r).
Proof.
  exists [lf_add_attr (lf_res_init [97] false) [114;116] (Some [34;97;35;98;34])].
  exists [114;116;61;97;35;98]. eexists.
  split; [vm_compute; reflexivity|]. split; [reflexivity|].
  split; [vm_compute; reflexivity|]. split; vm_compute; reflexivity.
Qed.

(* F20d (repaired): without COAP_BLOCK_USE_LIBCOAP the body was cut to the room in the PDU and
   sent as a complete response: 12 resources with a 100-byte rt value, room 1143 *)
Definition lf_ex_big : list lf_res :=
  map (fun i => lf_add_attr (lf_res_init [97 + Z.of_nat i] false) [114;116] (Some (repeat 120 100%nat)))
      (seq 0 12).

Theorem lf_handle_get_nolib_refuted :
  exists rs room, lf_table_ok rs = true /\
    lf_handle_get rs [] = Lf205 (lf_listing (lf_selected None rs)) /\
    exists b, lf_handle_get_nolib rs [] room = Lf205 b /\ len b < len (lf_listing (lf_selected None rs)).
Proof.
  exists lf_ex_big, 1143. split; [vm_compute; reflexivity|]. split; [vm_compute; reflexivity|].
  eexists. split; [vm_compute; reflexivity|]. vm_compute. reflexivity.
Qed.

(* C20 - top-level theorems: coap_print_wellknown_lkd, the size probe, the GET handler and the
   Block2 reassembly, stated against the listing of the selected registered resources. *)
From LibcoapV Require Import Base.Tactics Base.Bytes Base.BytesProofs Link.LinkFormat
  Link.LinkProofs Link.FilterProofs.
Local Open Scope Z_scope.

(* ------------------------------------------------------------------ coap_print_wellknown *)

(* for strings stored by the library ([0] behind them) and for exact-size strings of the
   application ([] behind them) alike: the repaired code never looks behind a path or value *)
Theorem lf_wellknown_window_term term rs filter off buflen :
  0 <= off -> 0 <= buflen <= lf_status_max ->
  lf_print_wellknown_g true term rs filter off buflen =
  LfVal {| lf_rstatus := LfDone (len (lf_window off buflen (lf_listing (lf_selected filter rs))))
                                (lf_trunc_spec off buflen (len (lf_listing (lf_selected filter rs))));
           lf_rbytes := lf_window off buflen (lf_listing (lf_selected filter rs));
           lf_rtotal := len (lf_listing (lf_selected filter rs)) |}.
Proof.
  intros Ho Hb. unfold lf_print_wellknown_g.
  destruct filter as [q|].
  - destruct (lf_split_filter_ok q) as (f & Hf & Hfok). rewrite Hf.
    destruct (lf_print_wellknown_window_gen true term rs (Some f) (lf_filter_spec q) off buflen Ho Hb)
      as (w & Hw & Hret).
    { intros r Hr. apply lf_select_ok. exact Hfok. }
    rewrite Hw. f_equal. exact Hret.
  - destruct (lf_print_wellknown_window_gen true term rs None (fun _ => true) off buflen Ho Hb)
      as (w & Hw & Hret).
    { intros r Hr. reflexivity. }
    rewrite Hw. f_equal. exact Hret.
Qed.

Theorem lf_wellknown_window rs filter off buflen :
  0 <= off -> 0 <= buflen <= lf_status_max ->
  lf_print_wellknown rs filter off buflen =
  LfVal {| lf_rstatus := LfDone (len (lf_window off buflen (lf_listing (lf_selected filter rs))))
                                (lf_trunc_spec off buflen (len (lf_listing (lf_selected filter rs))));
           lf_rbytes := lf_window off buflen (lf_listing (lf_selected filter rs));
           lf_rtotal := len (lf_listing (lf_selected filter rs)) |}.
Proof. apply lf_wellknown_window_term. Qed.

(* the byte count in the status word is the length of the window; with the closed forms *)
Lemma lf_window_len_closed off buflen l :
  0 <= off -> 0 <= buflen ->
  len (lf_window off buflen l) = Z.min buflen (Z.max 0 (len l - off)).
Proof. apply lf_len_window. Qed.

(* for a non-empty buffer TRUNC is set iff listing remains beyond the window *)
Lemma lf_trunc_nonempty off buflen total :
  0 < buflen -> lf_trunc_spec off buflen total = (off + buflen <? total).
Proof. intros H. unfold lf_trunc_spec. replace (0 <? buflen) with true by lia. reflexivity. Qed.

(* C20_probe: an empty buffer reports the exact total, whatever the offset *)
Theorem lf_wellknown_probe rs filter off :
  0 <= off ->
  lf_print_wellknown rs filter off 0 =
  LfVal {| lf_rstatus := LfDone 0 (0 <? len (lf_listing (lf_selected filter rs)));
           lf_rbytes := [];
           lf_rtotal := len (lf_listing (lf_selected filter rs)) |}.
Proof.
  intros Ho. rewrite lf_wellknown_window by (auto; unfold lf_status_max; lia).
  unfold lf_window. rewrite lf_take_0. reflexivity.
Qed.

(* ------------------------------------------------------------------ the GET handler *)

Theorem lf_get_equals_listing rs query :
  len (lf_listing (lf_selected query rs)) <= lf_status_max ->
  lf_get_wellknown rs query = Lf205 (lf_listing (lf_selected query rs)).
Proof.
  intros Hmax. unfold lf_get_wellknown.
  rewrite lf_wellknown_probe by (auto; unfold lf_uint_max; lia).
  cbn [lf_rstatus lf_rtotal].
  set (L := lf_listing (lf_selected query rs)) in *.
  assert (HL := len_nonneg L).
  destruct (0 <? len L) eqn:E.
  - rewrite lf_wellknown_window by (auto; lia). cbn [lf_rstatus lf_rtotal lf_rbytes]. fold L.
    unfold lf_window. rewrite lf_drop_0. rewrite (lf_take_all (len L) L) by lia.
    rewrite lf_take_all by lia. reflexivity.
  - destruct L; [reflexivity|]. rewrite len_cons in E. assert (X := len_nonneg L). lia.
Qed.

(* ------------------------------------------------------------------ Block2 reassembly *)

Lemma lf_block_size_pos szx : 0 <= szx -> 16 <= lf_block_size szx.
Proof.
  intros H. unfold lf_block_size. replace (szx + 4) with (4 + szx) by lia.
  rewrite Z.pow_add_r by lia. assert (0 < 2 ^ szx) by (apply Z.pow_pos_nonneg; lia).
  change (2 ^ 4) with 16. lia.
Qed.

Lemma lf_reassemble_drop fuel : forall body szx n,
  0 <= szx -> 0 <= n -> n * lf_block_size szx <= len body ->
  len body - n * lf_block_size szx < Z.of_nat fuel * lf_block_size szx ->
  lf_reassemble fuel body szx n = Some (drop (n * lf_block_size szx) body).
Proof.
  induction fuel as [|k IH]; intros body szx n Hs Hn Hin Hf.
  - cbn [Z.of_nat Z.mul] in Hf. lia.
  - assert (P := lf_block_size_pos szx Hs). assert (L := len_nonneg body).
    cbn [lf_reassemble]. unfold lf_block.
    set (sz := lf_block_size szx) in *.
    replace ((n + 1) * sz) with (n * sz + sz) by ring.
    assert (0 <= n * sz) as Hm by (apply Z.mul_nonneg_nonneg; lia).
    replace (Z.of_nat (S k) * sz) with (Z.of_nat k * sz + sz) in Hf
      by (rewrite Nat2Z.inj_succ; ring).
    set (m := n * sz) in *.
    destruct (m + sz <? len body) eqn:E.
    + rewrite IH; try lia.
      replace ((n + 1) * lf_block_size szx) with (sz + m) by (subst sz m; ring).
      rewrite <- lf_drop_drop by lia. rewrite take_drop. reflexivity.
    + f_equal. apply lf_take_all. rewrite lf_len_drop by lia. lia.
Qed.

(* C20_get_equals_listing, block-wise part: fetching blocks 0,1,2,... of any size until the
   More bit is clear and concatenating them gives the body *)
Theorem lf_reassemble_body body szx :
  0 <= szx -> lf_reassemble (S (length body)) body szx 0 = Some body.
Proof.
  intros Hs. rewrite lf_reassemble_drop; try lia.
  - reflexivity.
  - assert (L := len_nonneg body). cbn [Z.mul]. lia.
  - assert (P := lf_block_size_pos szx Hs). cbn [Z.mul]. rewrite Z.sub_0_r.
    rewrite Nat2Z.inj_succ. fold (len body). assert (L := len_nonneg body).
    set (sz := lf_block_size szx) in *. nia.
Qed.

(* every block has the advertised size except possibly the last one, and the More bit says
   whether bytes remain *)
Lemma lf_block_spec body szx n :
  0 <= szx -> 0 <= n ->
  fst (lf_block body szx n) = lf_window (n * lf_block_size szx) (lf_block_size szx) body /\
  snd (lf_block body szx n) = ((n + 1) * lf_block_size szx <? len body).
Proof. intros. split; reflexivity. Qed.

(* ------------------------------------------------------------------ registration *)

Lemma lf_register_in tbl r x :
  In x (lf_register tbl r) <-> x = r \/ (In x tbl /\ lf_path x <> lf_path r).
Proof.
  unfold lf_register, lf_unregister. rewrite in_app_iff, filter_In. cbn [In].
  split.
  - intros [(H1 & H2)|[H|[]]]; [right|left; auto].
    split; [exact H1|]. intros Heq. rewrite Heq, lf_beq_refl in H2. discriminate.
  - intros [H|(H1 & H2)]; [right; left; auto|left].
    split; [exact H1|]. destruct (lf_beq (lf_path x) (lf_path r)) eqn:E; [|reflexivity].
    apply lf_beq_eq in E. contradiction.
Qed.

Lemma lf_unregister_paths tbl p :
  map lf_path (lf_unregister tbl p) = filter (fun q => negb (lf_beq q p)) (map lf_path tbl).
Proof.
  unfold lf_unregister. induction tbl as [|x tl IH]; [reflexivity|].
  cbn [filter map]. destruct (negb (lf_beq (lf_path x) p)); cbn [map]; rewrite IH; reflexivity.
Qed.

Lemma lf_nodup_snoc {A} (l : list A) x : NoDup l -> ~ In x l -> NoDup (l ++ [x]).
Proof.
  induction l as [|y tl IH]; intros Hn Hx; cbn [app].
  - constructor; [intros []|constructor].
  - inversion Hn; subst. constructor.
    + rewrite in_app_iff. intros [H|[H|[]]]; [contradiction|]. subst. apply Hx. left. reflexivity.
    + apply IH; [assumption|]. intros H. apply Hx. right. exact H.
Qed.

(* paths stay unique: a table built by registrations never lists a path twice *)
Lemma lf_register_nodup tbl r :
  NoDup (map lf_path tbl) -> NoDup (map lf_path (lf_register tbl r)).
Proof.
  intros H. unfold lf_register. rewrite map_app, lf_unregister_paths. cbn [map].
  apply lf_nodup_snoc.
  - apply NoDup_filter. exact H.
  - rewrite filter_In. intros (_ & H2). rewrite lf_beq_refl in H2. discriminate.
Qed.

(* registration order is listing order: a new resource goes to the end *)
Lemma lf_register_fresh tbl r :
  (forall x, In x tbl -> lf_path x <> lf_path r) -> lf_register tbl r = tbl ++ [r].
Proof.
  intros H. unfold lf_register, lf_unregister. f_equal.
  induction tbl as [|x tl IH]; [reflexivity|]. cbn [filter].
  destruct (lf_beq (lf_path x) (lf_path r)) eqn:E.
  - apply lf_beq_eq in E. exfalso. apply (H x); [left; reflexivity|exact E].
  - cbn [negb]. f_equal. apply IH. intros y Hy. apply H. right. exact Hy.
Qed.

(* ------------------------------------------------------------------ packaged statements *)

Lemma lf_trunc_rule off buflen (l : bytes) :
  0 <= off -> 0 < buflen ->
  lf_trunc_spec off buflen (len l) = (off + buflen <? len l) /\
  len (lf_window off buflen l) = Z.min buflen (Z.max 0 (len l - off)).
Proof.
  intros Ho Hb. split.
  - apply lf_trunc_nonempty. exact Hb.
  - apply lf_window_len_closed; lia.
Qed.

Lemma lf_filter_spec_ok term q r :
  exists f, lf_split_filter true q = LfVal f /\ lf_select true term f r = LfVal (lf_filter_spec q r).
Proof.
  destruct (lf_split_filter_ok q) as (f & Hf & Hok).
  exists f. split; [exact Hf|]. apply lf_select_ok; assumption.
Qed.

Lemma lf_register_props tbl r :
  (forall x, In x (lf_register tbl r) <-> x = r \/ (In x tbl /\ lf_path x <> lf_path r)) /\
  (NoDup (map lf_path tbl) -> NoDup (map lf_path (lf_register tbl r))) /\
  ((forall x, In x tbl -> lf_path x <> lf_path r) -> lf_register tbl r = tbl ++ [r]).
Proof.
  split; [intros x; apply lf_register_in|].
  split; [apply lf_register_nodup|apply lf_register_fresh].
Qed.

(* ------------------------------------------------------------------ request -> query string *)

Lemma lf_unescaped_not_percent c : lf_unescaped_in_query c = true -> (c =? 37) = false.
Proof.
  intros H. destruct (c =? 37) eqn:E; [|reflexivity].
  assert (c = 37) by lia. subst c. vm_compute in H. discriminate.
Qed.

Lemma lf_hexval_digit d : 0 <= d < 16 -> lf_hexval (lf_hex_digit d) = Some d.
Proof.
  intros H. unfold lf_hex_digit, lf_hexval. destruct (d <? 10) eqn:E.
  - replace ((48 <=? 48 + d) && (48 + d <=? 57)) with true by lia. f_equal. lia.
  - replace ((48 <=? 55 + d) && (55 + d <=? 57)) with false by lia.
    replace ((65 <=? 55 + d) && (55 + d <=? 70)) with true by lia. f_equal. lia.
Qed.

(* the handler's decoding undoes coap_get_query's escaping, whatever follows *)
Lemma lf_unescape_escape a : forall rest,
  wfb a -> lf_unescape_query (lf_escape_query a ++ rest) = a ++ lf_unescape_query rest.
Proof.
  induction a as [|c tl IH]; intros rest Hw; [reflexivity|].
  apply wfb_cons in Hw. destruct Hw as [Hc Hw]. unfold is_byte in Hc.
  cbn [lf_escape_query]. destruct (lf_unescaped_in_query c) eqn:E.
  - cbn [app lf_unescape_query]. rewrite (lf_unescaped_not_percent c E). rewrite IH by exact Hw. reflexivity.
  - cbn [app lf_unescape_query]. cbn [Z.eqb Pos.eqb].
    rewrite !lf_hexval_digit by lia. rewrite IH by exact Hw. cbn [app]. f_equal. lia.
Qed.

Lemma lf_unescape_join opts :
  Forall wfb opts ->
  lf_unescape_query (lf_join_amp (map lf_escape_query opts)) = lf_join_amp opts.
Proof.
  induction opts as [|q tl IH]; intros H; [reflexivity|].
  inversion H as [|? ? Hq Htl]; subst. cbn [map lf_join_amp].
  destruct tl as [|q2 tl2].
  - cbn [map]. rewrite <- (app_nil_r (lf_escape_query q)). rewrite lf_unescape_escape by exact Hq.
    cbn [lf_unescape_query]. apply app_nil_r.
  - cbn [map]. cbn [map] in IH. rewrite lf_unescape_escape by exact Hq.
    cbn [lf_unescape_query Z.eqb Pos.eqb]. rewrite IH by exact Htl. reflexivity.
Qed.

Lemma lf_unescape_nonnil x t : lf_unescape_query (x :: t) <> [].
Proof.
  cbn [lf_unescape_query]. destruct (x =? 37); [|discriminate].
  destruct t as [|h [|l t2]]; try discriminate.
  destruct (lf_hexval h); [destruct (lf_hexval l)|]; discriminate.
Qed.

Lemma lf_decoded_query opts :
  Forall wfb opts ->
  match lf_get_query opts with Some q => Some (lf_unescape_query q) | None => None end =
  lf_raw_query opts.
Proof.
  intros H. unfold lf_get_query, lf_raw_query. rewrite <- (lf_unescape_join opts H).
  destruct (lf_join_amp (map lf_escape_query opts)) as [|x t] eqn:E; [reflexivity|].
  destruct (lf_unescape_query (x :: t)) eqn:E2; [|reflexivity].
  exfalso. exact (lf_unescape_nonnil x t E2).
Qed.

(* the whole GET path: the filter applied is the bytes of the request's Uri-Query options *)
Theorem lf_handle_get_listing rs opts :
  Forall wfb opts ->
  len (lf_listing (lf_selected (lf_raw_query opts) rs)) <= lf_status_max ->
  lf_handle_get rs opts = Lf205 (lf_listing (lf_selected (lf_raw_query opts) rs)).
Proof.
  intros Hw Hm. unfold lf_handle_get. rewrite (lf_decoded_query opts Hw).
  apply lf_get_equals_listing; assumption.
Qed.

(* one option q: filter q; no option: no filter *)
Lemma lf_raw_query_single q : q <> [] -> lf_raw_query [q] = Some q.
Proof. intros H. unfold lf_raw_query. cbn [lf_join_amp]. destruct q; [contradiction|reflexivity]. Qed.

Lemma lf_raw_query_none : lf_raw_query [] = None.
Proof. reflexivity. Qed.

(* the built-in handler answers unless the application asked for the request explicitly *)
Lemma lf_wk_target_builtin registered unk_get unk_flag :
  lf_wk_target registered unk_get unk_flag = LfToBuiltin <->
  registered = false /\ (unk_flag = false \/ unk_get = false).
Proof.
  unfold lf_wk_target. destruct registered, unk_flag, unk_get; cbn; split; intros H;
    try discriminate; try tauto; destruct H as (H1 & [H2|H2]); discriminate.
Qed.

(* C20 - reading the listing back gives exactly the registered (listed) resources. *)
From LibcoapV Require Import Base.Tactics Base.Bytes Base.BytesProofs Link.LinkFormat Link.LinkParse.
Local Open Scope Z_scope.

(* what may follow a complete param: nothing, or a ';' or ',' *)
Definition lf_rest_ok (rest : bytes) : Prop :=
  match rest with [] => True | d :: _ => lf_is_delim d = true end.

Lemma lf_span_app stop a : forall rest,
  forallb (fun x => negb (stop x)) a = true ->
  match rest with [] => True | d :: _ => stop d = true end ->
  lf_span stop (a ++ rest) = (a, rest).
Proof.
  induction a as [|c tl IH]; intros rest Ha Hr; cbn [app lf_span].
  - destruct rest as [|d r]; [reflexivity|]. cbn [lf_span]. rewrite Hr. reflexivity.
  - cbn [forallb] in Ha. apply andb_true_iff in Ha. destruct Ha as [Hc Htl].
    apply negb_true_iff in Hc. rewrite Hc. rewrite (IH rest Htl Hr). reflexivity.
Qed.

Lemma lf_delim_name_end d : lf_is_delim d = true -> lf_is_name_end d = true /\ (d =? 61) = false /\ (d =? 34) = false.
Proof. unfold lf_is_name_end, lf_is_delim. intros H. lia. Qed.

(* one param *)
Lemma lf_parse_param_ok a rest :
  lf_clean_attr a = true -> lf_rest_ok rest ->
  lf_parse_param (lf_aname a ++ match lf_avalue a with Some v => 61 :: v | None => [] end ++ rest)
  = Some (a, rest).
Proof.
  intros Hc Hr. destruct a as [name val]. unfold lf_clean_attr in Hc. cbn [lf_aname lf_avalue] in *.
  apply andb_true_iff in Hc. destruct Hc as [Hn Hv].
  unfold lf_parse_param.
  destruct val as [v|].
  - rewrite (lf_span_app lf_is_name_end name ((61 :: v) ++ rest) Hn) by reflexivity.
    cbn [app Z.eqb Pos.eqb].
    unfold lf_clean_value in Hv.
    destruct v as [|c tl].
    + (* empty value *)
      cbn [app]. destruct rest as [|d r]; [reflexivity|].
      cbn [lf_rest_ok] in Hr. destruct (lf_delim_name_end d Hr) as (_ & _ & Hq). rewrite Hq.
      cbn [lf_span]. rewrite Hr. reflexivity.
    + cbn [app]. destruct (c =? 34) eqn:Ec.
      * (* quoted-string *)
        assert (c = 34) by lia. subst c.
        destruct (rev tl) as [|q rin] eqn:Er; [discriminate|].
        apply andb_true_iff in Hv. destruct Hv as [Hq Hin].
        assert (q = 34) by lia. subst q.
        assert (tl = rev rin ++ [34]) as Htl.
        { rewrite <- (rev_involutive tl), Er. reflexivity. }
        rewrite Htl. rewrite <- app_assoc. cbn [app].
        rewrite (lf_span_app lf_is_quote (rev rin) (34 :: rest)); [reflexivity| |reflexivity].
        rewrite forallb_forall in *. intros x Hx. apply Hin. apply in_rev in Hx. exact Hx.
      * (* ptoken *)
        change (c :: tl ++ rest) with ((c :: tl) ++ rest).
        rewrite (lf_span_app lf_is_delim (c :: tl) rest Hv); [reflexivity|].
        destruct rest; [exact I|exact Hr].
  - cbn [app]. rewrite (lf_span_app lf_is_name_end name rest Hn).
    + destruct rest as [|d r]; [reflexivity|]. cbn [lf_rest_ok] in Hr.
      destruct (lf_delim_name_end d Hr) as (_ & He & _). rewrite He. reflexivity.
    + destruct rest as [|d r]; [exact I|]. apply (lf_delim_name_end d Hr).
Qed.

Lemma lf_attr_text_head a : exists t, lf_attr_text a = 59 :: t.
Proof. unfold lf_attr_text. eexists. reflexivity. Qed.

(* the params of a link, followed by the end of the input or by ",next link" *)
Lemma lf_parse_params_ok attrs : forall fuel (more : option bytes),
  forallb lf_clean_attr attrs = true ->
  (length attrs < fuel)%nat ->
  lf_parse_params fuel (concat (map lf_attr_text attrs) ++
                        match more with None => [] | Some r => 44 :: r end)
  = Some (attrs, more).
Proof.
  induction attrs as [|a tl IH]; intros fuel more Hc Hf.
  - destruct fuel as [|k]; [cbn in Hf; lia|]. cbn [map concat app lf_parse_params].
    destruct more as [r|]; reflexivity.
  - destruct fuel as [|k]; [cbn in Hf; lia|].
    cbn [forallb] in Hc. apply andb_true_iff in Hc. destruct Hc as [Ha Htl].
    cbn [map concat]. unfold lf_attr_text at 1. cbn [app lf_parse_params Z.eqb Pos.eqb].
    rewrite <- !app_assoc.
    rewrite (lf_parse_param_ok a _ Ha).
    + rewrite IH; [reflexivity|exact Htl|cbn [length] in Hf; lia].
    + (* what follows is the next param, a comma, or nothing *)
      destruct tl as [|b tl'].
      * cbn [map concat app]. destruct more; [reflexivity|exact I].
      * cbn [map concat]. destruct (lf_attr_text_head b) as (t & Ht). rewrite Ht. reflexivity.
Qed.

(* a link is "</" path ">" followed by the params of its canonical form *)
Lemma lf_link_canon r :
  lf_link r = 60 :: 47 :: lf_path r ++ 62 :: concat (map lf_attr_text (snd (lf_canon r))).
Proof.
  unfold lf_link, lf_canon. cbn [snd]. rewrite !map_app, !concat_app.
  destruct (lf_obs r); destruct (lf_osc r); reflexivity.
Qed.

Lemma lf_canon_clean r : lf_clean_res r = true -> forallb lf_clean_attr (snd (lf_canon r)) = true.
Proof.
  unfold lf_clean_res, lf_canon. intros H. apply andb_true_iff in H. destruct H as [_ H].
  cbn [snd]. rewrite !forallb_app, H.
  destruct (lf_obs r); destruct (lf_osc r); reflexivity.
Qed.

Lemma lf_concat_len (l : list lf_attr) : (length l <= length (concat (map lf_attr_text l)))%nat.
Proof.
  induction l as [|a tl IH]; [cbn; lia|]. cbn [map concat]. rewrite app_length.
  destruct (lf_attr_text_head a) as (t & Ht). rewrite Ht. cbn [length]. lia.
Qed.

Lemma lf_join_cons x y tl : lf_join (x :: y :: tl) = x ++ 44 :: lf_join (y :: tl).
Proof. reflexivity. Qed.

Lemma lf_parse_links_ok rs : forall fuel,
  rs <> [] -> forallb lf_clean_res rs = true -> (length rs <= fuel)%nat ->
  lf_parse_links fuel (lf_listing rs) = Some (map lf_canon rs).
Proof.
  induction rs as [|r tl IH]; intros fuel Hne Hc Hf; [contradiction|].
  destruct fuel as [|k]; [cbn in Hf; lia|].
  cbn [forallb] in Hc. apply andb_true_iff in Hc. destruct Hc as [Hr Htl].
  assert (Hp : forallb (fun x => negb (lf_is_gt x)) (lf_path r) = true).
  { unfold lf_clean_res in Hr. apply andb_true_iff in Hr. tauto. }
  assert (Hca := lf_canon_clean r Hr).
  unfold lf_listing. cbn [map].
  destruct tl as [|r2 tl2].
  - (* last link *)
    cbn [map lf_join]. rewrite lf_link_canon. cbn [lf_parse_links andb Z.eqb Pos.eqb].
    rewrite (lf_span_app lf_is_gt (lf_path r) (62 :: _) Hp) by reflexivity.
    assert (H := lf_parse_params_ok (snd (lf_canon r))
                   (S (length (concat (map lf_attr_text (snd (lf_canon r)))))) None Hca).
    rewrite app_nil_r in H. rewrite H.
    + unfold lf_canon. reflexivity.
    + assert (X := lf_concat_len (snd (lf_canon r))). lia.
  - cbn [map]. rewrite lf_join_cons. rewrite lf_link_canon.
    cbn [app lf_parse_links andb Z.eqb Pos.eqb]. rewrite <- app_assoc. cbn [app].
    rewrite (lf_span_app lf_is_gt (lf_path r) (62 :: _) Hp) by reflexivity.
    assert (H := lf_parse_params_ok (snd (lf_canon r))
                   (S (length (concat (map lf_attr_text (snd (lf_canon r))) ++
                               44 :: lf_join (lf_link r2 :: map lf_link tl2))))
                   (Some (lf_join (lf_link r2 :: map lf_link tl2))) Hca).
    rewrite H.
    + change (lf_join (lf_link r2 :: map lf_link tl2)) with (lf_listing (r2 :: tl2)).
      rewrite IH; [unfold lf_canon; reflexivity|discriminate|exact Htl|cbn [length] in *; lia].
    + rewrite app_length. assert (X := lf_concat_len (snd (lf_canon r))). lia.
Qed.

Lemma lf_listing_len rs : (length rs <= S (length (lf_listing rs)))%nat.
Proof.
  induction rs as [|r tl IH]; [cbn; lia|].
  unfold lf_listing in *. cbn [map]. destruct tl as [|r2 tl2].
  - cbn [map lf_join length]. lia.
  - cbn [map] in *. rewrite lf_join_cons, app_length. cbn [length] in *. lia.
Qed.

(* C20_listing_determines_table *)
Theorem lf_parse_listing rs :
  forallb lf_clean_res rs = true -> lf_parse (lf_listing rs) = Some (map lf_canon rs).
Proof.
  intros Hc. destruct rs as [|r tl]; [reflexivity|].
  unfold lf_parse. destruct (lf_listing (r :: tl)) as [|c s] eqn:E.
  - exfalso. unfold lf_listing in E. cbn [map] in E. destruct tl; cbn in E; discriminate.
  - rewrite <- E. apply lf_parse_links_ok; [discriminate|exact Hc|].
    assert (X := lf_listing_len (r :: tl)). rewrite E in *. cbn [length] in *. lia.
Qed.

(* two clean tables with the same listing list the same resources *)
Corollary lf_listing_injective rs1 rs2 :
  forallb lf_clean_res rs1 = true -> forallb lf_clean_res rs2 = true ->
  lf_listing rs1 = lf_listing rs2 -> map lf_canon rs1 = map lf_canon rs2.
Proof.
  intros H1 H2 E. apply lf_parse_listing in H1. apply lf_parse_listing in H2.
  rewrite E in H1. rewrite H1 in H2. inversion H2. reflexivity.
Qed.

From LibcoapV Require Import Link.LinkProofs Link.FilterProofs Link.WellknownProofs Link.LinkExamples.
Example lf_ex_clean : forallb lf_clean_res lf_ex_table = true.
Proof. vm_compute. reflexivity. Qed.

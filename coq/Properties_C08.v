(* C08 - NSTART bounds in-flight Confirmables; held messages go out in order, none lost.
   Statements only; proofs live in Nstart/NstartProofs.v. *)
From LibcoapV Require Import Base.Tactics Nstart.Nstart Nstart.NstartProofs.
Local Open Scope Z_scope.

(* The code as found (pinned commit, ns_fixed = false): the RST branch of coap_dispatch
   decrements con_active before it looks the message id up.  A peer that resets a NON it
   received releases a held CON while another one is still in flight. *)
Theorem C08_bound_refuted :
  exists evs,
    let t := ns_trace ns_cfg_found (ns_init true) evs in
    let s := ns_run ns_cfg_found (ns_init true) evs in
    ns_peer_ok [] t = true /\ NoDup (ns_sub_mids evs) /\
    ns_accepts ns_cfg_found true t = false /\
    map ns_nmid (ns_sq s) = [1; 3] /\ forallb ns_ncon (ns_sq s) = true /\
    map ns_mid (ns_txs (flat_map snd t)) = [1; 2; 3] /\
    Z.of_nat (length (ns_sq s)) > ns_nstart ns_cfg_found.
Proof. exact ns_bound_refuted_found. Qed.
Print Assumptions C08_bound_refuted.

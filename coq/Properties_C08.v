(* C08 - NSTART bounds in-flight Confirmables; held messages go out in order, none lost.
   Statements only; proofs live in Nstart/NstartProofs.v.

   Model (Nstart/Nstart.v): one datagram session of libcoap - state, con_active, delay queue,
   this session's nodes of the send queue - under every sequence of events
   Submit CON|NON, ACK, RST, timer, separate response (cancel by token), Up, Fail.
   [ns_wf c] = the code as repaired (/repo adf1662, 39d6f14) and 0 <= NSTART <= 255 (con_active
   is a uint8_t).  [NoDup (ns_sub_mids evs)] = the application uses fresh message ids
   (coap_new_message_id).  No hypothesis on the peer is needed for the repaired code: the
   theorems hold for ACKs / RSTs of arbitrary ids, which includes the property's peer. *)
From LibcoapV Require Import Base.Tactics Nstart.Nstart Nstart.NstartProofs Nstart.NstartFail
  Nstart.NstartFailProofs Nstart.NstartCtx Nstart.NstartCtxProofs.
Local Open Scope Z_scope.

(* Bound, for every reachable state and on the observable history.  con_active is exactly the
   number of this session's nodes in the send queue, all of them are CONs, there are at most
   NSTART of them; the delay queue holds only messages that were never transmitted
   (retransmit_cnt = 0); and the in-flight list that the history checker computes from the wire
   alone (transmitted, minus acknowledged / reset / given up / cancelled / failed) is that set,
   so it never exceeds NSTART either - at every prefix, since evs is arbitrary. *)
Theorem C08_bound : forall c est0 evs, ns_wf c -> NoDup (ns_sub_mids evs) ->
  let s := ns_run c (ns_init est0) evs in
  ns_act s = Z.of_nat (length (ns_sq s)) /\
  forallb ns_ncon (ns_sq s) = true /\
  Z.of_nat (length (ns_sq s)) <= ns_nstart c /\
  forallb ns_cnt0 (ns_dq s) = true /\
  exists m, ns_mon_run c (ns_mkmon true est0 [] []) (ns_trace c (ns_init est0) evs) = Some m /\
            ns_minfl m = map ns_nmsg (ns_sq s) /\ ns_mpend m = map ns_nmsg (ns_dq s) /\
            Z.of_nat (length (ns_minfl m)) <= ns_nstart c.
Proof. exact ns_bound. Qed.
Print Assumptions C08_bound.

(* FIFO, none lost: the messages that left the delay queue (first transmission outside their
   own coap_send, or discarded by a disconnect), in the order in which they left it, followed
   by what is still waiting, are exactly the held submissions in submission order. *)
Theorem C08_fifo_once : forall c est0 evs, ns_wf c ->
  let t := ns_trace c (ns_init est0) evs in
  ns_released t ++ map ns_nmsg (ns_dq (ns_run c (ns_init est0) evs)) = ns_held t.
Proof.
  intros c est0 evs Hwf. exact (ns_fifo_once c Hwf evs _ (ns_init_inv c est0 Hwf)).
Qed.
Print Assumptions C08_fifo_once.

(* exactly once: no message id is transmitted for the first time twice *)
Theorem C08_once : forall c est0 evs, ns_wf c -> NoDup (ns_sub_mids evs) ->
  NoDup (map ns_mid (ns_txs (flat_map snd (ns_trace c (ns_init est0) evs)))).
Proof. intros c est0 evs Hwf. exact (ns_tx_once c Hwf est0 evs). Qed.
Print Assumptions C08_once.

(* nothing waits without a reason: on an established session the oldest held message is a
   CON and all NSTART slots are taken *)
Theorem C08_no_needless_hold : forall c est0 evs, ns_wf c ->
  let s := ns_run c (ns_init est0) evs in
  ns_est s = true ->
  match ns_dq s with
  | [] => True
  | q :: _ => ns_ncon q = true /\ Z.of_nat (length (ns_sq s)) = ns_nstart c
  end.
Proof. exact ns_no_needless_hold. Qed.
Print Assumptions C08_no_needless_hold.

(* none lost, the progress side: when every in-flight exchange of an established session has
   finished (acknowledged, reset, given up, cancelled) nothing is left waiting *)
Theorem C08_drained_when_idle : forall c est0 evs, ns_wf c -> 1 <= ns_nstart c ->
  let s := ns_run c (ns_init est0) evs in
  ns_est s = true -> ns_sq s = [] -> ns_dq s = [].
Proof. exact ns_drained_when_idle. Qed.
Print Assumptions C08_drained_when_idle.

(* a NON submitted on an established session is transmitted inside coap_send (any state) *)
Theorem C08_non_not_delayed : forall c s m,
  ns_open s = true -> ns_est s = true -> ns_con m = false ->
  ns_step c s (NsSubmit m) = (s, [NsAcc; NsTx m]).
Proof. exact ns_non_not_delayed. Qed.
Print Assumptions C08_non_not_delayed.

(* the session fails: every held CON is reported by exactly one NACK, nothing that was held is
   transmitted by the disconnect or at any time afterwards (whatever happens later, only message
   ids that are submitted again are ever transmitted; a client session, whose socket the
   disconnect closes, transmits nothing at all any more) *)
Theorem C08_fail_nacks : forall c est0 evs r, ns_wf c -> NoDup (ns_sub_mids evs) -> r <> ns_ICMP ->
  let s := ns_run c (ns_init est0) evs in
  ns_open s = true ->
  let s' := fst (ns_step c s (NsFail r)) in
  let o := snd (ns_step c s (NsFail r)) in
  ns_dq s' = [] /\ ns_sq s' = [] /\ ns_txs o = [] /\ ns_res o = [] /\
  (forall q, In q (ns_dq s) -> ns_ncon q = true -> ns_nack_count (ns_nmid q) o = 1%nat) /\
  (forall evs' x, ~ In x (ns_sub_mids evs') ->
                  ~ In x (map ns_mid (ns_txs (flat_map snd (ns_trace c s' evs'))))) /\
  (ns_client c = true ->
   forall evs', ns_txs (flat_map snd (ns_trace c s' evs')) = [] /\
                ns_res (flat_map snd (ns_trace c s' evs')) = []).
Proof. exact ns_fail_nacks. Qed.
Print Assumptions C08_fail_nacks.

(* the property as a checker of observable histories (the oracle that runs on the
   implementation's own traces): it accepts every history of the model ... *)
Theorem C08_checker_accepts_model : forall c est0 evs, ns_wf c -> NoDup (ns_sub_mids evs) ->
  ns_accepts c est0 (ns_trace c (ns_init est0) evs) = true.
Proof. exact ns_accepts_all. Qed.
Print Assumptions C08_checker_accepts_model.

(* ... and whatever it accepts - from any implementation - never has more than NSTART CONs in
   flight *)
Theorem C08_checker_sound_bound : forall c, 0 <= ns_nstart c -> forall t m m',
  Z.of_nat (length (ns_minfl m)) <= ns_nstart c ->
  ns_mon_run c m t = Some m' -> Z.of_nat (length (ns_minfl m')) <= ns_nstart c.
Proof. exact ns_accepts_bound. Qed.
Print Assumptions C08_checker_sound_bound.

(* ... and, as long as the session is not disconnected, the first transmissions outside their
   own coap_send happen in the order in which the messages were held, each held message at most
   once and none skipped: held so far = released so far ++ still pending *)
Theorem C08_checker_sound_fifo : forall c t m m', ns_mopen m = true -> ns_no_disconnect t ->
  ns_mon_run c m t = Some m' ->
  ns_mpend m ++ ns_held t = flat_map ns_rel_tx t ++ ns_mpend m' /\ ns_mopen m' = true.
Proof. exact ns_accepts_fifo. Qed.
Print Assumptions C08_checker_sound_fifo.

(* the hypotheses are satisfiable by a non-trivial history *)
Theorem C08_example :
  ns_wf ns_cfg_ex /\ NoDup (ns_sub_mids ns_evs_ex) /\
  map ns_mid (ns_held (ns_trace ns_cfg_ex (ns_init false) ns_evs_ex)) = [1; 2; 3; 4; 5; 8] /\
  map ns_mid (ns_released (ns_trace ns_cfg_ex (ns_init false) ns_evs_ex)) = [1; 2; 3; 4; 5; 8] /\
  map ns_mid (ns_txs (flat_map snd (ns_trace ns_cfg_ex (ns_init false) ns_evs_ex))) = [1; 2; 3; 6; 4; 5; 7] /\
  ns_accepts ns_cfg_ex false (ns_trace ns_cfg_ex (ns_init false) ns_evs_ex) = true /\
  ns_nack_count 8 (flat_map snd (ns_trace ns_cfg_ex (ns_init false) ns_evs_ex)) = 1%nat.
Proof. exact ns_example. Qed.
Print Assumptions C08_example.

(* Several sessions per context (NstartCtx.v): the send queue belongs to the context, entries are
   found by (session, id), (session, token) or session.  For every interleaving of the events of
   any number of sessions: the history and the state of each session (its data + its view of the
   shared queue) are exactly those of the single-session machine run on that session's own
   events - so every theorem above holds for every session, whatever the others do. *)
Theorem C08_sessions_independent : forall cf evs x sid,
  nsc_proj (nsc_run cf x evs) sid = ns_run (cf sid) (nsc_proj x sid) (nsc_evs_of sid evs) /\
  nsc_trace_of sid (nsc_trace cf x evs) = ns_trace (cf sid) (nsc_proj x sid) (nsc_evs_of sid evs).
Proof. exact nsc_run_proj. Qed.
Print Assumptions C08_sessions_independent.

(* spelled out for the bound: the number of a session's CON nodes in the shared queue equals its
   con_active and never exceeds its NSTART, and the checker accepts the session's history *)
Theorem C08_bound_shared_queue : forall cf est0 evs sid, ns_wf (cf sid) ->
  NoDup (ns_sub_mids (nsc_evs_of sid evs)) ->
  let x := nsc_run cf (nsc_init est0) evs in
  let mine := nsc_view sid (nsc_q x) in
  ns_act (nsc_ss x sid) = Z.of_nat (length mine) /\
  forallb ns_ncon mine = true /\
  Z.of_nat (length mine) <= ns_nstart (cf sid) /\
  ns_accepts (cf sid) (est0 sid) (nsc_trace_of sid (nsc_trace cf (nsc_init est0) evs)) = true.
Proof. exact nsc_bound. Qed.
Print Assumptions C08_bound_shared_queue.

(* two sessions using the same message ids, interleaved on one queue *)
Theorem C08_shared_queue_example :
  let x := nsc_run nsc_cf_ex (nsc_init (fun _ => true)) nsc_evs_ex in
  map (fun n => (nsc_sid n, ns_nmid (nsc_nd n))) (nsc_q x) = [] /\
  map (fun p => (fst (fst p), snd p)) (nsc_trace nsc_cf_ex (nsc_init (fun _ => true)) nsc_evs_ex) =
   [(0, [NsAcc; NsTx (ns_mkmsg true 7 101)]); (1, [NsAcc; NsTx (ns_mkmsg true 7 201)]);
    (0, [NsAcc]); (1, [NsAcc]);
    (1, [NsTx (ns_mkmsg true 8 202)]);
    (0, [NsTx (ns_mkmsg true 8 102); NsNack 2 7 true]);
    (0, [NsRe (ns_mkmsg true 8 102)]); (0, [NsNack 0 8 true]);
    (1, [NsRe (ns_mkmsg true 8 202)]); (1, [NsNack 2 8 true])].
Proof. exact nsc_example. Qed.
Print Assumptions C08_shared_queue_example.

(* Failing socket writes (coap_socket_send returns -1; NstartFail.v: the event NsfErr makes the
   next write fail, wherever it is attempted - coap_send, the flush loop, a retransmission).
   Whatever fails, con_active stays the number of the session's CON nodes in the send queue and
   never exceeds NSTART, and the delay queue still holds only never-transmitted messages. *)
Theorem C08_bound_write_failures : forall c est0 evs, ns_wf c ->
  let s := nsf_s (nsf_run c (nsf_init est0) evs) in
  ns_act s = Z.of_nat (length (ns_sq s)) /\ forallb ns_ncon (ns_sq s) = true /\
  Z.of_nat (length (ns_sq s)) <= ns_nstart c /\ forallb ns_cnt0 (ns_dq s) = true.
Proof. exact nsf_bound. Qed.
Print Assumptions C08_bound_write_failures.

(* the extension changes nothing while no write fails: states and outputs are those of the
   session machine, so the theorems above are theorems about the extended machine too *)
Theorem C08_write_failures_conservative : forall c evs x, nsf_wfail x = false ->
  nsf_s (nsf_run c x (map NsfEv evs)) = ns_run c (nsf_s x) evs /\
  map snd (nsf_trace c x (map NsfEv evs)) = map snd (ns_trace c (nsf_s x) evs).
Proof. exact nsf_no_err. Qed.
Print Assumptions C08_write_failures_conservative.

(* The code as found: coap_retransmit released the slot of the node (con_active--) for
   coap_send_pdu to take it again, which it does not do when the write fails - but the node stays
   in the send queue.  Submit CON 1; the retransmission of 1 fails; Submit CON 2 goes out: two
   CONs in flight with NSTART = 1 (replayed on the real code: corpus/C08/fixed.case; repaired by
   /repo 39d6f14). *)
Theorem C08_found_write_failure_refuted :
  exists evs,
    let x := nsf_run ns_cfg_found (nsf_init true) evs in
    let t := nsf_trace ns_cfg_found (nsf_init true) evs in
    map ns_nmid (ns_sq (nsf_s x)) = [1; 2] /\ forallb ns_ncon (ns_sq (nsf_s x)) = true /\
    ns_act (nsf_s x) = 1 /\
    Z.of_nat (length (ns_sq (nsf_s x))) > ns_nstart ns_cfg_found /\
    nsb_run ns_cfg_found (nsb_mk true true []) t 0 = Some 3.
Proof. exact nsf_bound_refuted_found. Qed.
Print Assumptions C08_found_write_failure_refuted.

(* The code as found, server side: the leisure timer of a delayed multicast response released an
   NSTART slot (coap_retransmit did con_active-- for every node) and flushed the delay queue: with
   CON 1 in flight and CON 2 held (NSTART = 1) CON 2 goes out.  Repaired (/repo 6ed059d) the event
   is the flush of an established session ([NsUp]), which does nothing in that state.  Replayed on
   the real code: corpus/C08/fixed.case (ops M = multicast request, Y = its response goes out). *)
Theorem C08_found_mcast_refuted :
  let c := ns_mkcfg 1 4 true false false in
  let s := ns_run c (ns_init true) [NsSubmit (ns_mkmsg true 1 11); NsSubmit (ns_mkmsg true 2 12)] in
  map ns_nmid (ns_sq s) = [1] /\ map ns_nmid (ns_dq s) = [2] /\
  snd (ns_mcast_found c s) = [NsTx (ns_mkmsg true 2 12)] /\
  map ns_nmid (ns_sq (fst (ns_mcast_found c s))) = [1; 2] /\
  Z.of_nat (length (ns_sq (fst (ns_mcast_found c s)))) > ns_nstart c /\
  ns_step (ns_mkcfg 1 4 true true false) s NsUp = (s, []).
Proof. exact ns_mcast_refuted_found. Qed.
Print Assumptions C08_found_mcast_refuted.

(* The code as found (pinned commit, ns_fixed = false): the RST branch of coap_dispatch
   decremented con_active before it looked the message id up.  A peer that resets a NON it
   received releases a held CON while another one is still in flight (replayed on the real code:
   corpus/C08/fixed.case; repaired by /repo adf1662). *)
Theorem C08_found_bound_refuted :
  exists evs,
    let t := ns_trace ns_cfg_found (ns_init true) evs in
    let s := ns_run ns_cfg_found (ns_init true) evs in
    ns_peer_ok [] t = true /\ NoDup (ns_sub_mids evs) /\
    ns_accepts ns_cfg_found true t = false /\
    map ns_nmid (ns_sq s) = [1; 3] /\ forallb ns_ncon (ns_sq s) = true /\
    map ns_mid (ns_txs (flat_map snd t)) = [1; 2; 3] /\
    Z.of_nat (length (ns_sq s)) > ns_nstart ns_cfg_found.
Proof. exact ns_bound_refuted_found. Qed.
Print Assumptions C08_found_bound_refuted.

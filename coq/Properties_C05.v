(* C05 - stream transports deliver the same messages however the byte stream is cut.
   Statements only; models in Stream/TcpReader.v (transcription of the TCP/TLS branch of
   coap_read_session), proofs in Stream/TcpReaderProofs.v.

   tcp_feed c s p      : the reader's "while (bytes_read > 0)" loop applied to the bytes of one read
   tcp_arrivals c s l  : the stream arrives in the pieces l; after each arrival the
                         level-triggered event loop calls coap_read_session (1472-byte reads,
                         retry while a read fills the buffer) until the socket is drained
   tcp_frames c bs     : specification - the frames of a byte string, no state machine
   tcp_wf c s          : invariant of the session fields (holds initially and is preserved)
   [true] selects the repaired line "partial_read += n"; tcp_feed_orig is the line as found. *)
From LibcoapV Require Import Base.Tactics Base.Bytes Wire.OptCodec Wire.Pdu Wire.PduProofs
  Stream.TcpReader Stream.TcpReaderProofs Stream.WsReader Stream.WsHandshake Stream.WsReaderProofs
  Stream.WsWitness.
Local Open Scope Z_scope.

(* one read of a ++ b  =  a read of a followed by a read of b: same state, same events *)
Theorem C05_tcp_split : forall c s a b,
  tcp_wf c s -> wfb a -> wfb b ->
  tcp_feed c s (a ++ b) =
  let '(s1, e1) := tcp_feed c s a in
  let '(s2, e2) := tcp_feed c s1 b in (s2, e1 ++ e2).
Proof. exact tcp_feed_app. Qed.
Print Assumptions C05_tcp_split.

(* any two ways of cutting one stream into reads (any number of cuts, down to one byte per
   read, cuts inside Len / extended length / extended TKL bytes included) end in the same
   session state with the same event list *)
Theorem C05_tcp_chunking : forall c s ch1 ch2,
  tcp_wf c s -> Forall wfb ch1 -> Forall wfb ch2 -> concat ch1 = concat ch2 ->
  tcp_feed_chunks true c s ch1 = tcp_feed_chunks true c s ch2.
Proof. exact tcp_chunking_independent. Qed.
Print Assumptions C05_tcp_chunking.

(* the same for the complete receive path: arrivals, bounded read buffer, retry loop, event loop
   (covers reads that return exactly the buffer size) *)
Theorem C05_tcp_arrivals : forall c s arr1 arr2,
  0 < tcp_rxbuf c -> tcp_wf c s -> Forall wfb arr1 -> Forall wfb arr2 ->
  concat arr1 = concat arr2 -> tcp_arrivals true c s arr1 = tcp_arrivals true c s arr2.
Proof. exact tcp_arrivals_independent. Qed.
Print Assumptions C05_tcp_arrivals.

Theorem C05_tcp_arrivals_one_read : forall c arr s,
  0 < tcp_rxbuf c -> tcp_wf c s -> Forall wfb arr ->
  tcp_arrivals true c s arr = tcp_feed c s (concat arr).
Proof. intros c arr s H. exact (tcp_arrivals_feed c H arr s). Qed.
Print Assumptions C05_tcp_arrivals_one_read.

(* the events are an explicit function of the bytes: the frames of (pending bytes ++ input) *)
Theorem C05_tcp_events_function_of_bytes : forall c s p pend s' evs,
  tcp_wf c s -> wfb p -> tcp_pending s = Some pend -> tcp_feed c s p = (s', evs) ->
  tcp_frames c (pend ++ p) = (evs, tcp_pending s') /\ tcp_wf c s'.
Proof. exact tcp_feed_frames. Qed.
Print Assumptions C05_tcp_events_function_of_bytes.

(* a concatenation of serialised messages (all four Len forms, tokens 0..65804) is delivered as
   exactly these messages, in order, and the reader is idle afterwards ... *)
Theorem C05_tcp_frames : forall c ms,
  Forall (fun m => msg_wf m /\ tcp_msg_fits c m) ms ->
  tcp_feed c TIdle (concat (map (serialize TCP) ms)) =
  (TIdle, map (fun m => TMsg (serialize TCP m)) ms).
Proof. exact tcp_feed_stream. Qed.
Print Assumptions C05_tcp_frames.

(* ... and each of them passes coap_pdu_parse_header/_opt and decodes to the message sent *)
Theorem C05_tcp_frames_delivered : forall ms,
  Forall msg_wf ms ->
  tcp_observe (map (fun m => TMsg (serialize TCP m)) ms) =
  map (fun m => TDeliver (norm_fields TCP m)) ms.
Proof. exact tcp_observe_stream. Qed.
Print Assumptions C05_tcp_frames_delivered.

(* a declared size above a cap closes the session as soon as the header is complete: nothing of
   the frame is buffered (the state holds no bytes) and whatever follows is ignored *)
Theorem C05_tcp_oversize : forall c h b0 r size rest,
  h = b0 :: r -> wfb h -> wfb rest -> len h = tcp_hdr_len b0 ->
  tcp_parse_size h = Some size -> tcp_oversize c size = true ->
  tcp_feed c TIdle (h ++ rest) = (TClosed, [TClose]).
Proof. exact tcp_oversize_closes. Qed.
Print Assumptions C05_tcp_oversize.

Theorem C05_tcp_closed_absorbing : forall c p, tcp_feed c TClosed p = (TClosed, []).
Proof. exact tcp_feed_closed. Qed.
Print Assumptions C05_tcp_closed_absorbing.

(* read_header[8] is never indexed out of bounds and the recursion fuel never runs out: only
   frames and Close are ever reported *)
Theorem C05_tcp_no_oob : forall c s p s' evs,
  tcp_wf c s -> wfb p -> tcp_feed c s p = (s', evs) -> Forall tcp_ev_clean evs.
Proof. exact tcp_feed_clean. Qed.
Print Assumptions C05_tcp_no_oob.

(* the line as found ("partial_read += bytes_read" after "bytes_read -= n") violates the split
   statement: a 17-byte TCP8 message read as 1 + 1 + 15 bytes is never delivered.  Kept as the
   record of defect #3 (fixed in /repo); replayed from corpus/C05 on every run. *)
Theorem C05_tcp_split_refuted_before_fix :
  exists c chunks,
    snd (tcp_feed_chunks false c TIdle chunks) <> snd (tcp_feed_orig c TIdle (concat chunks)).
Proof. exact tcp_orig_refuted. Qed.
Print Assumptions C05_tcp_split_refuted_before_fix.

(* non-vacuity: the same message and chunking on the repaired reader; the idle state satisfies
   the invariant; a two-message stream with caps in force *)
Example C05_tcp_nonvacuous_witness :
  tcp_feed_chunks true tcp_wit_cfg TIdle tcp_wit_chunks = (TIdle, [TMsg tcp_wit_msg]) /\
  tcp_feed tcp_wit_cfg TIdle tcp_wit_msg = (TIdle, [TMsg tcp_wit_msg]).
Proof. exact tcp_fixed_witness. Qed.

Example C05_tcp_idle_wf : forall c, tcp_wf c TIdle.
Proof. intros c. exact I. Qed.

Example C05_tcp_oversize_witness :
  tcp_feed tcp_wit_cfg TIdle [240; 255; 255; 255; 255; 1; 7; 7] = (TClosed, [TClose]).
Proof. vm_compute. reflexivity. Qed.

(* ================================================================== WebSocket ==================

   ws_arrivals c s l   : the stream arrives in the pieces l on a WS session; after each arrival the
                         level-triggered event loop calls coap_read_session, which calls coap_ws_read
                         (handshake lines read 14 bytes at a time into http_hdr[160], 14-byte frame
                         header read-ahead, payload reads) while frames are returned
   ws_run c m bs       : specification - a byte-at-a-time automaton without buffers or read sizes
   ws_mode_of s        : the automaton mode that corresponds to a reader state between two arrivals
   ws_qinv c s         : invariant of the ws fields between two arrivals (holds for ws_init)
   c                   : server/client, COAP_RXBUFFER_SIZE, the per-line handshake checks (any
                         function; Stream/WsHandshake.v holds the server-side ones), and the four
                         repairs (wsc_fix c = ws_fixed: the code as it is now in /repo)
   hypothesis "no WZero": no frame with an empty payload occurs (not a CoAP message; coap_ws_read
                         treats it differently depending on what was read along with its header) *)

(* what the reader delivers for any way the stream arrives is what the automaton delivers for the
   concatenation: a function of the bytes alone *)
Theorem C05_ws_events_function_of_bytes : forall c,
  wsc_fix c = ws_fixed -> ws_drain_buf <= wsc_rxbuf c ->
  forall arr s s' evs,
  ws_qinv c s -> Forall wfb arr ->
  ~ In WZero (snd (ws_run c (ws_mode_of s) (concat arr))) ->
  ws_arrivals c s arr = (s', evs) ->
  ws_run c (ws_mode_of s) (concat arr) = (ws_mode_of s', evs) /\ ws_qinv c s'.
Proof. exact ws_arrivals_spec. Qed.
Print Assumptions C05_ws_events_function_of_bytes.

(* any two segmentations of one stream - cuts inside handshake lines, the 2..14 frame header
   bytes (7/16/64-bit length, masking key), the payload - give the same events and leave the
   reader in the same mode *)
Theorem C05_ws_chunking : forall c s arr1 arr2,
  wsc_fix c = ws_fixed -> ws_drain_buf <= wsc_rxbuf c ->
  ws_qinv c s -> Forall wfb arr1 -> Forall wfb arr2 -> concat arr1 = concat arr2 ->
  ~ In WZero (snd (ws_run c (ws_mode_of s) (concat arr1))) ->
  snd (ws_arrivals c s arr1) = snd (ws_arrivals c s arr2) /\
  ws_mode_of (fst (ws_arrivals c s arr1)) = ws_mode_of (fst (ws_arrivals c s arr2)).
Proof. exact ws_arrivals_independent. Qed.
Print Assumptions C05_ws_chunking.

(* an accepted handshake followed by masked frames (all three length forms) of 1..rxbuf payload
   bytes, arriving in any pieces, yields "connected" and exactly the payloads, in order *)
Theorem C05_ws_frames : forall c hs l arr,
  wsc_fix c = ws_fixed -> ws_drain_buf <= wsc_rxbuf c -> wsc_server c = true ->
  ws_run c (MHs ws_flags0 []) hs = (MHdr [], [WConnected]) ->
  Forall (ws_frame_ok c) l -> Forall wfb arr -> concat arr = hs ++ ws_frames_of l ->
  snd (ws_arrivals c ws_init arr) = WConnected :: map (fun x => WMsg (snd x)) l /\
  ws_mode_of (fst (ws_arrivals c ws_init arr)) = MHdr [].
Proof. exact ws_stream_delivered. Qed.
Print Assumptions C05_ws_frames.

(* ... and every payload that is the WebSocket serialisation of a well-formed message (2 bytes
   or more, e.g. the 2-byte Ping 00 e2) is accepted by the PDU parser and decodes to it *)
Theorem C05_ws_frames_delivered : forall ms,
  Forall msg_wf ms ->
  ws_observe (map (fun m => WMsg (serialize WS m)) ms) = map (fun m => WDeliver (norm_fields WS m)) ms.
Proof. exact ws_observe_messages. Qed.
Print Assumptions C05_ws_frames_delivered.

(* the request libcoap's own client sends is such a handshake for the server-side checks *)
Theorem C05_ws_request_accepted :
  ws_run (ws_server_cfg ws_fixed) (MHs ws_flags0 []) ws_request = (MHdr [], [WConnected]).
Proof. exact ws_request_accepted. Qed.
Print Assumptions C05_ws_request_accepted.

(* a handshake line that fills the line buffer (159 bytes without end of line) closes the
   session, however it arrives *)
Theorem C05_ws_longline : forall c arr x more s' evs,
  wsc_fix c = ws_fixed -> ws_drain_buf <= wsc_rxbuf c -> Forall wfb arr ->
  concat arr = x ++ more -> ws_find_nl x = None -> len x = ws_http_buf - 1 ->
  ws_arrivals c ws_init arr = (s', evs) ->
  evs = [WFail] /\ w_closed s' = true.
Proof. exact ws_longline_closes. Qed.
Print Assumptions C05_ws_longline.

(* no write outside http_hdr[] / the frame buffers, never a reader that is stuck on a readable
   socket, no fuel exhaustion *)
Theorem C05_ws_no_oob : forall c s arr,
  wsc_fix c = ws_fixed -> ws_drain_buf <= wsc_rxbuf c ->
  ws_qinv c s -> Forall wfb arr ->
  ~ In WZero (snd (ws_run c (ws_mode_of s) (concat arr))) ->
  Forall ws_ev_clean (snd (ws_arrivals c s arr)).
Proof. exact ws_arrivals_clean. Qed.
Print Assumptions C05_ws_no_oob.

(* the code as found (records of defects #4, #17 and the two found on the way; all fixed in /repo,
   the witnesses are replayed from corpus/C05 on every run) *)
Theorem C05_ws_stack_buffer_refuted_before_fix :
  exists arr1 arr2, concat arr1 = concat arr2 /\
    snd (ws_arrivals (ws_server_cfg ws_orig) ws_init arr1) <>
    snd (ws_arrivals (ws_server_cfg ws_orig) ws_init arr2) /\
    ws_has_undef (snd (ws_arrivals (ws_server_cfg ws_orig) ws_init arr2)) = true.
Proof. exact ws_orig_stack_buffer_refuted. Qed.
Print Assumptions C05_ws_stack_buffer_refuted_before_fix.

Theorem C05_ws_longline_refuted_before_fix :
  let evs := snd (ws_arrivals (ws_server_cfg ws_orig) ws_init [ws_w_longline]) in
  ws_has_ev ws_is_oob evs = true /\ ws_has_ev ws_is_stuck evs = true /\ ws_has_ev ws_is_close evs = false.
Proof. exact ws_orig_longline_refuted. Qed.
Print Assumptions C05_ws_longline_refuted_before_fix.

Theorem C05_ws_oversize_buffered_refuted_before_fix :
  ws_has_ev ws_is_oob (snd (ws_arrivals (ws_server_cfg ws_orig) ws_init [ws_w_oversize])) = true.
Proof. exact ws_orig_oversize_refuted. Qed.
Print Assumptions C05_ws_oversize_buffered_refuted_before_fix.

Theorem C05_ws_readahead_refuted_before_fix :
  exists arr1 arr2, concat arr1 = concat arr2 /\
    snd (ws_arrivals (ws_server_cfg ws_orig) ws_init arr1) <>
    snd (ws_arrivals (ws_server_cfg ws_orig) ws_init arr2).
Proof. exact ws_orig_strand_refuted. Qed.
Print Assumptions C05_ws_readahead_refuted_before_fix.

(* client session (frames from the server are not masked): a whole message was lost until more
   bytes arrived *)
Theorem C05_ws_client_readahead_refuted_before_fix :
  exists arr1 arr2, concat arr1 = concat arr2 /\
    snd (ws_arrivals (ws_client_cfg ws_orig) ws_init arr1) = [WConnected; WMsg ws_w_content] /\
    snd (ws_arrivals (ws_client_cfg ws_orig) ws_init arr2) = [WConnected; WMsg ws_w_content; WMsg ws_w_ping].
Proof. exact ws_orig_client_strand_refuted. Qed.
Print Assumptions C05_ws_client_readahead_refuted_before_fix.

(* the answer libcoap's own server sends is accepted by the client-side checks (for the key the
   driver makes the client use), so C05_ws_events_function_of_bytes / C05_ws_chunking apply to
   client sessions with c = ws_client_cfg ws_fixed as well *)
Theorem C05_ws_response_accepted :
  ws_run (ws_client_cfg ws_fixed) (MHs ws_flags0 []) ws_response = (MHdr [], [WConnected]).
Proof. exact ws_response_accepted. Qed.
Print Assumptions C05_ws_response_accepted.

(* non-vacuity: the initial state meets the invariant, the concrete configuration meets the
   hypotheses, and the witnesses above behave on the repaired reader *)
Example C05_ws_init_invariant : forall c, ws_qinv c ws_init.
Proof. exact ws_init_qinv. Qed.

Example C05_ws_cfg_hypotheses :
  wsc_fix (ws_server_cfg ws_fixed) = ws_fixed /\ ws_drain_buf <= wsc_rxbuf (ws_server_cfg ws_fixed) /\
  wsc_server (ws_server_cfg ws_fixed) = true.
Proof. exact ws_server_cfg_fixed_ok. Qed.

Example C05_ws_nonvacuous_witnesses :
  snd (ws_arrivals (ws_server_cfg ws_fixed) ws_init (ws_w_cut (len ws_request + 8) ws_w_stream)) =
    [WConnected; WMsg ws_w_get; WMsg ws_w_ping] /\
  snd (ws_arrivals (ws_server_cfg ws_fixed) ws_init [ws_w_stream]) =
    [WConnected; WMsg ws_w_get; WMsg ws_w_ping] /\
  snd (ws_arrivals (ws_server_cfg ws_fixed) ws_init [ws_w_longline]) = [WFail] /\
  snd (ws_arrivals (ws_server_cfg ws_fixed) ws_init [ws_w_oversize]) = [WConnected; WClose 1009] /\
  snd (ws_arrivals (ws_server_cfg ws_fixed) ws_init [ws_w_strand]) =
    snd (ws_arrivals (ws_server_cfg ws_fixed) ws_init (ws_w_cut (len ws_request + 9) ws_w_strand)).
Proof. exact ws_fixed_witnesses. Qed.

Example C05_ws_client_nonvacuous :
  snd (ws_arrivals (ws_client_cfg ws_fixed) ws_init [ws_w_cstream]) =
    [WConnected; WMsg ws_w_content; WMsg ws_w_ping] /\
  wsc_fix (ws_client_cfg ws_fixed) = ws_fixed /\ ws_drain_buf <= wsc_rxbuf (ws_client_cfg ws_fixed).
Proof. exact ws_fixed_client_witness. Qed.

(* C05 - stream transports deliver the same messages however the byte stream is cut.
   Statements only; models in Stream/TcpReader.v (transcription of the TCP/TLS branch of
   coap_read_session), proofs in Stream/TcpReaderProofs.v.

   tcp_feed c s p      : the reader's "while (bytes_read > 0)" loop applied to the bytes of one read
   tcp_arrivals c s l  : the stream arrives in the pieces l; after each arrival the
                         level-triggered event loop calls coap_read_session (1472-byte reads,
                         retry while a read fills the buffer) until the socket is drained
   tcp_frames c bs     : specification - the frames of a byte string, no state machine
   tcp_wf c s          : invariant of the session fields (holds initially and is preserved)
   [true] selects the repaired line "partial_read += n"; tcp_feed_orig is the line as found. *)
From LibcoapV Require Import Base.Tactics Base.Bytes Wire.OptCodec Wire.Pdu Wire.PduProofs
  Stream.TcpReader Stream.TcpReaderProofs.
Local Open Scope Z_scope.

(* one read of a ++ b  =  a read of a followed by a read of b: same state, same events *)
Theorem C05_tcp_split : forall c s a b,
  tcp_wf c s -> wfb a -> wfb b ->
  tcp_feed c s (a ++ b) =
  let '(s1, e1) := tcp_feed c s a in
  let '(s2, e2) := tcp_feed c s1 b in (s2, e1 ++ e2).
Proof. exact tcp_feed_app. Qed.
Print Assumptions C05_tcp_split.

(* any two ways of cutting one stream into reads (any number of cuts, down to one byte per
   read, cuts inside Len / extended length / extended TKL bytes included) end in the same
   session state with the same event list *)
Theorem C05_tcp_chunking : forall c s ch1 ch2,
  tcp_wf c s -> Forall wfb ch1 -> Forall wfb ch2 -> concat ch1 = concat ch2 ->
  tcp_feed_chunks true c s ch1 = tcp_feed_chunks true c s ch2.
Proof. exact tcp_chunking_independent. Qed.
Print Assumptions C05_tcp_chunking.

(* the same for the complete receive path: arrivals, bounded read buffer, retry loop, event loop
   (covers reads that return exactly the buffer size) *)
Theorem C05_tcp_arrivals : forall c s arr1 arr2,
  0 < tcp_rxbuf c -> tcp_wf c s -> Forall wfb arr1 -> Forall wfb arr2 ->
  concat arr1 = concat arr2 -> tcp_arrivals true c s arr1 = tcp_arrivals true c s arr2.
Proof. exact tcp_arrivals_independent. Qed.
Print Assumptions C05_tcp_arrivals.

Theorem C05_tcp_arrivals_one_read : forall c arr s,
  0 < tcp_rxbuf c -> tcp_wf c s -> Forall wfb arr ->
  tcp_arrivals true c s arr = tcp_feed c s (concat arr).
Proof. intros c arr s H. exact (tcp_arrivals_feed c H arr s). Qed.
Print Assumptions C05_tcp_arrivals_one_read.

(* the events are an explicit function of the bytes: the frames of (pending bytes ++ input) *)
Theorem C05_tcp_events_function_of_bytes : forall c s p pend s' evs,
  tcp_wf c s -> wfb p -> tcp_pending s = Some pend -> tcp_feed c s p = (s', evs) ->
  tcp_frames c (pend ++ p) = (evs, tcp_pending s') /\ tcp_wf c s'.
Proof. exact tcp_feed_frames. Qed.
Print Assumptions C05_tcp_events_function_of_bytes.

(* a concatenation of serialised messages (all four Len forms, tokens 0..65804) is delivered as
   exactly these messages, in order, and the reader is idle afterwards ... *)
Theorem C05_tcp_frames : forall c ms,
  Forall (fun m => msg_wf m /\ tcp_msg_fits c m) ms ->
  tcp_feed c TIdle (concat (map (serialize TCP) ms)) =
  (TIdle, map (fun m => TMsg (serialize TCP m)) ms).
Proof. exact tcp_feed_stream. Qed.
Print Assumptions C05_tcp_frames.

(* ... and each of them passes coap_pdu_parse_header/_opt and decodes to the message sent *)
Theorem C05_tcp_frames_delivered : forall ms,
  Forall msg_wf ms ->
  tcp_observe (map (fun m => TMsg (serialize TCP m)) ms) =
  map (fun m => TDeliver (norm_fields TCP m)) ms.
Proof. exact tcp_observe_stream. Qed.
Print Assumptions C05_tcp_frames_delivered.

(* a declared size above a cap closes the session as soon as the header is complete: nothing of
   the frame is buffered (the state holds no bytes) and whatever follows is ignored *)
Theorem C05_tcp_oversize : forall c h b0 r size rest,
  h = b0 :: r -> wfb h -> wfb rest -> len h = tcp_hdr_len b0 ->
  tcp_parse_size h = Some size -> tcp_oversize c size = true ->
  tcp_feed c TIdle (h ++ rest) = (TClosed, [TClose]).
Proof. exact tcp_oversize_closes. Qed.
Print Assumptions C05_tcp_oversize.

Theorem C05_tcp_closed_absorbing : forall c p, tcp_feed c TClosed p = (TClosed, []).
Proof. exact tcp_feed_closed. Qed.
Print Assumptions C05_tcp_closed_absorbing.

(* read_header[8] is never indexed out of bounds and the recursion fuel never runs out: only
   frames and Close are ever reported *)
Theorem C05_tcp_no_oob : forall c s p s' evs,
  tcp_wf c s -> wfb p -> tcp_feed c s p = (s', evs) -> Forall tcp_ev_clean evs.
Proof. exact tcp_feed_clean. Qed.
Print Assumptions C05_tcp_no_oob.

(* the line as found ("partial_read += bytes_read" after "bytes_read -= n") violates the split
   statement: a 17-byte TCP8 message read as 1 + 1 + 15 bytes is never delivered.  Kept as the
   record of defect #3 (fixed in /repo); replayed from corpus/C05 on every run. *)
Theorem C05_tcp_split_refuted_before_fix :
  exists c chunks,
    snd (tcp_feed_chunks false c TIdle chunks) <> snd (tcp_feed_orig c TIdle (concat chunks)).
Proof. exact tcp_orig_refuted. Qed.
Print Assumptions C05_tcp_split_refuted_before_fix.

(* non-vacuity: the same message and chunking on the repaired reader; the idle state satisfies
   the invariant; a two-message stream with caps in force *)
Example C05_tcp_nonvacuous_witness :
  tcp_feed_chunks true tcp_wit_cfg TIdle tcp_wit_chunks = (TIdle, [TMsg tcp_wit_msg]) /\
  tcp_feed tcp_wit_cfg TIdle tcp_wit_msg = (TIdle, [TMsg tcp_wit_msg]).
Proof. exact tcp_fixed_witness. Qed.

Example C05_tcp_idle_wf : forall c, tcp_wf c TIdle.
Proof. intros c. exact I. Qed.

Example C05_tcp_oversize_witness :
  tcp_feed tcp_wit_cfg TIdle [240; 255; 255; 255; 255; 1; 7; 7] = (TClosed, [TClose]).
Proof. vm_compute. reflexivity. Qed.

(* Proofs about the compressed COSE object (OSCORE option value), the Partial IV encoding, the
   AEAD nonce and the AAD: round trip of the option value, injectivity of nonce and AAD. *)
From LibcoapV Require Import Base.Tactics Base.Bytes Base.BytesProofs Oscore.Aes128 Oscore.Ccm
  Oscore.CcmProofs Oscore.Cbor Oscore.OscOption.
Local Open Scope Z_scope.

(* ---- CBOR heads ---- *)
Lemma osc_cbor_get_head_enc mt v r :
  0 <= mt < 8 -> 0 <= v < 4294967296 ->
  osc_cbor_get_head (osc_cbor_head mt v ++ r) = Some (mt, v, r).
Proof.
  intros Hmt Hv. unfold osc_cbor_head.
  destruct (v <? 24) eqn:E1.
  { cbn [app]. unfold osc_cbor_get_head.
    replace ((32 * mt + v) / 32) with mt by lia.
    replace ((32 * mt + v) mod 32) with v by lia.
    rewrite E1. reflexivity. }
  destruct (v <? 256) eqn:E2.
  { cbn [app]. unfold osc_cbor_get_head.
    replace ((32 * mt + 24) / 32) with mt by lia.
    replace ((32 * mt + 24) mod 32) with 24 by lia.
    reflexivity. }
  destruct (v <? 65536) eqn:E3.
  { unfold be16. cbn [app]. unfold osc_cbor_get_head.
    replace ((32 * mt + 25) / 32) with mt by lia.
    replace ((32 * mt + 25) mod 32) with 25 by lia.
    cbn [Z.ltb Z.eqb Z.compare Pos.compare Pos.compare_cont Pos.eqb].
    do 3 f_equal. lia. }
  destruct (v <? 4294967296) eqn:E4; [|lia].
  unfold be32. cbn [app]. unfold osc_cbor_get_head.
  replace ((32 * mt + 26) / 32) with mt by lia.
  replace ((32 * mt + 26) mod 32) with 26 by lia.
  cbn [Z.ltb Z.eqb Z.compare Pos.compare Pos.compare_cont Pos.eqb].
  do 3 f_equal. lia.
Qed.

Lemma osc_cbor_get_bstr_enc b r :
  len b < 4294967296 -> osc_cbor_get_bstr (osc_cbor_bstr b ++ r) = Some (b, r).
Proof.
  intros H. unfold osc_cbor_get_bstr, osc_cbor_bstr. rewrite <- app_assoc.
  pose proof (len_nonneg b).
  rewrite osc_cbor_get_head_enc by lia.
  rewrite Z.eqb_refl. rewrite len_app. pose proof (len_nonneg r).
  replace (len b <=? len b + len r) with true by lia. cbn [andb].
  rewrite take_app_exact, drop_app_exact. reflexivity.
Qed.

Lemma osc_cbor_bstr_inj a b r r' :
  len a < 4294967296 -> len b < 4294967296 ->
  osc_cbor_bstr a ++ r = osc_cbor_bstr b ++ r' -> a = b /\ r = r'.
Proof.
  intros Ha Hb H. pose proof (osc_cbor_get_bstr_enc a r Ha) as E1.
  rewrite H, osc_cbor_get_bstr_enc in E1 by assumption. inversion E1. split; reflexivity.
Qed.

Lemma osc_cbor_get_int_enc v r :
  -4294967296 <= v < 4294967296 -> osc_cbor_get_int (osc_cbor_int v ++ r) = Some (v, r).
Proof.
  intros H. unfold osc_cbor_get_int, osc_cbor_int. destruct (v <? 0) eqn:E.
  - rewrite osc_cbor_get_head_enc by lia. change (1 =? 0) with false. change (1 =? 1) with true.
    cbv iota. replace (-1 - (-1 - v)) with v by lia. reflexivity.
  - rewrite osc_cbor_get_head_enc by lia. reflexivity.
Qed.

Lemma osc_cbor_int_inj a b r r' :
  -4294967296 <= a < 4294967296 -> -4294967296 <= b < 4294967296 ->
  osc_cbor_int a ++ r = osc_cbor_int b ++ r' -> a = b /\ r = r'.
Proof.
  intros Ha Hb H. pose proof (osc_cbor_get_int_enc a r Ha) as E1.
  rewrite H, osc_cbor_get_int_enc in E1 by assumption. inversion E1. split; reflexivity.
Qed.

Lemma osc_cbor_head_len mt v : 1 <= len (osc_cbor_head mt v) <= 9.
Proof.
  unfold osc_cbor_head, osc_cbor_be64, be16, be32.
  repeat case_if; unfold len; cbn [length app]; lia.
Qed.

(* ---- AAD: injective encoding of (alg, request kid, request piv) ---- *)
Lemma osc_external_aad_len alg kid piv :
  len (osc_external_aad alg kid piv) <= 70 + len kid + len piv.
Proof.
  unfold osc_external_aad, osc_cbor_array, osc_cbor_uint, osc_cbor_int, osc_cbor_bstr.
  rewrite !len_app.
  pose proof (osc_cbor_head_len 4 5). pose proof (osc_cbor_head_len 0 1).
  pose proof (osc_cbor_head_len 4 1). pose proof (osc_cbor_head_len 1 (-1 - alg)).
  pose proof (osc_cbor_head_len 0 alg). pose proof (osc_cbor_head_len 2 (len kid)).
  pose proof (osc_cbor_head_len 2 (len piv)).
  pose proof (osc_cbor_head_len 2 (len (@nil Z))).
  change (len (@nil Z)) with 0 in *.
  destruct (alg <? 0); lia.
Qed.

Theorem osc_external_aad_inj alg kid piv alg' kid' piv' :
  -4294967296 <= alg < 4294967296 -> -4294967296 <= alg' < 4294967296 ->
  len kid < 65536 -> len kid' < 65536 -> len piv < 65536 -> len piv' < 65536 ->
  osc_external_aad alg kid piv = osc_external_aad alg' kid' piv' ->
  alg = alg' /\ kid = kid' /\ piv = piv'.
Proof.
  intros Ha Ha' Hk Hk' Hp Hp' H. unfold osc_external_aad in H.
  do 3 apply app_inv_head in H.
  apply osc_cbor_int_inj in H; try assumption. destruct H as [-> H].
  apply osc_cbor_bstr_inj in H; try lia. destruct H as [-> H].
  apply osc_cbor_bstr_inj in H; try lia. destruct H as [-> _].
  repeat split.
Qed.

Theorem osc_aad_inj alg kid piv alg' kid' piv' :
  -4294967296 <= alg < 4294967296 -> -4294967296 <= alg' < 4294967296 ->
  len kid < 65536 -> len kid' < 65536 -> len piv < 65536 -> len piv' < 65536 ->
  osc_aad alg kid piv = osc_aad alg' kid' piv' ->
  alg = alg' /\ kid = kid' /\ piv = piv'.
Proof.
  intros Ha Ha' Hk Hk' Hp Hp' H. unfold osc_aad in H.
  do 3 apply app_inv_head in H.
  pose proof (osc_external_aad_len alg kid piv). pose proof (osc_external_aad_len alg' kid' piv').
  rewrite <- (app_nil_r (osc_cbor_bstr (osc_external_aad alg kid piv))) in H.
  rewrite <- (app_nil_r (osc_cbor_bstr (osc_external_aad alg' kid' piv'))) in H.
  apply osc_cbor_bstr_inj in H; try lia. destruct H as [H _].
  apply osc_external_aad_inj in H; assumption.
Qed.

(* ---- Partial IV ---- *)
Lemma osc_piv_bytes_len x : 0 <= x < 1099511627776 -> 1 <= len (osc_piv_bytes x) <= 5.
Proof.
  intros H. unfold osc_piv_bytes, be16, be32. repeat case_if; unfold len; cbn [length]; lia.
Qed.

Lemma osc_piv_bytes_wfb x : 0 <= x < 1099511627776 -> wfb (osc_piv_bytes x).
Proof.
  intros H. unfold osc_piv_bytes, be16, be32, wfb, is_byte.
  repeat case_if; repeat constructor; lia.
Qed.

Lemma osc_piv_bytes_val x : 0 <= x < 1099511627776 -> osc_be_val (osc_piv_bytes x) = x.
Proof.
  intros H. unfold osc_piv_bytes, be16, be32, osc_be_val.
  repeat case_if; cbn [fold_left]; lia.
Qed.

Theorem osc_piv_bytes_inj x y :
  0 <= x < 1099511627776 -> 0 <= y < 1099511627776 -> osc_piv_bytes x = osc_piv_bytes y -> x = y.
Proof.
  intros Hx Hy H. rewrite <- (osc_piv_bytes_val x Hx), <- (osc_piv_bytes_val y Hy), H. reflexivity.
Qed.

Lemma osc_take_all {A} (l : list A) : take (len l) l = l.
Proof. unfold take, len. rewrite Nat2Z.id. apply firstn_all. Qed.
Lemma osc_drop_all {A} (l : list A) : drop (len l) l = [].
Proof. unfold drop, len. rewrite Nat2Z.id. apply skipn_all. Qed.

(* ---- option value round trip ---- *)
Theorem osc_opt_decode_encode piv kidctx kid :
  len piv <= 5 ->
  match kidctx with Some c => len c <= 255 | None => True end ->
  osc_opt_decode (osc_opt_encode piv kidctx kid) = Some (piv, kidctx, kid).
Proof.
  intros Hp Hc. pose proof (len_nonneg piv) as Hp0.
  unfold osc_opt_encode.
  destruct kidctx as [c|]; destruct kid as [kd|].
  - (* h = 1, k = 1 *)
    replace (len piv + 16 + 8 =? 0) with false by lia.
    set (f := len piv + 16 + 8). unfold osc_opt_decode.
    replace ((f <? 1) || (32 <=? f)) with false by lia.
    replace (f mod 8) with (len piv) by lia.
    replace (5 <? len piv) with false by lia.
    rewrite len_app. pose proof (len_nonneg ((len c :: c) ++ kd)).
    replace (len piv + len ((len c :: c) ++ kd) <? len piv) with false by lia.
    rewrite take_app_exact, drop_app_exact.
    replace ((f / 16) mod 2 =? 1) with true by lia.
    replace ((f / 8) mod 2 =? 1) with true by lia.
    cbn [app]. rewrite len_app. pose proof (len_nonneg kd).
    replace (len c + len kd <? len c) with false by lia.
    rewrite take_app_exact, drop_app_exact. reflexivity.
  - (* h = 1, k = 0 *)
    replace (len piv + 16 + 0 =? 0) with false by lia.
    set (f := len piv + 16 + 0). unfold osc_opt_decode.
    replace ((f <? 1) || (32 <=? f)) with false by lia.
    replace (f mod 8) with (len piv) by lia.
    replace (5 <? len piv) with false by lia.
    rewrite app_nil_r.
    rewrite len_app. pose proof (len_nonneg (len c :: c)).
    replace (len piv + len (len c :: c) <? len piv) with false by lia.
    rewrite take_app_exact, drop_app_exact.
    replace ((f / 16) mod 2 =? 1) with true by lia.
    replace ((f / 8) mod 2 =? 1) with false by lia.
    replace (len c <? len c) with false by lia.
    rewrite osc_take_all, osc_drop_all. reflexivity.
  - (* h = 0, k = 1 *)
    replace (len piv + 0 + 8 =? 0) with false by lia.
    set (f := len piv + 0 + 8). unfold osc_opt_decode.
    replace ((f <? 1) || (32 <=? f)) with false by lia.
    replace (f mod 8) with (len piv) by lia.
    replace (5 <? len piv) with false by lia.
    cbn [app]. rewrite len_app. pose proof (len_nonneg kd).
    replace (len piv + len kd <? len piv) with false by lia.
    rewrite take_app_exact, drop_app_exact.
    replace ((f / 16) mod 2 =? 1) with false by lia.
    replace ((f / 8) mod 2 =? 1) with true by lia.
    reflexivity.
  - (* h = 0, k = 0 *)
    destruct (len piv + 0 + 0 =? 0) eqn:E0.
    + destruct piv; [reflexivity|]. unfold len in E0. cbn [length] in E0. lia.
    + set (f := len piv + 0 + 0). unfold osc_opt_decode.
      replace ((f <? 1) || (32 <=? f)) with false by lia.
      replace (f mod 8) with (len piv) by lia.
      replace (5 <? len piv) with false by lia.
      cbn [app]. rewrite app_nil_r.
      replace (len piv <? len piv) with false by lia.
      rewrite osc_take_all, osc_drop_all.
      replace ((f / 16) mod 2 =? 1) with false by lia.
      replace ((f / 8) mod 2 =? 1) with false by lia.
      reflexivity.
Qed.

(* ---- nonce ---- *)
Lemma osc_lpad_length n l : (length l <= n)%nat -> length (osc_lpad n l) = n.
Proof. intros H. unfold osc_lpad. rewrite app_length, repeat_length. lia. Qed.

Lemma osc_be_val_zeros k l : osc_be_val (repeat 0 k ++ l) = osc_be_val l.
Proof.
  unfold osc_be_val. rewrite fold_left_app.
  replace (fold_left (fun a b => a * 256 + b) (repeat 0 k) 0) with 0; [reflexivity|].
  induction k as [|k IH]; cbn [repeat fold_left]; [reflexivity|]. exact IH.
Qed.

Theorem osc_nonce_inj id seq id' seq' iv :
  len id <= 7 -> len id' <= 7 ->
  0 <= seq < 1099511627776 -> 0 <= seq' < 1099511627776 ->
  osc_nonce id (osc_piv_bytes seq) iv = osc_nonce id' (osc_piv_bytes seq') iv ->
  id = id' /\ seq = seq'.
Proof.
  intros Hi Hi' Hs Hs' H. unfold osc_nonce in H. apply osc_xor_inj in H.
  unfold osc_nonce_plain in H. inversion H as [[Hlen Hrest]]. clear H.
  pose proof (osc_piv_bytes_len seq Hs) as Lp. pose proof (osc_piv_bytes_len seq' Hs') as Lp'.
  unfold len in *.
  apply osc_app_inj_len in Hrest.
  2:{ rewrite !osc_lpad_length by lia. reflexivity. }
  destruct Hrest as [Hid Hpiv]. split.
  - unfold osc_lpad in Hid. replace (length id') with (length id) in Hid by lia.
    apply app_inv_head in Hid. exact Hid.
  - apply (f_equal osc_be_val) in Hpiv. unfold osc_lpad in Hpiv.
    rewrite !osc_be_val_zeros, !osc_piv_bytes_val in Hpiv by assumption. exact Hpiv.
Qed.

(* byte-level form used for received options: equal nonces from equal-length ids force equal ids
   and equal zero-extended Partial IVs *)
Lemma osc_nonce_inj_bytes id piv id' piv' iv :
  len id <= 7 -> len id' <= 7 -> len piv <= 5 -> len piv' <= 5 ->
  osc_nonce id piv iv = osc_nonce id' piv' iv ->
  id = id' /\ osc_lpad 5 piv = osc_lpad 5 piv'.
Proof.
  intros Hi Hi' Hp Hp' H. unfold osc_nonce in H. apply osc_xor_inj in H.
  unfold osc_nonce_plain in H. inversion H as [[Hlen Hrest]]. clear H.
  unfold len in *.
  apply osc_app_inj_len in Hrest.
  2:{ rewrite !osc_lpad_length by lia. reflexivity. }
  destruct Hrest as [Hid Hpiv]. split; [|exact Hpiv].
  unfold osc_lpad in Hid. replace (length id') with (length id) in Hid by lia.
  apply app_inv_head in Hid. exact Hid.
Qed.

(* ---- the strict decoder accepts only canonical encodings: whatever decodes is the encoding of
   what it decodes to (no second spelling of the same content) ---- *)
Lemma osc_take_drop_len n (r : bytes) : 0 <= n <= len r -> len (take n r) = n.
Proof. intros H. apply len_take. exact H. Qed.

Theorem osc_opt_encode_decode v piv kc kid :
  wfb v -> osc_opt_decode v = Some (piv, kc, kid) -> osc_opt_encode piv kc kid = v.
Proof.
  intros Hw H. unfold osc_opt_decode in H. destruct v as [|f r].
  { inversion H. reflexivity. }
  apply wfb_cons in Hw. destruct Hw as [Hf Hr]. unfold is_byte in Hf.
  destruct ((f <? 1) || (32 <=? f)) eqn:E1; [discriminate|].
  destruct (5 <? f mod 8) eqn:E5; [discriminate|].
  destruct (len r <? f mod 8) eqn:El; [discriminate|].
  set (n := f mod 8) in *.
  assert (Hn : len (take n r) = n) by (apply len_take; lia).
  destruct ((f / 16) mod 2 =? 1) eqn:Eh.
  - (* kid context present *)
    destruct (drop n r) as [|s r2] eqn:Ed; [discriminate|].
    destruct (len r2 <? s) eqn:Es; [discriminate|].
    assert (Hs : 0 <= s < 256).
    { assert (W : wfb (drop n r)) by (apply wfb_drop; exact Hr).
      rewrite Ed in W. apply wfb_cons in W. destruct W as [W _]. exact W. }
    assert (Hc : len (take s r2) = s) by (apply len_take; lia).
    destruct ((f / 8) mod 2 =? 1) eqn:Ek.
    + inversion H; subst piv kc kid. clear H. unfold osc_opt_encode.
      rewrite Hn, Hc. replace (n + 16 + 8 =? 0) with false by lia.
      replace (n + 16 + 8) with f by (unfold n; lia).
      f_equal. cbn [app]. rewrite take_drop, <- Ed. apply take_drop.
    + destruct (drop s r2) as [|x tl] eqn:Ed2; [|discriminate].
      inversion H; subst piv kc kid. clear H. unfold osc_opt_encode.
      rewrite Hn, Hc. replace (n + 16 + 0 =? 0) with false by lia.
      replace (n + 16 + 0) with f by (unfold n; lia).
      f_equal. rewrite app_nil_r.
      assert (E2 : take s r2 = r2) by (rewrite <- (take_drop s r2) at 2; rewrite Ed2, app_nil_r; reflexivity).
      rewrite E2, <- Ed. apply take_drop.
  - destruct ((f / 8) mod 2 =? 1) eqn:Ek.
    + inversion H; subst piv kc kid. clear H. unfold osc_opt_encode.
      rewrite Hn. replace (n + 0 + 8 =? 0) with false by lia.
      replace (n + 0 + 8) with f by (unfold n; lia).
      f_equal. cbn [app]. apply take_drop.
    + destruct (drop n r) as [|x tl] eqn:Ed; [|discriminate].
      inversion H; subst piv kc kid. clear H. unfold osc_opt_encode.
      rewrite Hn. replace (n + 0 + 0 =? 0) with false by lia.
      replace (n + 0 + 0) with f by (unfold n; lia).
      f_equal. cbn [app]. rewrite app_nil_r.
      rewrite <- (take_drop n r) at 2. rewrite Ed, app_nil_r. reflexivity.
Qed.

(* C15 - sender and recipient together: the messages a sender context puts on the wire (over any
   protect / crash-restart sequence) are delivered to a recipient context in any order, any
   number of times, interleaved with forgeries carrying any claimed Partial IV; every *message*
   (identified by its position in the sender's output, not by its Partial IV) reaches the
   handler at most once.  Follows from the two halves: Partial IVs are pairwise distinct
   (SenderSeqProofs.ss_piv_unique) and a Partial IV is accepted at most once
   (ReplayProofs.rp_at_most_once). *)
From Coq Require Import Sorted.
From LibcoapV Require Import Base.Tactics Oscore.Replay Oscore.ReplayProofs Oscore.SenderSeq
  Oscore.SenderSeqProofs.
Local Open Scope Z_scope.

(* what the network does: deliver the i-th message the sender produced (the application may have
   put any Echo option into it), or inject a forgery *)
Inductive e2e_delivery :=
| E2eDeliver (i : nat) (e : rp_echo)
| E2eForge (claimed_piv : Z).

Definition e2e_msg (pivs : list Z) (d : e2e_delivery) : rp_msg :=
  match d with
  | E2eDeliver i e => Build_rp_msg (nth i pivs 0) RpGenuine e RpRequest
  | E2eForge s => Build_rp_msg s RpForged RpEchoNone RpRequest
  end.

Definition e2e_valid (n : nat) (d : e2e_delivery) : Prop :=
  match d with E2eDeliver i _ => (i < n)%nat | E2eForge _ => True end.

(* positions (in the sender's output) of the messages that reached the handler *)
Fixpoint e2e_accepted_idx (sched : list e2e_delivery) (rs : list rp_verdict) : list nat :=
  match sched, rs with
  | d :: t, r :: rt =>
    match d with
    | E2eDeliver i _ => if rp_is_accept r then i :: e2e_accepted_idx t rt
                        else e2e_accepted_idx t rt
    | E2eForge _ => e2e_accepted_idx t rt
    end
  | _, _ => []
  end.

(* in the specification (hence in the repaired code) a forged message is never accepted *)
Lemma e2e_abs_forged_rejected : forall W b12 h a,
  Forall2 (fun m r => rp_m_auth m = RpForged -> rp_is_accept r = false)
          h (fst (rp_abs_run W b12 a h)).
Proof.
  intros W b12 h. induction h as [|m t IH]; intros a.
  - constructor.
  - cbn [rp_abs_run].
    pose proof (rp_abs_recv_forged W b12 a m) as Hf.
    destruct (rp_abs_recv W b12 a m) as [r a1].
    specialize (IH a1). destruct (rp_abs_run W b12 a1 t) as [rs a2]. cbn [fst snd] in *.
    constructor; [|exact IH].
    intro Hm. destruct Hf as [_ Hr]; [congruence|]. destruct r; try reflexivity. congruence.
Qed.

Lemma e2e_accepted_map : forall pivs sched rs,
  Forall2 (fun m r => rp_m_auth m = RpForged -> rp_is_accept r = false)
          (map (e2e_msg pivs) sched) rs ->
  map (fun i => nth i pivs 0) (e2e_accepted_idx sched rs) =
  rp_accepted_of (map (e2e_msg pivs) sched) rs.
Proof.
  intros pivs sched. induction sched as [|d t IH]; intros rs H.
  - reflexivity.
  - destruct rs as [|r rt]; [inversion H|].
    cbn [map] in H. inversion H as [|? ? ? ? Hd Ht]; subst.
    cbn [map e2e_accepted_idx rp_accepted_of].
    destruct d as [i e|s]; cbn [e2e_msg rp_m_seq rp_m_auth] in *.
    + destruct (rp_is_accept r); cbn [map]; rewrite (IH rt Ht); reflexivity.
    + rewrite (Hd eq_refl). apply IH. exact Ht.
Qed.

Lemma e2e_idx_valid : forall n sched rs,
  Forall (e2e_valid n) sched -> Forall (fun i => (i < n)%nat) (e2e_accepted_idx sched rs).
Proof.
  intros n sched. induction sched as [|d t IH]; intros rs H.
  - constructor.
  - destruct rs as [|r rt]; [constructor|].
    inversion H as [|? ? Hd Ht]; subst. cbn [e2e_accepted_idx].
    destruct d as [i e|s].
    + destruct (rp_is_accept r); [constructor; [exact Hd | apply IH; exact Ht] | apply IH; exact Ht].
    + apply IH; exact Ht.
Qed.

(* a duplicate position would be a duplicate Partial IV *)
Lemma e2e_nodup_of_map : forall (pivs : list Z) (l : list nat),
  NoDup (map (fun i => nth i pivs 0) l) -> NoDup l.
Proof.
  intros pivs l. induction l as [|i t IH]; intros Hn.
  - constructor.
  - cbn [map] in Hn. inversion Hn as [|? ? Hnot Hnd]; subst.
    constructor; [|apply IH; assumption].
    intro Hin. apply Hnot. apply in_map_iff. exists i. split; [reflexivity | exact Hin].
Qed.

(* whatever the sender did (pivs is any list), a message reaches the handler at most once;
   the validity of the positions is only there to keep the statement about real messages *)
Theorem e2e_message_at_most_once : forall pivs W b12 sched,
  Forall (e2e_valid (length pivs)) sched ->
  NoDup (e2e_accepted_idx sched
           (fst (rp_run rp_fixed W b12 rp_init (map (e2e_msg pivs) sched)))).
Proof.
  intros pivs W b12 sched Hv.
  apply (e2e_nodup_of_map pivs).
  rewrite e2e_accepted_map.
  - exact (rp_at_most_once W b12 (map (e2e_msg pivs) sched)).
  - rewrite rp_window_exact. apply e2e_abs_forged_rejected.
Qed.

(* ---- the halves fit: what a sender produces, delivered once each in the order of sending,
   is all accepted - no message is rejected because another one used its Partial IV.  (Each
   message carries a valid Echo so that B.1.2, when enabled, lets the first one arm the
   window; Echo is ignored otherwise.) *)

Definition e2e_in_order (pivs : list Z) : list rp_msg :=
  map (fun p => Build_rp_msg p RpGenuine RpEchoOk RpRequest) pivs.

Lemma e2e_abs_in_order : forall W b12 l a,
  StronglySorted Z.lt l ->
  Forall (fun p => p < rp_seq_max /\ (rp_a_armed a = true -> rp_a_hi a < p)) l ->
  fst (rp_abs_run W b12 a (e2e_in_order l)) = map (fun _ => RpAccept) l.
Proof.
  intros W b12 l. induction l as [|p t IH]; intros a Hs Hb.
  - reflexivity.
  - inversion Hs as [|? ? Hst Hlt]; subst. inversion Hb as [|? ? [Hp Hhi] Hbt]; subst.
    cbn [e2e_in_order map rp_abs_run].
    assert (Hf : rp_abs_fresh W a p = true).
    { unfold rp_abs_fresh. destruct (rp_a_armed a) eqn:Ha.
      - specialize (Hhi eq_refl). apply andb_true_intro. split; [lia|].
        apply orb_true_intro. left. lia.
      - rewrite andb_true_r. lia. }
    assert (Hstep : rp_abs_recv W b12 a (Build_rp_msg p RpGenuine RpEchoOk RpRequest) =
                    (RpAccept, rp_abs_accept a p)).
    { unfold rp_abs_recv, rp_abs_recv_req. cbn [rp_m_seq rp_m_auth rp_m_echo rp_m_kind]. rewrite Hf. cbn [negb].
      destruct (rp_a_armed a); [reflexivity|]. destruct b12; reflexivity. }
    rewrite Hstep.
    specialize (IH (rp_abs_accept a p) Hst).
    fold (e2e_in_order t).
    destruct (rp_abs_run W b12 (rp_abs_accept a p) (e2e_in_order t)) as [rs a2].
    cbn [fst] in *. f_equal. apply IH.
    rewrite Forall_forall in *. intros x Hx. split; [apply Hbt; exact Hx|].
    intros _. unfold rp_abs_accept. cbn [rp_a_hi].
    specialize (Hlt x Hx). destruct (rp_a_armed a) eqn:Ha.
    + destruct (Hbt x Hx) as [_ Hh]. specialize (Hh eq_refl). lia.
    + lia.
Qed.

Theorem e2e_in_order_all_accepted : forall freq start ops W b12,
  0 <= start <= 2 ^ 40 -> ss_freq_ok freq -> Forall ss_op_ok ops ->
  Z.of_nat (length ops) < 2 ^ 63 ->
  let pivs := ss_pivs (ss_boot freq start) ops in
  fst (rp_run rp_fixed W b12 rp_init (e2e_in_order pivs)) = map (fun _ => RpAccept) pivs.
Proof.
  intros freq start ops W b12 Hs Hf Hok Hlen pivs.
  destruct (ss_pivs_increasing freq start ops Hs Hf Hok Hlen) as [Hsort Hrange].
  rewrite rp_window_exact. apply e2e_abs_in_order; [exact Hsort|].
  eapply Forall_impl; [|exact Hrange]. cbn. intros p Hp. split.
  - unfold ss_seq_max, rp_seq_max in *. lia.
  - cbn. discriminate.
Qed.

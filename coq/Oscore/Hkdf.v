(* HKDF (RFC 5869) with HMAC-SHA-256. *)
From Coq Require Import ZArith List.
From LibcoapV Require Import Base.Bytes Oscore.Sha256.
Import ListNotations.
Local Open Scope Z_scope.

(* RFC 5869 2.2: an absent salt is HashLen zeros *)
Definition osc_hkdf_extract (salt : option bytes) (ikm : bytes) : bytes :=
  osc_hmac (match salt with Some s => s | None => repeat 0 32 end) ikm.

(* T(1) | T(2) | ... ; [n] blocks, [i] = index of the next block, [prev] = T(i-1) *)
Fixpoint osc_hkdf_blocks (n : nat) (prk info prev : bytes) (i : Z) : bytes :=
  match n with
  | O => []
  | S n' =>
      let t := osc_hmac prk (prev ++ info ++ [i]) in
      t ++ osc_hkdf_blocks n' prk info t (i + 1)
  end.

Definition osc_hkdf_expand (prk info : bytes) (l : Z) : bytes :=
  take l (osc_hkdf_blocks (Z.to_nat ((l + 31) / 32)) prk info [] 1).

Definition osc_hkdf (salt : option bytes) (ikm info : bytes) (l : Z) : bytes :=
  osc_hkdf_expand (osc_hkdf_extract salt ikm) info l.

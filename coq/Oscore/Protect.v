(* OSCORE (RFC 8613) message protection, written from the RFC as an independent reference:
   security context derivation (3.2), class E / class U option split (4.1, Figure 5; Hop-Limit
   is class U by RFC 8768, Echo and Request-Tag class E by RFC 9175), plaintext (5.3), protecting
   and verifying requests and responses (8.1 - 8.4) with AES-CCM-16-64-128 / HKDF-SHA-256.
   Messages are the abstract messages of Wire/Pdu.v; the datagram is [serialize UDP]. *)
From Coq Require Import ZArith List Bool.
From LibcoapV Require Import Base.Bytes Wire.OptCodec Wire.Pdu Oscore.Aes128 Oscore.Ccm
  Oscore.Hkdf Oscore.Cbor Oscore.OscOption.
Import ListNotations.
Local Open Scope Z_scope.

Definition OSC_ALG : Z := 10.        (* COSE AES-CCM-16-64-128 *)
Definition OSC_OPT : Z := 9.         (* OSCORE option number *)
Definition OSC_OBSERVE : Z := 6.

(* ---- security context (one direction pair) ---- *)
Record osc_sec := mkSec {
  sc_sid : bytes; sc_rid : bytes;
  sc_skey : bytes; sc_rkey : bytes;
  sc_iv : bytes; sc_idctx : option bytes }.

Definition osc_str_key : bytes := [75; 101; 121].
Definition osc_str_iv : bytes := [73; 86].

(* info = [ id : bstr, id_context : bstr / nil, alg_aead : int, type : tstr, L : uint ] *)
Definition osc_info (id : bytes) (idctx : option bytes) (typ : bytes) (l : Z) : bytes :=
  osc_cbor_array 5 ++ osc_cbor_bstr id
  ++ (match idctx with Some c => osc_cbor_bstr c | None => osc_cbor_nil end)
  ++ osc_cbor_int OSC_ALG ++ osc_cbor_tstr typ ++ osc_cbor_uint l.

Definition osc_derive (secret : bytes) (salt idctx : option bytes) (sid rid : bytes) : osc_sec :=
  mkSec sid rid
    (osc_hkdf salt secret (osc_info sid idctx osc_str_key 16) 16)
    (osc_hkdf salt secret (osc_info rid idctx osc_str_key 16) 16)
    (osc_hkdf salt secret (osc_info [] idctx osc_str_iv 13) 13)
    idctx.

(* ---- option classes ---- *)
(* class U only: Uri-Host, Uri-Port, Hop-Limit, Proxy-Scheme (Proxy-Uri has to be split by the
   caller, OSCORE itself is added) *)
Definition osc_is_outer (n : Z) : bool := (n =? 3) || (n =? 7) || (n =? 16) || (n =? 39).

(* options a recipient discards from the outer message: everything marked E in Figure 5 (plus
   Echo 252 and Request-Tag 292) and the OSCORE option *)
Definition osc_outer_discard (n : Z) : bool :=
  existsb (Z.eqb n) [1; 4; 5; 6; 8; 9; 11; 12; 14; 15; 17; 20; 23; 27; 28; 60; 252; 258; 292].

Definition osc_has (n : Z) (l : list opt) : bool := existsb (fun o => fst o =? n) l.
Definition osc_find_opt (n : Z) (l : list opt) : option opt := find (fun o => fst o =? n) l.

(* outer: class U options and a copy of Observe *)
Definition osc_outer_opts (l : list opt) : list opt :=
  filter (fun o => osc_is_outer (fst o) || (fst o =? OSC_OBSERVE)) l.
(* inner: everything else; Observe keeps its value in a request and is empty in a response *)
Definition osc_inner_opts (req : bool) (l : list opt) : list opt :=
  map (fun o => if (fst o =? OSC_OBSERVE) && negb req then (OSC_OBSERVE, []) else o)
      (filter (fun o => negb (osc_is_outer (fst o))) l).

Definition osc_merge (outer inner : list opt) : list opt :=
  fold_left (fun acc o => insert_opt (fst o) (snd o) acc) inner outer.

Definition osc_kept_outer (l : list opt) : list opt :=
  filter (fun o => negb (osc_outer_discard (fst o))) l.

(* ---- plaintext: code || class E options || 0xFF payload ---- *)
Definition osc_plaintext (code : Z) (inner : list opt) (payload : bytes) : bytes :=
  code :: opts_enc 0 inner ++ payload_area payload.

Definition osc_parse_plaintext (pt : bytes) : option (Z * list opt * bytes) :=
  match pt with
  | [] => None
  | c :: r =>
      match opts_parse (length r) 0 r with
      | None => None
      | Some (os, tail) =>
          match tail with
          | [] => Some (c, os, [])
          | _ :: [] => None
          | _ :: pl => Some (c, os, pl)
          end
      end
  end.

Definition osc_is_request (code : Z) : bool := (1 <=? code) && (code <? 32).

(* ---- protect ---- *)

(* 8.1: [seq] = sender sequence number used as Partial IV *)
Definition osc_protect_req (c : osc_sec) (m : msg) (seq : Z) : option msg :=
  if osc_has OSC_OPT (m_opts m) || osc_has 35 (m_opts m) then None else
  let piv := osc_piv_bytes seq in
  let nonce := osc_nonce (sc_sid c) piv (sc_iv c) in
  let aad := osc_aad OSC_ALG (sc_sid c) piv in
  let pt := osc_plaintext (m_code m) (osc_inner_opts true (m_opts m)) (m_payload m) in
  let ov := osc_opt_encode piv (sc_idctx c) (Some (sc_sid c)) in
  Some (mkMsg (m_type m) (if osc_has OSC_OBSERVE (m_opts m) then 5 else 2) (m_mid m) (m_token m)
          (insert_opt OSC_OPT ov (osc_outer_opts (m_opts m)))
          (osc_ccm_enc (sc_skey c) nonce aad pt)).

(* 8.3: [req_piv] = Partial IV of the request (the request kid is this endpoint's recipient id);
   a new Partial IV is used when [send_piv] is set or the response carries Observe, otherwise
   the request's nonce is reused and the OSCORE option is empty *)
Definition osc_protect_resp (c : osc_sec) (m : msg) (req_piv : bytes) (send_piv : bool)
    (seq : Z) : option msg :=
  if osc_has OSC_OPT (m_opts m) || osc_has 35 (m_opts m) then None else
  let obs := osc_has OSC_OBSERVE (m_opts m) in
  let use_piv := send_piv || obs in
  let piv := if use_piv then osc_piv_bytes seq else [] in
  let nonce := if use_piv then osc_nonce (sc_sid c) piv (sc_iv c)
               else osc_nonce (sc_rid c) req_piv (sc_iv c) in
  let aad := osc_aad OSC_ALG (sc_rid c) req_piv in
  let pt := osc_plaintext (m_code m) (osc_inner_opts false (m_opts m)) (m_payload m) in
  let ov := osc_opt_encode piv None None in
  Some (mkMsg (m_type m) (if obs then 69 else 68) (m_mid m) (m_token m)
          (insert_opt OSC_OPT ov (osc_outer_opts (m_opts m)))
          (osc_ccm_enc (sc_skey c) nonce aad pt)).

(* ---- verify (parameterised by the AEAD decryption, so that the tamper theorems can be
   stated for an ideal AEAD; the executable reference uses AES-CCM) ---- *)
Definition osc_aead_dec := bytes -> bytes -> bytes -> bytes -> option bytes.

Definition osc_ctx_match (kc cfg : option bytes) : bool :=
  osc_bytes_eqb (match kc with Some c => c | None => [] end)
                (match cfg with Some c => c | None => [] end).

(* 8.2 *)
Definition osc_unprotect_req_gen (dec : osc_aead_dec) (c : osc_sec) (o : msg) : option msg :=
  match osc_find_opt OSC_OPT (m_opts o) with
  | None => None
  | Some (_, ov) =>
      match osc_opt_decode ov with
      | None => None
      | Some (piv, kc, kid) =>
          match kid, piv with
          | None, _ => None                   (* kid is mandatory in a request *)
          | _, [] => None                     (* so is the Partial IV *)
          | Some k, _ =>
              if negb (osc_bytes_eqb k (sc_rid c)) then None else
              if negb (osc_ctx_match kc (sc_idctx c)) then None else
              match dec (sc_rkey c) (osc_nonce k piv (sc_iv c)) (osc_aad OSC_ALG k piv)
                        (m_payload o) with
              | None => None
              | Some pt =>
                  match osc_parse_plaintext pt with
                  | None => None
                  | Some (code, inner, pl) =>
                      Some (mkMsg (m_type o) code (m_mid o) (m_token o)
                              (osc_merge (osc_kept_outer (m_opts o)) inner) pl)
                  end
              end
          end
      end
  end.

(* the Observe value handed to the application in a notification: the (up to) three least
   significant bytes of the notification's Partial IV (RFC 8613 4.1.3.5.2) *)
Definition osc_obs_of_piv (piv : bytes) : bytes := drop (len piv - 3) piv.
Definition osc_fix_observe (piv : bytes) (l : list opt) : list opt :=
  map (fun o => if fst o =? OSC_OBSERVE then (OSC_OBSERVE, osc_obs_of_piv piv) else o) l.

(* 8.4: the response is bound to the request by its token; [req_piv] as sent in the request *)
Definition osc_unprotect_resp_gen (dec : osc_aead_dec) (c : osc_sec) (req_token req_piv : bytes)
    (o : msg) : option msg :=
  if negb (osc_bytes_eqb (m_token o) req_token) then None else
  match osc_find_opt OSC_OPT (m_opts o) with
  | None => None
  | Some (_, ov) =>
      match osc_opt_decode ov with
      | None => None
      | Some (piv, _, kid) =>
          (* a kid is optional in a response; if present it has to name the peer that was asked *)
          if negb (match kid with Some k => osc_bytes_eqb k (sc_rid c) | None => true end) then None else
          let nonce := match piv with
                       | [] => osc_nonce (sc_sid c) req_piv (sc_iv c)
                       | _ => osc_nonce (sc_rid c) piv (sc_iv c)
                       end in
          match dec (sc_rkey c) nonce (osc_aad OSC_ALG (sc_sid c) req_piv) (m_payload o) with
          | None => None
          | Some pt =>
              match osc_parse_plaintext pt with
              | None => None
              | Some (code, inner, pl) =>
                  Some (mkMsg (m_type o) code (m_mid o) (m_token o)
                          (osc_merge (osc_kept_outer (m_opts o)) (osc_fix_observe piv inner)) pl)
              end
          end
      end
  end.

Definition osc_unprotect_req := osc_unprotect_req_gen osc_ccm_dec.
Definition osc_unprotect_resp := osc_unprotect_resp_gen osc_ccm_dec.

(* what an endpoint does with a received message carrying an OSCORE option: request codes are
   verified against the recipient context, anything else against the request it answers
   ([assoc] = token and Partial IV of the outstanding request, if any) *)
Definition osc_unprotect (c : osc_sec) (assoc : option (bytes * bytes)) (o : msg) : option msg :=
  if osc_is_request (m_code o) then osc_unprotect_req c o
  else match assoc with
       | Some (tok, piv) => osc_unprotect_resp c tok piv o
       | None => None
       end.

(* what reaches the request handler of a resource: a message carrying the OSCORE option is
   verified (and dropped when verification fails); one without it is handed over as it is unless
   the resource is for OSCORE only (then it is refused, 4.01) *)
Definition osc_server_deliver (dec : osc_aead_dec) (s : osc_sec) (oscore_only : bool) (o : msg)
    : option msg :=
  match osc_find_opt OSC_OPT (m_opts o) with
  | Some _ => if osc_is_request (m_code o) then osc_unprotect_req_gen dec s o else None
  | None => if oscore_only then None else Some o
  end.

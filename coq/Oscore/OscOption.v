(* The OSCORE option value = compressed COSE object header (RFC 8613 section 6.1):
     flag byte  0 0 0 h k n2 n1 n0 ; n bytes Partial IV ; [ s (1 byte) ; s bytes kid context ] ;
     remaining bytes = kid (present iff k = 1).
   "If the OSCORE flag bits are all zero (0x00), the option value SHALL be empty."
   Also the AEAD nonce (5.2) and the external_aad / Enc_structure (5.4, RFC 8152 5.3). *)
From Coq Require Import ZArith List Bool.
From LibcoapV Require Import Base.Bytes Oscore.Aes128 Oscore.Cbor.
Import ListNotations.
Local Open Scope Z_scope.

(* minimal big-endian encoding of the sender sequence number; 0 is the single byte 00 *)
Definition osc_piv_bytes (x : Z) : bytes :=
  if x <? 256 then [x]
  else if x <? 65536 then be16 x
  else if x <? 16777216 then [x / 65536; (x / 256) mod 256; x mod 256]
  else if x <? 4294967296 then be32 x
  else (x / 4294967296) mod 256 :: be32 (x mod 4294967296).

Definition osc_be_val (l : bytes) : Z := fold_left (fun a b => a * 256 + b) l 0.

Definition osc_opt_encode (piv : bytes) (kidctx kid : option bytes) : bytes :=
  let flag := len piv
              + (match kidctx with Some _ => 16 | None => 0 end)
              + (match kid with Some _ => 8 | None => 0 end) in
  if flag =? 0 then []
  else flag :: piv
       ++ (match kidctx with Some c => len c :: c | None => [] end)
       ++ (match kid with Some k => k | None => [] end).

(* strict decoder: reserved bits, n = 6/7, an explicit all-zero flag byte, truncated fields and
   bytes after the last field when k = 0 are all malformed *)
Definition osc_opt_decode (v : bytes) : option (bytes * option bytes * option bytes) :=
  match v with
  | [] => Some ([], None, None)
  | f :: r =>
      if (f <? 1) || (32 <=? f) then None else
      let n := f mod 8 in
      let h := (f / 16) mod 2 in
      let k := (f / 8) mod 2 in
      if 5 <? n then None else
      if len r <? n then None else
      let piv := take n r in
      let r1 := drop n r in
      let after_ctx : option (option bytes * bytes) :=
        if h =? 1 then
          match r1 with
          | [] => None
          | s :: r2 => if len r2 <? s then None else Some (Some (take s r2), drop s r2)
          end
        else Some (None, r1) in
      match after_ctx with
      | None => None
      | Some (kc, r3) =>
          if k =? 1 then Some (piv, kc, Some r3)
          else match r3 with [] => Some (piv, kc, None) | _ => None end
      end
  end.

(* left-pad with zeros to [n] bytes *)
Definition osc_lpad (n : nat) (l : bytes) : bytes := repeat 0 (n - length l) ++ l.

(* RFC 8613 5.2: nonce = (S | pad(ID_PIV, nonce_len - 6) | pad(PIV, 5)) xor Common IV,
   nonce length 13 for AES-CCM-16-64-128 *)
Definition osc_nonce_plain (id piv : bytes) : bytes :=
  len id :: osc_lpad 7 id ++ osc_lpad 5 piv.
Definition osc_nonce (id piv common_iv : bytes) : bytes :=
  osc_xor (osc_nonce_plain id piv) common_iv.

(* RFC 8613 5.4: external_aad = bstr .cbor [ oscore_version = 1, [alg_aead], request_kid,
   request_piv, options = h'' ];  RFC 8152 5.3: Enc_structure = [ "Encrypt0", h'', external_aad ] *)
Definition osc_external_aad (alg : Z) (kid piv : bytes) : bytes :=
  osc_cbor_array 5 ++ osc_cbor_uint 1 ++ osc_cbor_array 1 ++ osc_cbor_int alg
  ++ osc_cbor_bstr kid ++ osc_cbor_bstr piv ++ osc_cbor_bstr [].

Definition osc_str_encrypt0 : bytes := [69; 110; 99; 114; 121; 112; 116; 48].

Definition osc_aad (alg : Z) (kid piv : bytes) : bytes :=
  osc_cbor_array 3 ++ osc_cbor_tstr osc_str_encrypt0 ++ osc_cbor_bstr []
  ++ osc_cbor_bstr (osc_external_aad alg kid piv).

(* Proofs about the OSCORE reference of Oscore/Protect.v: class E/U split and merge, plaintext
   round trip, verification inverts protection for requests and responses, and what acceptance
   implies (tamper rejection, stated for an ideal AEAD in a Section). *)
From LibcoapV Require Import Base.Tactics Base.Bytes Base.BytesProofs Wire.OptCodec
  Wire.OptCodecProofs Wire.Pdu Wire.PduProofs Oscore.Aes128 Oscore.Ccm Oscore.CcmProofs
  Oscore.Hkdf Oscore.Cbor Oscore.OscOption Oscore.OscOptionProofs Oscore.Protect.
Local Open Scope Z_scope.

(* ---- ascending lists ---- *)
Lemma osc_ascending_weaken l : forall p q, q <= p -> ascending p l -> ascending q l.
Proof. destruct l as [|o tl]; intros p q Hq H; cbn [ascending] in *; [exact I|]. split; [lia|tauto]. Qed.

Lemma osc_ascending_filter f l : forall p, ascending p l -> ascending p (filter f l).
Proof.
  induction l as [|o tl IH]; intros p H; cbn [filter]; [exact I|].
  cbn [ascending] in H. destruct H as [H1 H2]. destruct (f o).
  - cbn [ascending]. split; [exact H1|]. apply IH. exact H2.
  - apply IH. apply (osc_ascending_weaken tl (fst o)); assumption.
Qed.

Lemma osc_ascending_map g l :
  (forall o, fst (g o) = fst o) -> forall p, ascending p l -> ascending p (map g l).
Proof.
  intros Hg. induction l as [|o tl IH]; intros p H; cbn [map]; [exact I|].
  cbn [ascending] in *. rewrite Hg. destruct H as [H1 H2]. split; [exact H1|]. apply IH. exact H2.
Qed.

Lemma osc_ascending_snoc l : forall p x,
  ascending p (l ++ [x]) -> ascending p l /\ (forall o, In o l -> fst o <= fst x) /\ p <= fst x.
Proof.
  induction l as [|a tl IH]; intros p x H.
  - cbn [app ascending] in H. cbn [ascending]. repeat split; [intros o []|tauto].
  - cbn [app ascending] in H. destruct H as [H1 H2]. destruct (IH _ _ H2) as (A & B & C).
    cbn [ascending]. repeat split; try assumption; [|lia].
    intros o [<-|Ho]; [exact C|]. apply B. exact Ho.
Qed.

(* ---- insertion ---- *)
Lemma osc_insert_all_le n v l :
  (forall o, In o l -> fst o <= n) -> insert_opt n v l = l ++ [(n, v)].
Proof.
  induction l as [|[k w] tl IH]; intros H; cbn [insert_opt app]; [reflexivity|].
  assert (k <= n) by (apply (H (k, w)); left; reflexivity).
  replace (k <=? n) with true by lia. rewrite IH; [reflexivity|].
  intros o Ho. apply H. right. exact Ho.
Qed.

Lemma osc_insert_snoc_lt n v l x :
  n < fst x -> insert_opt n v (l ++ [x]) = insert_opt n v l ++ [x].
Proof.
  intros Hn. induction l as [|[k w] tl IH]; cbn [insert_opt app].
  - destruct x as [kx wx]. cbn [fst] in Hn. replace (kx <=? n) with false by lia. reflexivity.
  - destruct (k <=? n); [rewrite IH|]; reflexivity.
Qed.

Lemma osc_merge_snoc_lt inner : forall outer x,
  (forall i, In i inner -> fst i < fst x) ->
  osc_merge (outer ++ [x]) inner = osc_merge outer inner ++ [x].
Proof.
  unfold osc_merge. induction inner as [|i tl IH]; intros outer x H; cbn [fold_left]; [reflexivity|].
  rewrite osc_insert_snoc_lt by (apply H; left; reflexivity).
  apply IH. intros j Hj. apply H. right. exact Hj.
Qed.

Lemma osc_filter_insert_out f n v l :
  f (n, v) = false -> filter f (insert_opt n v l) = filter f l.
Proof.
  intros Hf. induction l as [|[k w] tl IH]; cbn [insert_opt filter].
  - rewrite Hf. reflexivity.
  - destruct (k <=? n); cbn [filter]; [rewrite IH; reflexivity|rewrite Hf; reflexivity].
Qed.

Lemma osc_find_insert n v l :
  osc_has n l = false -> osc_find_opt n (insert_opt n v l) = Some (n, v).
Proof.
  unfold osc_has, osc_find_opt. induction l as [|[k w] tl IH]; intros H; cbn [insert_opt find fst].
  - rewrite Z.eqb_refl. reflexivity.
  - cbn [existsb fst] in H. apply orb_false_iff in H. destruct H as [H1 H2].
    destruct (k <=? n); cbn [find fst].
    + rewrite H1. apply IH. exact H2.
    + rewrite Z.eqb_refl. reflexivity.
Qed.

Lemma osc_has_filter n f l : osc_has n l = false -> osc_has n (filter f l) = false.
Proof.
  unfold osc_has. induction l as [|o tl IH]; intros H; cbn [filter existsb]; [reflexivity|].
  cbn [existsb] in H. apply orb_false_iff in H. destruct H as [H1 H2].
  destruct (f o); cbn [existsb]; [rewrite H1|]; apply IH; exact H2.
Qed.

Lemma osc_merge_app (outer a b : list opt) :
  osc_merge outer (a ++ b) = osc_merge (osc_merge outer a) b.
Proof. unfold osc_merge. apply fold_left_app. Qed.

Lemma osc_merge_one (outer : list opt) (x : opt) :
  osc_merge outer [x] = insert_opt (fst x) (snd x) outer.
Proof. reflexivity. Qed.

(* ---- split and merge: the options of a message, cut into two classes by any predicate on
   the option number and merged again by sorted insertion, are the original list ---- *)
Theorem osc_split_merge (P : Z -> bool) (l : list opt) :
  ascending 0 l ->
  osc_merge (filter (fun o : opt => P (fst o)) l) (filter (fun o : opt => negb (P (fst o))) l) = l.
Proof.
  induction l as [|x l IH] using rev_ind; intros Hasc; [reflexivity|].
  destruct (osc_ascending_snoc _ _ _ Hasc) as (Hl & Hle & _).
  rewrite !filter_app. cbn [filter]. destruct (P (fst x)) eqn:Px; cbn [negb].
  - rewrite app_nil_r. rewrite osc_merge_snoc_lt.
    + f_equal. apply IH. exact Hl.
    + intros i Hi. apply filter_In in Hi. destruct Hi as [Hi Hp].
      specialize (Hle i Hi). destruct (Z.eq_dec (fst i) (fst x)) as [E|E]; [|lia].
      rewrite E, Px in Hp. discriminate.
  - rewrite app_nil_r, osc_merge_app, osc_merge_one. pose proof (IH Hl) as E. rewrite E.
    rewrite osc_insert_all_le by exact Hle. destruct x; reflexivity.
Qed.

(* what a recipient keeps of the outer options a sender produced = the class U options *)
Lemma osc_kept_outer_spec n :
  negb (osc_outer_discard n) && (osc_is_outer n || (n =? OSC_OBSERVE)) = osc_is_outer n.
Proof.
  unfold osc_outer_discard, osc_is_outer, OSC_OBSERVE. cbn [existsb].
  destruct (n =? 3) eqn:E3; [replace n with 3 by lia; reflexivity|].
  destruct (n =? 7) eqn:E7; [replace n with 7 by lia; reflexivity|].
  destruct (n =? 16) eqn:E16; [replace n with 16 by lia; reflexivity|].
  destruct (n =? 39) eqn:E39; [replace n with 39 by lia; reflexivity|].
  cbn [orb]. destruct (n =? 6); [|rewrite andb_false_r; reflexivity].
  rewrite andb_true_r. destruct (n =? 1), (n =? 4), (n =? 5); reflexivity.
Qed.

Lemma osc_filter_filter {A} (f g : A -> bool) l :
  filter f (filter g l) = filter (fun x => f x && g x) l.
Proof.
  induction l as [|x l IH]; cbn [filter]; [reflexivity|].
  destruct (g x) eqn:G; cbn [filter]; rewrite ?andb_true_r, ?andb_false_r;
    destruct (f x); rewrite IH; reflexivity.
Qed.

Lemma osc_kept_of_sent ov l :
  osc_kept_outer (insert_opt OSC_OPT ov (osc_outer_opts l)) = filter (fun o => osc_is_outer (fst o)) l.
Proof.
  unfold osc_kept_outer. rewrite osc_filter_insert_out by reflexivity.
  unfold osc_outer_opts. rewrite osc_filter_filter. apply filter_ext.
  intros o. apply osc_kept_outer_spec.
Qed.

(* ---- plaintext ---- *)
Theorem osc_parse_plaintext_enc code inner payload :
  ascending 0 inner -> Forall opt_wf inner ->
  osc_parse_plaintext (osc_plaintext code inner payload) = Some (code, inner, payload).
Proof.
  intros Hasc Hwf. unfold osc_parse_plaintext, osc_plaintext.
  rewrite opts_parse_enc; try assumption; try lia.
  - destruct payload as [|x p]; reflexivity.
  - destruct payload as [|x p]; [left; reflexivity|right; eexists; reflexivity].
  - rewrite app_length. pose proof (opts_enc_length inner 0). lia.
Qed.

(* ---- paired contexts ---- *)
Definition osc_paired (c s : osc_sec) : Prop :=
  sc_sid c = sc_rid s /\ sc_rid c = sc_sid s /\ sc_skey c = sc_rkey s /\ sc_rkey c = sc_skey s /\
  sc_iv c = sc_iv s /\ sc_idctx c = sc_idctx s.

(* the two endpoints that derive from the same master secret, salt and id context with swapped
   ids are paired *)
Lemma osc_derive_paired secret salt idctx a b :
  osc_paired (osc_derive secret salt idctx a b) (osc_derive secret salt idctx b a).
Proof. unfold osc_paired, osc_derive. cbn [sc_sid sc_rid sc_skey sc_rkey sc_iv sc_idctx]. repeat split. Qed.

Lemma osc_paired_sym c s : osc_paired c s -> osc_paired s c.
Proof. unfold osc_paired. intros (A & B & C & D & E & F). repeat split; congruence. Qed.

(* messages OSCORE can protect: options in wire order and encodable, no OSCORE option yet,
   Proxy-Uri already split *)
Definition osc_msg_ok (m : msg) : Prop :=
  Forall opt_wf (m_opts m) /\ ascending 0 (m_opts m) /\
  osc_has OSC_OPT (m_opts m) = false /\ osc_has 35 (m_opts m) = false.

Definition osc_ctx_ok (c : osc_sec) : Prop :=
  match sc_idctx c with Some x => len x <= 255 | None => True end.

Lemma osc_inner_req (l : list opt) :
  osc_inner_opts true l = filter (fun o : opt => negb (osc_is_outer (fst o))) l.
Proof.
  unfold osc_inner_opts.
  transitivity (map (fun o : opt => o) (filter (fun o : opt => negb (osc_is_outer (fst o))) l)).
  - apply map_ext. intros o. cbn [negb]. rewrite andb_false_r. reflexivity.
  - apply map_id.
Qed.

Lemma osc_filter_map_fst (Q : Z -> bool) (g : opt -> opt) (l : list opt) :
  (forall o, fst (g o) = fst o) ->
  filter (fun o : opt => Q (fst o)) (map g l) = map g (filter (fun o : opt => Q (fst o)) l).
Proof.
  intros Hg. induction l as [|o l IH]; cbn [map filter]; [reflexivity|].
  rewrite Hg. destruct (Q (fst o)); cbn [map]; rewrite IH; reflexivity.
Qed.

Lemma osc_filter_map_id (Q : Z -> bool) (g : opt -> opt) (l : list opt) :
  (forall o, fst (g o) = fst o) -> (forall o, Q (fst o) = true -> g o = o) ->
  filter (fun o : opt => Q (fst o)) (map g l) = filter (fun o : opt => Q (fst o)) l.
Proof.
  intros Hg Hid. induction l as [|o l IH]; cbn [map filter]; [reflexivity|].
  rewrite Hg. destruct (Q (fst o)) eqn:E; rewrite IH; [rewrite (Hid o E)|]; reflexivity.
Qed.

Lemma osc_fix_fst piv (o : opt) :
  fst (if fst o =? OSC_OBSERVE then (OSC_OBSERVE, osc_obs_of_piv piv) else o) = fst o.
Proof. destruct (fst o =? OSC_OBSERVE) eqn:E; cbn [fst]; [lia|reflexivity]. Qed.

(* what the recipient of a response merges = the original options with Observe re-valued *)
Lemma osc_resp_merge piv (l : list opt) :
  ascending 0 l ->
  osc_merge (filter (fun o : opt => osc_is_outer (fst o)) l)
            (osc_fix_observe piv (osc_inner_opts false l)) = osc_fix_observe piv l.
Proof.
  intros Hasc. unfold osc_fix_observe at 1, osc_inner_opts. rewrite map_map.
  set (g := fun o : opt => if fst o =? OSC_OBSERVE then (OSC_OBSERVE, osc_obs_of_piv piv) else o).
  rewrite (map_ext _ g).
  2:{ intros [n v]. unfold g. cbn [negb fst]. rewrite andb_true_r.
      destruct (n =? OSC_OBSERVE) eqn:E; cbn [fst]; rewrite ?E; reflexivity. }
  rewrite <- (osc_filter_map_fst (fun n => negb (osc_is_outer n)) g) by (apply osc_fix_fst).
  rewrite <- (osc_filter_map_id osc_is_outer g l).
  - fold (osc_fix_observe piv l). apply osc_split_merge.
    apply osc_ascending_map; [apply osc_fix_fst|exact Hasc].
  - apply osc_fix_fst.
  - intros o Ho. unfold g. destruct (fst o =? OSC_OBSERVE) eqn:E; [|reflexivity].
    replace (fst o) with 6 in Ho by (unfold OSC_OBSERVE in E; lia). discriminate.
Qed.

Lemma osc_inner_wf req (l : list opt) :
  Forall opt_wf l -> ascending 0 l ->
  Forall opt_wf (osc_inner_opts req l) /\ ascending 0 (osc_inner_opts req l).
Proof.
  intros Hwf Hasc. unfold osc_inner_opts. split.
  - apply Forall_map. apply Forall_forall. intros o Ho. apply filter_In in Ho. destruct Ho as [Ho _].
    rewrite Forall_forall in Hwf. specialize (Hwf o Ho). destruct o as [n v]. cbn [fst] in *.
    destruct ((n =? OSC_OBSERVE) && negb req); [|exact Hwf].
    unfold opt_wf, OSC_OBSERVE. cbn [fst snd]. repeat split; try lia; [unfold len; cbn; lia|constructor].
  - apply osc_ascending_map.
    + intros [n v]. cbn [fst]. destruct ((n =? OSC_OBSERVE) && negb req) eqn:E; cbn [fst]; [|reflexivity].
      apply andb_true_iff in E. unfold OSC_OBSERVE in *. lia.
    + apply osc_ascending_filter. exact Hasc.
Qed.

Lemma osc_msg_eta (m : msg) :
  mkMsg (m_type m) (m_code m) (m_mid m) (m_token m) (m_opts m) (m_payload m) = m.
Proof. destruct m; reflexivity. Qed.

(* ---- 8.1 / 8.2: the recipient recovers exactly the request ---- *)
Theorem osc_request_roundtrip c s m seq :
  osc_paired c s -> osc_ctx_ok c -> osc_msg_ok m -> 0 <= seq < 1099511627776 ->
  exists o, osc_protect_req c m seq = Some o /\ osc_unprotect_req s o = Some m.
Proof.
  intros (P1 & P2 & P3 & P4 & P5 & P6) Hc (Hwf & Hasc & H9 & H35) Hseq.
  unfold osc_protect_req. rewrite H9, H35. cbn [orb].
  eexists. split; [reflexivity|].
  unfold osc_unprotect_req, osc_unprotect_req_gen. cbn [m_opts m_payload m_type m_mid m_token].
  rewrite osc_find_insert by (apply osc_has_filter; exact H9).
  pose proof (osc_piv_bytes_len seq Hseq) as Lp.
  rewrite osc_opt_decode_encode by (try exact Hc; lia).
  destruct (osc_piv_bytes seq) as [|p0 ps] eqn:Epiv.
  { unfold len in Lp. cbn [length] in Lp. lia. }
  rewrite <- P1, osc_bytes_eqb_refl. cbn [negb].
  unfold osc_ctx_match. rewrite P6, osc_bytes_eqb_refl. cbn [negb].
  rewrite <- P3, <- P5. rewrite osc_ccm_dec_enc.
  destruct (osc_inner_wf true _ Hwf Hasc) as [Iw Ia].
  rewrite osc_parse_plaintext_enc by assumption.
  rewrite osc_kept_of_sent, osc_inner_req, osc_split_merge by exact Hasc.
  rewrite osc_msg_eta. reflexivity.
Qed.

(* ---- 8.3 / 8.4: the recipient recovers the response; the Observe value of a notification is
   replaced by the low bytes of the notification's Partial IV (RFC 8613 4.1.3.5.2) ---- *)
Definition osc_resp_piv (m : msg) (send_piv : bool) (seq : Z) : bytes :=
  if send_piv || osc_has OSC_OBSERVE (m_opts m) then osc_piv_bytes seq else [].

Definition osc_resp_view (m : msg) (piv : bytes) : msg :=
  mkMsg (m_type m) (m_code m) (m_mid m) (m_token m) (osc_fix_observe piv (m_opts m)) (m_payload m).

Theorem osc_response_roundtrip c s m req_piv send_piv seq :
  osc_paired c s -> osc_msg_ok m -> 0 <= seq < 1099511627776 ->
  exists o, osc_protect_resp s m req_piv send_piv seq = Some o /\
            osc_unprotect_resp c (m_token m) req_piv o =
            Some (osc_resp_view m (osc_resp_piv m send_piv seq)).
Proof.
  intros (P1 & P2 & P3 & P4 & P5 & P6) (Hwf & Hasc & H9 & H35) Hseq.
  unfold osc_protect_resp. rewrite H9, H35. cbn [orb].
  eexists. split; [reflexivity|].
  unfold osc_unprotect_resp, osc_unprotect_resp_gen. cbn [m_opts m_payload m_type m_mid m_token].
  rewrite osc_bytes_eqb_refl. cbn [negb].
  rewrite osc_find_insert by (apply osc_has_filter; exact H9).
  pose proof (osc_piv_bytes_len seq Hseq) as Lp.
  unfold osc_resp_view, osc_resp_piv.
  destruct (send_piv || osc_has OSC_OBSERVE (m_opts m)) eqn:Euse.
  - rewrite osc_opt_decode_encode by (try exact I; lia). cbn [negb].
    destruct (osc_piv_bytes seq) as [|p0 ps] eqn:Epiv.
    { unfold len in Lp. cbn [length] in Lp. lia. }
    rewrite P2, P1, P4, P5. rewrite osc_ccm_dec_enc.
    destruct (osc_inner_wf false _ Hwf Hasc) as [Iw Ia].
    rewrite osc_parse_plaintext_enc by assumption.
    rewrite osc_kept_of_sent, osc_resp_merge by exact Hasc. reflexivity.
  - rewrite osc_opt_decode_encode by (try exact I; unfold len; cbn [length]; lia). cbn [negb].
    rewrite P1, P4, P5. rewrite osc_ccm_dec_enc.
    destruct (osc_inner_wf false _ Hwf Hasc) as [Iw Ia].
    rewrite osc_parse_plaintext_enc by assumption.
    rewrite osc_kept_of_sent, osc_resp_merge by exact Hasc. reflexivity.
Qed.

(* without Observe the response comes back unchanged *)
Lemma osc_fix_observe_none piv (l : list opt) :
  osc_has OSC_OBSERVE l = false -> osc_fix_observe piv l = l.
Proof.
  unfold osc_has, osc_fix_observe. induction l as [|o l IH]; intros H; cbn [map]; [reflexivity|].
  cbn [existsb] in H. apply orb_false_iff in H. destruct H as [H1 H2].
  rewrite H1, IH by exact H2. reflexivity.
Qed.

Corollary osc_response_roundtrip_plain c s m req_piv send_piv seq :
  osc_paired c s -> osc_msg_ok m -> 0 <= seq < 1099511627776 ->
  osc_has OSC_OBSERVE (m_opts m) = false ->
  exists o, osc_protect_resp s m req_piv send_piv seq = Some o /\
            osc_unprotect_resp c (m_token m) req_piv o = Some m.
Proof.
  intros Hp Hm Hs Hobs. destruct (osc_response_roundtrip c s m req_piv send_piv seq Hp Hm Hs) as (o & A & B).
  exists o. split; [exact A|]. rewrite B. unfold osc_resp_view.
  rewrite osc_fix_observe_none by exact Hobs. rewrite osc_msg_eta. reflexivity.
Qed.

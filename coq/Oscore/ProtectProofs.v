(* Proofs about the OSCORE reference of Oscore/Protect.v: class E/U split and merge, plaintext
   round trip, verification inverts protection for requests and responses, and what acceptance
   implies (tamper rejection, stated for an ideal AEAD in a Section). *)
From LibcoapV Require Import Base.Tactics Base.Bytes Base.BytesProofs Wire.OptCodec
  Wire.OptCodecProofs Wire.Pdu Wire.PduProofs Oscore.Aes128 Oscore.Ccm Oscore.CcmProofs
  Oscore.Hkdf Oscore.Cbor Oscore.OscOption Oscore.OscOptionProofs Oscore.Protect Oscore.Vectors.
Local Open Scope Z_scope.

(* ---- ascending lists ---- *)
Lemma osc_ascending_weaken l : forall p q, q <= p -> ascending p l -> ascending q l.
Proof. destruct l as [|o tl]; intros p q Hq H; cbn [ascending] in *; [exact I|]. split; [lia|tauto]. Qed.

Lemma osc_ascending_filter f l : forall p, ascending p l -> ascending p (filter f l).
Proof.
  induction l as [|o tl IH]; intros p H; cbn [filter]; [exact I|].
  cbn [ascending] in H. destruct H as [H1 H2]. destruct (f o).
  - cbn [ascending]. split; [exact H1|]. apply IH. exact H2.
  - apply IH. apply (osc_ascending_weaken tl (fst o)); assumption.
Qed.

Lemma osc_ascending_map g l :
  (forall o, fst (g o) = fst o) -> forall p, ascending p l -> ascending p (map g l).
Proof.
  intros Hg. induction l as [|o tl IH]; intros p H; cbn [map]; [exact I|].
  cbn [ascending] in *. rewrite Hg. destruct H as [H1 H2]. split; [exact H1|]. apply IH. exact H2.
Qed.

Lemma osc_ascending_snoc l : forall p x,
  ascending p (l ++ [x]) -> ascending p l /\ (forall o, In o l -> fst o <= fst x) /\ p <= fst x.
Proof.
  induction l as [|a tl IH]; intros p x H.
  - cbn [app ascending] in H. cbn [ascending]. repeat split; [intros o []|tauto].
  - cbn [app ascending] in H. destruct H as [H1 H2]. destruct (IH _ _ H2) as (A & B & C).
    cbn [ascending]. repeat split; try assumption; [|lia].
    intros o [<-|Ho]; [exact C|]. apply B. exact Ho.
Qed.

(* ---- insertion ---- *)
Lemma osc_insert_all_le n v l :
  (forall o, In o l -> fst o <= n) -> insert_opt n v l = l ++ [(n, v)].
Proof.
  induction l as [|[k w] tl IH]; intros H; cbn [insert_opt app]; [reflexivity|].
  assert (k <= n) by (apply (H (k, w)); left; reflexivity).
  replace (k <=? n) with true by lia. rewrite IH; [reflexivity|].
  intros o Ho. apply H. right. exact Ho.
Qed.

Lemma osc_insert_snoc_lt n v l x :
  n < fst x -> insert_opt n v (l ++ [x]) = insert_opt n v l ++ [x].
Proof.
  intros Hn. induction l as [|[k w] tl IH]; cbn [insert_opt app].
  - destruct x as [kx wx]. cbn [fst] in Hn. replace (kx <=? n) with false by lia. reflexivity.
  - destruct (k <=? n); [rewrite IH|]; reflexivity.
Qed.

Lemma osc_merge_snoc_lt inner : forall outer x,
  (forall i, In i inner -> fst i < fst x) ->
  osc_merge (outer ++ [x]) inner = osc_merge outer inner ++ [x].
Proof.
  unfold osc_merge. induction inner as [|i tl IH]; intros outer x H; cbn [fold_left]; [reflexivity|].
  rewrite osc_insert_snoc_lt by (apply H; left; reflexivity).
  apply IH. intros j Hj. apply H. right. exact Hj.
Qed.

Lemma osc_filter_insert_out f n v l :
  f (n, v) = false -> filter f (insert_opt n v l) = filter f l.
Proof.
  intros Hf. induction l as [|[k w] tl IH]; cbn [insert_opt filter].
  - rewrite Hf. reflexivity.
  - destruct (k <=? n); cbn [filter]; [rewrite IH; reflexivity|rewrite Hf; reflexivity].
Qed.

Lemma osc_find_insert n v l :
  osc_has n l = false -> osc_find_opt n (insert_opt n v l) = Some (n, v).
Proof.
  unfold osc_has, osc_find_opt. induction l as [|[k w] tl IH]; intros H; cbn [insert_opt find fst].
  - rewrite Z.eqb_refl. reflexivity.
  - cbn [existsb fst] in H. apply orb_false_iff in H. destruct H as [H1 H2].
    destruct (k <=? n); cbn [find fst].
    + rewrite H1. apply IH. exact H2.
    + rewrite Z.eqb_refl. reflexivity.
Qed.

Lemma osc_has_filter n f l : osc_has n l = false -> osc_has n (filter f l) = false.
Proof.
  unfold osc_has. induction l as [|o tl IH]; intros H; cbn [filter existsb]; [reflexivity|].
  cbn [existsb] in H. apply orb_false_iff in H. destruct H as [H1 H2].
  destruct (f o); cbn [existsb]; [rewrite H1|]; apply IH; exact H2.
Qed.

Lemma osc_merge_app (outer a b : list opt) :
  osc_merge outer (a ++ b) = osc_merge (osc_merge outer a) b.
Proof. unfold osc_merge. apply fold_left_app. Qed.

Lemma osc_merge_one (outer : list opt) (x : opt) :
  osc_merge outer [x] = insert_opt (fst x) (snd x) outer.
Proof. reflexivity. Qed.

(* ---- split and merge: the options of a message, cut into two classes by any predicate on
   the option number and merged again by sorted insertion, are the original list ---- *)
Theorem osc_split_merge (P : Z -> bool) (l : list opt) :
  ascending 0 l ->
  osc_merge (filter (fun o : opt => P (fst o)) l) (filter (fun o : opt => negb (P (fst o))) l) = l.
Proof.
  induction l as [|x l IH] using rev_ind; intros Hasc; [reflexivity|].
  destruct (osc_ascending_snoc _ _ _ Hasc) as (Hl & Hle & _).
  rewrite !filter_app. cbn [filter]. destruct (P (fst x)) eqn:Px; cbn [negb].
  - rewrite app_nil_r. rewrite osc_merge_snoc_lt.
    + f_equal. apply IH. exact Hl.
    + intros i Hi. apply filter_In in Hi. destruct Hi as [Hi Hp].
      specialize (Hle i Hi). destruct (Z.eq_dec (fst i) (fst x)) as [E|E]; [|lia].
      rewrite E, Px in Hp. discriminate.
  - rewrite app_nil_r, osc_merge_app, osc_merge_one. pose proof (IH Hl) as E. rewrite E.
    rewrite osc_insert_all_le by exact Hle. destruct x; reflexivity.
Qed.

(* what a recipient keeps of the outer options a sender produced = the class U options *)
Lemma osc_kept_outer_spec n :
  negb (osc_outer_discard n) && (osc_is_outer n || (n =? OSC_OBSERVE)) = osc_is_outer n.
Proof.
  unfold osc_outer_discard, osc_is_outer, OSC_OBSERVE. cbn [existsb].
  destruct (n =? 3) eqn:E3; [replace n with 3 by lia; reflexivity|].
  destruct (n =? 7) eqn:E7; [replace n with 7 by lia; reflexivity|].
  destruct (n =? 16) eqn:E16; [replace n with 16 by lia; reflexivity|].
  destruct (n =? 39) eqn:E39; [replace n with 39 by lia; reflexivity|].
  cbn [orb]. destruct (n =? 6); [|rewrite andb_false_r; reflexivity].
  rewrite andb_true_r. destruct (n =? 1), (n =? 4), (n =? 5); reflexivity.
Qed.

Lemma osc_filter_filter {A} (f g : A -> bool) l :
  filter f (filter g l) = filter (fun x => f x && g x) l.
Proof.
  induction l as [|x l IH]; cbn [filter]; [reflexivity|].
  destruct (g x) eqn:G; cbn [filter]; rewrite ?andb_true_r, ?andb_false_r;
    destruct (f x); rewrite IH; reflexivity.
Qed.

Lemma osc_kept_of_sent ov l :
  osc_kept_outer (insert_opt OSC_OPT ov (osc_outer_opts l)) = filter (fun o => osc_is_outer (fst o)) l.
Proof.
  unfold osc_kept_outer. rewrite osc_filter_insert_out by reflexivity.
  unfold osc_outer_opts. rewrite osc_filter_filter. apply filter_ext.
  intros o. apply osc_kept_outer_spec.
Qed.

(* ---- plaintext ---- *)
Theorem osc_parse_plaintext_enc code inner payload :
  ascending 0 inner -> Forall opt_wf inner ->
  osc_parse_plaintext (osc_plaintext code inner payload) = Some (code, inner, payload).
Proof.
  intros Hasc Hwf. unfold osc_parse_plaintext, osc_plaintext.
  rewrite opts_parse_enc; try assumption; try lia.
  - destruct payload as [|x p]; reflexivity.
  - destruct payload as [|x p]; [left; reflexivity|right; eexists; reflexivity].
  - rewrite app_length. pose proof (opts_enc_length inner 0). lia.
Qed.

(* ---- paired contexts ---- *)
Definition osc_paired (c s : osc_sec) : Prop :=
  sc_sid c = sc_rid s /\ sc_rid c = sc_sid s /\ sc_skey c = sc_rkey s /\ sc_rkey c = sc_skey s /\
  sc_iv c = sc_iv s /\ sc_idctx c = sc_idctx s.

(* the two endpoints that derive from the same master secret, salt and id context with swapped
   ids are paired *)
Lemma osc_derive_paired secret salt idctx a b :
  osc_paired (osc_derive secret salt idctx a b) (osc_derive secret salt idctx b a).
Proof. unfold osc_paired, osc_derive. cbn [sc_sid sc_rid sc_skey sc_rkey sc_iv sc_idctx]. repeat split. Qed.

Lemma osc_paired_sym c s : osc_paired c s -> osc_paired s c.
Proof. unfold osc_paired. intros (A & B & C & D & E & F). repeat split; congruence. Qed.

(* messages OSCORE can protect: options in wire order and encodable, no OSCORE option yet,
   Proxy-Uri already split *)
Definition osc_msg_ok (m : msg) : Prop :=
  Forall opt_wf (m_opts m) /\ ascending 0 (m_opts m) /\
  osc_has OSC_OPT (m_opts m) = false /\ osc_has 35 (m_opts m) = false.

Definition osc_ctx_ok (c : osc_sec) : Prop :=
  match sc_idctx c with Some x => len x <= 255 | None => True end.

Lemma osc_inner_req (l : list opt) :
  osc_inner_opts true l = filter (fun o : opt => negb (osc_is_outer (fst o))) l.
Proof.
  unfold osc_inner_opts.
  transitivity (map (fun o : opt => o) (filter (fun o : opt => negb (osc_is_outer (fst o))) l)).
  - apply map_ext. intros o. cbn [negb]. rewrite andb_false_r. reflexivity.
  - apply map_id.
Qed.

Lemma osc_filter_map_fst (Q : Z -> bool) (g : opt -> opt) (l : list opt) :
  (forall o, fst (g o) = fst o) ->
  filter (fun o : opt => Q (fst o)) (map g l) = map g (filter (fun o : opt => Q (fst o)) l).
Proof.
  intros Hg. induction l as [|o l IH]; cbn [map filter]; [reflexivity|].
  rewrite Hg. destruct (Q (fst o)); cbn [map]; rewrite IH; reflexivity.
Qed.

Lemma osc_filter_map_id (Q : Z -> bool) (g : opt -> opt) (l : list opt) :
  (forall o, fst (g o) = fst o) -> (forall o, Q (fst o) = true -> g o = o) ->
  filter (fun o : opt => Q (fst o)) (map g l) = filter (fun o : opt => Q (fst o)) l.
Proof.
  intros Hg Hid. induction l as [|o l IH]; cbn [map filter]; [reflexivity|].
  rewrite Hg. destruct (Q (fst o)) eqn:E; rewrite IH; [rewrite (Hid o E)|]; reflexivity.
Qed.

Lemma osc_fix_fst piv (o : opt) :
  fst (if fst o =? OSC_OBSERVE then (OSC_OBSERVE, osc_obs_of_piv piv) else o) = fst o.
Proof. destruct (fst o =? OSC_OBSERVE) eqn:E; cbn [fst]; [lia|reflexivity]. Qed.

(* what the recipient of a response merges = the original options with Observe re-valued *)
Lemma osc_resp_merge piv (l : list opt) :
  ascending 0 l ->
  osc_merge (filter (fun o : opt => osc_is_outer (fst o)) l)
            (osc_fix_observe piv (osc_inner_opts false l)) = osc_fix_observe piv l.
Proof.
  intros Hasc. unfold osc_fix_observe at 1, osc_inner_opts. rewrite map_map.
  set (g := fun o : opt => if fst o =? OSC_OBSERVE then (OSC_OBSERVE, osc_obs_of_piv piv) else o).
  rewrite (map_ext _ g).
  2:{ intros [n v]. unfold g. cbn [negb fst]. rewrite andb_true_r.
      destruct (n =? OSC_OBSERVE) eqn:E; cbn [fst]; rewrite ?E; reflexivity. }
  rewrite <- (osc_filter_map_fst (fun n => negb (osc_is_outer n)) g) by (apply osc_fix_fst).
  rewrite <- (osc_filter_map_id osc_is_outer g l).
  - fold (osc_fix_observe piv l). apply osc_split_merge.
    apply osc_ascending_map; [apply osc_fix_fst|exact Hasc].
  - apply osc_fix_fst.
  - intros o Ho. unfold g. destruct (fst o =? OSC_OBSERVE) eqn:E; [|reflexivity].
    replace (fst o) with 6 in Ho by (unfold OSC_OBSERVE in E; lia). discriminate.
Qed.

Lemma osc_inner_wf req (l : list opt) :
  Forall opt_wf l -> ascending 0 l ->
  Forall opt_wf (osc_inner_opts req l) /\ ascending 0 (osc_inner_opts req l).
Proof.
  intros Hwf Hasc. unfold osc_inner_opts. split.
  - apply Forall_map. apply Forall_forall. intros o Ho. apply filter_In in Ho. destruct Ho as [Ho _].
    rewrite Forall_forall in Hwf. specialize (Hwf o Ho). destruct o as [n v]. cbn [fst] in *.
    destruct ((n =? OSC_OBSERVE) && negb req); [|exact Hwf].
    unfold opt_wf, OSC_OBSERVE. cbn [fst snd]. repeat split; try lia; [unfold len; cbn; lia|constructor].
  - apply osc_ascending_map.
    + intros [n v]. cbn [fst]. destruct ((n =? OSC_OBSERVE) && negb req) eqn:E; cbn [fst]; [|reflexivity].
      apply andb_true_iff in E. unfold OSC_OBSERVE in *. lia.
    + apply osc_ascending_filter. exact Hasc.
Qed.

Lemma osc_msg_eta (m : msg) :
  mkMsg (m_type m) (m_code m) (m_mid m) (m_token m) (m_opts m) (m_payload m) = m.
Proof. destruct m; reflexivity. Qed.

(* ---- 8.1 / 8.2: the recipient recovers exactly the request ---- *)
Theorem osc_request_roundtrip c s m seq :
  osc_paired c s -> osc_ctx_ok c -> osc_msg_ok m -> 0 <= seq < 1099511627776 ->
  exists o, osc_protect_req c m seq = Some o /\ osc_unprotect_req s o = Some m.
Proof.
  intros (P1 & P2 & P3 & P4 & P5 & P6) Hc (Hwf & Hasc & H9 & H35) Hseq.
  unfold osc_protect_req. rewrite H9, H35. cbn [orb].
  eexists. split; [reflexivity|].
  unfold osc_unprotect_req, osc_unprotect_req_gen. cbn [m_opts m_payload m_type m_mid m_token].
  rewrite osc_find_insert by (apply osc_has_filter; exact H9).
  pose proof (osc_piv_bytes_len seq Hseq) as Lp.
  rewrite osc_opt_decode_encode by (try exact Hc; lia).
  destruct (osc_piv_bytes seq) as [|p0 ps] eqn:Epiv.
  { unfold len in Lp. cbn [length] in Lp. lia. }
  rewrite <- P1, osc_bytes_eqb_refl. cbn [negb].
  unfold osc_ctx_match. rewrite P6, osc_bytes_eqb_refl. cbn [negb].
  rewrite <- P3, <- P5. rewrite osc_ccm_dec_enc.
  destruct (osc_inner_wf true _ Hwf Hasc) as [Iw Ia].
  rewrite osc_parse_plaintext_enc by assumption.
  rewrite osc_kept_of_sent, osc_inner_req, osc_split_merge by exact Hasc.
  rewrite osc_msg_eta. reflexivity.
Qed.

(* ---- 8.3 / 8.4: the recipient recovers the response; the Observe value of a notification is
   replaced by the low bytes of the notification's Partial IV (RFC 8613 4.1.3.5.2) ---- *)
Definition osc_resp_piv (m : msg) (send_piv : bool) (seq : Z) : bytes :=
  if send_piv || osc_has OSC_OBSERVE (m_opts m) then osc_piv_bytes seq else [].

Definition osc_resp_view (m : msg) (piv : bytes) : msg :=
  mkMsg (m_type m) (m_code m) (m_mid m) (m_token m) (osc_fix_observe piv (m_opts m)) (m_payload m).

Theorem osc_response_roundtrip c s m req_piv send_piv seq :
  osc_paired c s -> osc_msg_ok m -> 0 <= seq < 1099511627776 ->
  exists o, osc_protect_resp s m req_piv send_piv seq = Some o /\
            osc_unprotect_resp c (m_token m) req_piv o =
            Some (osc_resp_view m (osc_resp_piv m send_piv seq)).
Proof.
  intros (P1 & P2 & P3 & P4 & P5 & P6) (Hwf & Hasc & H9 & H35) Hseq.
  unfold osc_protect_resp. rewrite H9, H35. cbn [orb].
  eexists. split; [reflexivity|].
  unfold osc_unprotect_resp, osc_unprotect_resp_gen. cbn [m_opts m_payload m_type m_mid m_token].
  rewrite osc_bytes_eqb_refl. cbn [negb].
  rewrite osc_find_insert by (apply osc_has_filter; exact H9).
  pose proof (osc_piv_bytes_len seq Hseq) as Lp.
  unfold osc_resp_view, osc_resp_piv.
  destruct (send_piv || osc_has OSC_OBSERVE (m_opts m)) eqn:Euse.
  - rewrite osc_opt_decode_encode by (try exact I; lia). cbn [negb].
    destruct (osc_piv_bytes seq) as [|p0 ps] eqn:Epiv.
    { unfold len in Lp. cbn [length] in Lp. lia. }
    rewrite P2, P1, P4, P5. rewrite osc_ccm_dec_enc.
    destruct (osc_inner_wf false _ Hwf Hasc) as [Iw Ia].
    rewrite osc_parse_plaintext_enc by assumption.
    rewrite osc_kept_of_sent, osc_resp_merge by exact Hasc. reflexivity.
  - rewrite osc_opt_decode_encode by (try exact I; unfold len; cbn [length]; lia). cbn [negb].
    rewrite P1, P4, P5. rewrite osc_ccm_dec_enc.
    destruct (osc_inner_wf false _ Hwf Hasc) as [Iw Ia].
    rewrite osc_parse_plaintext_enc by assumption.
    rewrite osc_kept_of_sent, osc_resp_merge by exact Hasc. reflexivity.
Qed.

(* without Observe the response comes back unchanged *)
Lemma osc_fix_observe_none piv (l : list opt) :
  osc_has OSC_OBSERVE l = false -> osc_fix_observe piv l = l.
Proof.
  unfold osc_has, osc_fix_observe. induction l as [|o l IH]; intros H; cbn [map]; [reflexivity|].
  cbn [existsb] in H. apply orb_false_iff in H. destruct H as [H1 H2].
  rewrite H1, IH by exact H2. reflexivity.
Qed.

Corollary osc_response_roundtrip_plain c s m req_piv send_piv seq :
  osc_paired c s -> osc_msg_ok m -> 0 <= seq < 1099511627776 ->
  osc_has OSC_OBSERVE (m_opts m) = false ->
  exists o, osc_protect_resp s m req_piv send_piv seq = Some o /\
            osc_unprotect_resp c (m_token m) req_piv o = Some m.
Proof.
  intros Hp Hm Hs Hobs. destruct (osc_response_roundtrip c s m req_piv send_piv seq Hp Hm Hs) as (o & A & B).
  exists o. split; [exact A|]. rewrite B. unfold osc_resp_view.
  rewrite osc_fix_observe_none by exact Hobs. rewrite osc_msg_eta. reflexivity.
Qed.

(* ---- decoded fields are short ---- *)
Lemma osc_opt_decode_piv_len v piv kc kid :
  osc_opt_decode v = Some (piv, kc, kid) -> len piv <= 5.
Proof.
  unfold osc_opt_decode. destruct v as [|f r]; [intros H; inversion H; unfold len; cbn; lia|].
  destruct ((f <? 1) || (32 <=? f)); [discriminate|].
  destruct (5 <? f mod 8) eqn:E5; [discriminate|].
  destruct (len r <? f mod 8) eqn:El; [discriminate|].
  assert (Hp : len (take (f mod 8) r) <= 5).
  { rewrite len_take; lia. }
  destruct (if (f / 16) mod 2 =? 1 then _ else _) as [[kc' r3]|]; [|discriminate].
  destruct ((f / 8) mod 2 =? 1).
  - intros H. inversion H. subst. exact Hp.
  - destruct r3; [|discriminate]. intros H. inversion H. subst. exact Hp.
Qed.

(* ---- hypothesis-free facts about verification with the real AES-CCM ---- *)

(* a request addressed to another recipient id is rejected, whatever the AEAD *)
Theorem osc_request_other_recipient dec c s m seq o0 :
  osc_ctx_ok c -> 0 <= seq < 1099511627776 -> osc_protect_req c m seq = Some o0 ->
  sc_rid s <> sc_sid c -> osc_unprotect_req_gen dec s o0 = None.
Proof.
  intros Hc Hseq Hp Hne. unfold osc_protect_req in Hp.
  destruct (osc_has OSC_OPT (m_opts m) || osc_has 35 (m_opts m)) eqn:E; [discriminate|].
  apply orb_false_iff in E. destruct E as [H9 _]. inversion Hp. subst o0. clear Hp.
  unfold osc_unprotect_req_gen. cbn [m_opts m_payload].
  rewrite osc_find_insert by (apply osc_has_filter; exact H9).
  pose proof (osc_piv_bytes_len seq Hseq) as Lp.
  rewrite osc_opt_decode_encode by (try exact Hc; lia).
  destruct (osc_piv_bytes seq) as [|p0 ps]; [reflexivity|].
  rewrite osc_bytes_eqb_neq by congruence. reflexivity.
Qed.

(* the tag is verified: the genuine protected request with any other 8-byte tag is rejected *)
Theorem osc_request_tag_checked c s m seq o0 ct tag tag' :
  osc_paired c s -> osc_ctx_ok c -> osc_msg_ok m -> 0 <= seq < 1099511627776 ->
  osc_protect_req c m seq = Some o0 ->
  m_payload o0 = ct ++ tag -> len tag = 8 -> len tag' = 8 -> tag' <> tag ->
  osc_unprotect_req s (mkMsg (m_type o0) (m_code o0) (m_mid o0) (m_token o0) (m_opts o0) (ct ++ tag'))
  = None.
Proof.
  intros (P1 & P2 & P3 & P4 & P5 & P6) Hc (Hwf & Hasc & H9 & H35) Hseq Hp Hpl Ht Ht' Hne.
  unfold osc_protect_req in Hp. rewrite H9, H35 in Hp. cbn [orb] in Hp. inversion Hp. subst o0. clear Hp.
  cbn [m_opts m_payload m_type m_mid m_token m_code] in *.
  unfold osc_unprotect_req, osc_unprotect_req_gen. cbn [m_opts m_payload m_type m_mid m_token].
  rewrite osc_find_insert by (apply osc_has_filter; exact H9).
  pose proof (osc_piv_bytes_len seq Hseq) as Lp.
  rewrite osc_opt_decode_encode by (try exact Hc; lia).
  destruct (osc_piv_bytes seq) as [|p0 ps] eqn:Epiv.
  { unfold len in Lp. cbn [length] in Lp. lia. }
  rewrite <- P1, osc_bytes_eqb_refl. cbn [negb].
  unfold osc_ctx_match. rewrite P6, osc_bytes_eqb_refl. cbn [negb].
  rewrite <- P3, <- P5.
  rewrite (osc_ccm_wrong_tag_rejected _ _ _ _ _ _ _ Hpl Ht Ht' Hne). reflexivity.
Qed.

(* ---- tamper rejection for an ideal AEAD ---- *)
Section IdealAead.
  (* an AEAD decryption function, a key, and the record of what the holder(s) of that key
     emitted under it: (nonce, aad, ciphertext) triples *)
  Variable dec : osc_aead_dec.
  Variable K : bytes.
  Variable sent : bytes -> bytes -> bytes -> Prop.

  (* ASSUMED, not proved for AES-CCM: ideal ciphertext integrity - under key K nothing decrypts
     except what was emitted under K.  (For the real AES-CCM with a 64-bit tag this holds only up
     to a forgery probability of 2^-64 per attempt; it is the idealisation of INT-CTXT.) *)
  Hypothesis aead_ideal_integrity : forall n a c p, dec K n a c = Some p -> sent n a c.

  Theorem osc_request_accept_implies_sent s o m' :
    sc_rkey s = K -> osc_unprotect_req_gen dec s o = Some m' ->
    exists ov piv kc,
      osc_find_opt OSC_OPT (m_opts o) = Some ov /\
      osc_opt_decode (snd ov) = Some (piv, kc, Some (sc_rid s)) /\
      sent (osc_nonce (sc_rid s) piv (sc_iv s)) (osc_aad OSC_ALG (sc_rid s) piv) (m_payload o).
  Proof.
    intros HK H. unfold osc_unprotect_req_gen in H.
    destruct (osc_find_opt OSC_OPT (m_opts o)) as [[n9 ov]|] eqn:Ef; [|discriminate].
    destruct (osc_opt_decode ov) as [[[piv kc] kid]|] eqn:Ed; [|discriminate].
    destruct kid as [k|]; [|discriminate].
    destruct piv as [|p0 ps]; [discriminate|].
    destruct (osc_bytes_eqb k (sc_rid s)) eqn:Ek; cbn [negb] in H; [|discriminate].
    apply osc_bytes_eqb_eq in Ek. subst k.
    destruct (osc_ctx_match kc (sc_idctx s)); cbn [negb] in H; [|discriminate].
    destruct (dec (sc_rkey s) _ _ (m_payload o)) as [pt|] eqn:Edec; [|discriminate].
    exists (n9, ov), (p0 :: ps), kc. cbn [snd]. repeat split; try assumption.
    rewrite HK in Edec. eapply aead_ideal_integrity. exact Edec.
  Qed.

  (* nothing was ever emitted under the recipient's key (e.g. the sender used a context derived
     from another master secret, salt or id context): every message is rejected *)
  Corollary osc_request_unknown_key_rejected s o :
    sc_rkey s = K -> (forall n a c, ~ sent n a c) -> osc_unprotect_req_gen dec s o = None.
  Proof.
    intros HK Hnone. destruct (osc_unprotect_req_gen dec s o) as [m'|] eqn:E; [|reflexivity].
    destruct (osc_request_accept_implies_sent s o m' HK E) as (ov & piv & kc & _ & _ & Hs).
    exfalso. exact (Hnone _ _ _ Hs).
  Qed.

  (* the key holder emitted exactly one message, the protection of [m] under sequence number
     [seq]: whatever is accepted carries the genuine ciphertext, and its OSCORE option decodes to
     the genuine Partial IV and kid.  So any change to the ciphertext, to the Partial IV or to the
     kid is rejected. *)
  Theorem osc_request_tamper_rejected c s m seq o0 o m' :
    osc_paired c s -> sc_rkey s = K -> len (sc_sid c) <= 7 -> 0 <= seq < 1099511627776 ->
    osc_protect_req c m seq = Some o0 ->
    (forall n a ct, sent n a ct ->
       n = osc_nonce (sc_sid c) (osc_piv_bytes seq) (sc_iv c) /\
       a = osc_aad OSC_ALG (sc_sid c) (osc_piv_bytes seq) /\ ct = m_payload o0) ->
    osc_unprotect_req_gen dec s o = Some m' ->
    m_payload o = m_payload o0 /\
    exists ov kc, osc_find_opt OSC_OPT (m_opts o) = Some ov /\
                  osc_opt_decode (snd ov) = Some (osc_piv_bytes seq, kc, Some (sc_sid c)).
  Proof.
    intros (P1 & P2 & P3 & P4 & P5 & P6) HK Hid Hseq Hp Hsent Hacc.
    destruct (osc_request_accept_implies_sent s o m' HK Hacc) as (ov & piv & kc & Hf & Hd & Hs).
    destruct (Hsent _ _ _ Hs) as (Hn & Ha & Hc). split; [exact Hc|].
    exists ov, kc. split; [exact Hf|]. rewrite <- P1 in *.
    pose proof (osc_opt_decode_piv_len _ _ _ _ Hd) as Lp.
    pose proof (osc_piv_bytes_len seq Hseq) as Lq.
    apply osc_aad_inj in Ha; try (unfold OSC_ALG; lia).
    destruct Ha as (_ & _ & Hpiv). rewrite <- Hpiv. exact Hd.
  Qed.

  (* ... and what is handed out is the genuine protected content (code, class E options,
     payload); only the fields OSCORE does not protect (type, message id, token, outer options)
     are taken from the received message *)
  Theorem osc_request_accepted_content c s m seq o0 o m' pt0 code inner pl :
    osc_paired c s -> sc_rkey s = K -> len (sc_sid c) <= 7 -> 0 <= seq < 1099511627776 ->
    osc_protect_req c m seq = Some o0 ->
    (forall n a ct, sent n a ct ->
       n = osc_nonce (sc_sid c) (osc_piv_bytes seq) (sc_iv c) /\
       a = osc_aad OSC_ALG (sc_sid c) (osc_piv_bytes seq) /\ ct = m_payload o0) ->
    dec K (osc_nonce (sc_sid c) (osc_piv_bytes seq) (sc_iv c))
          (osc_aad OSC_ALG (sc_sid c) (osc_piv_bytes seq)) (m_payload o0) = Some pt0 ->
    osc_parse_plaintext pt0 = Some (code, inner, pl) ->
    osc_unprotect_req_gen dec s o = Some m' ->
    m' = mkMsg (m_type o) code (m_mid o) (m_token o) (osc_merge (osc_kept_outer (m_opts o)) inner) pl.
  Proof.
    intros Hpair HK Hid Hseq Hp Hsent Hdec Hparse Hacc.
    destruct (osc_request_tamper_rejected c s m seq o0 o m' Hpair HK Hid Hseq Hp Hsent Hacc)
      as (Hpl & [n9 ov] & kc & Hf & Hd).
    destruct Hpair as (P1 & P2 & P3 & P4 & P5 & P6).
    unfold osc_unprotect_req_gen in Hacc. rewrite Hf in Hacc. cbn [snd] in Hd. rewrite Hd in Hacc.
    destruct (osc_piv_bytes seq) as [|p0 ps] eqn:Epiv; [discriminate|].
    destruct (negb (osc_bytes_eqb (sc_sid c) (sc_rid s))); [discriminate|].
    destruct (negb (osc_ctx_match kc (sc_idctx s))); [discriminate|].
    rewrite HK, <- P5, Hpl, Hdec, Hparse in Hacc. inversion Hacc. reflexivity.
  Qed.

  (* responses: acceptance implies that the (nonce, aad, ciphertext) computed from the received
     message was emitted under the key *)
  Theorem osc_response_accept_implies_sent c tok req_piv o m' :
    sc_rkey c = K -> osc_unprotect_resp_gen dec c tok req_piv o = Some m' ->
    m_token o = tok /\
    exists ov piv kc kid,
      osc_find_opt OSC_OPT (m_opts o) = Some ov /\
      osc_opt_decode (snd ov) = Some (piv, kc, kid) /\
      sent (match piv with
            | [] => osc_nonce (sc_sid c) req_piv (sc_iv c)
            | _ => osc_nonce (sc_rid c) piv (sc_iv c)
            end)
           (osc_aad OSC_ALG (sc_sid c) req_piv) (m_payload o).
  Proof.
    intros HK H. unfold osc_unprotect_resp_gen in H.
    destruct (osc_bytes_eqb (m_token o) tok) eqn:Et; cbn [negb] in H; [|discriminate].
    apply osc_bytes_eqb_eq in Et. split; [exact Et|].
    destruct (osc_find_opt OSC_OPT (m_opts o)) as [[n9 ov]|] eqn:Ef; [|discriminate].
    destruct (osc_opt_decode ov) as [[[piv kc] kid]|] eqn:Ed; [|discriminate].
    destruct (negb _); [discriminate|].
    destruct (dec (sc_rkey c) _ _ (m_payload o)) as [pt|] eqn:Edec; [|discriminate].
    exists (n9, ov), piv, kc, kid. cbn [snd]. repeat split; try assumption.
    rewrite HK in Edec. eapply aead_ideal_integrity. exact Edec.
  Qed.

  (* single emission: an accepted response carries the genuine ciphertext, the token of the
     request, and an OSCORE option that yields the genuine nonce *)
  Theorem osc_response_tamper_rejected c tok req_piv n0 a0 c0 o m' :
    sc_rkey c = K ->
    (forall n a ct, sent n a ct -> n = n0 /\ a = a0 /\ ct = c0) ->
    osc_unprotect_resp_gen dec c tok req_piv o = Some m' ->
    m_token o = tok /\ m_payload o = c0 /\
    exists ov piv kc kid,
      osc_find_opt OSC_OPT (m_opts o) = Some ov /\
      osc_opt_decode (snd ov) = Some (piv, kc, kid) /\
      n0 = match piv with
           | [] => osc_nonce (sc_sid c) req_piv (sc_iv c)
           | _ => osc_nonce (sc_rid c) piv (sc_iv c)
           end.
  Proof.
    intros HK Hsent Hacc.
    destruct (osc_response_accept_implies_sent c tok req_piv o m' HK Hacc)
      as (Ht & ov & piv & kc & kid & Hf & Hd & Hs).
    destruct (Hsent _ _ _ Hs) as (Hn & Ha & Hc).
    split; [exact Ht|]. split; [exact Hc|].
    exists ov, piv, kc, kid. repeat split; try assumption. symmetry. exact Hn.
  Qed.
  (* ... and what the client hands out is the genuine protected content of the response *)
  Theorem osc_response_accepted_content c tok req_piv n0 a0 c0 o m' pt0 code inner pl :
    sc_rkey c = K ->
    (forall n a ct, sent n a ct -> n = n0 /\ a = a0 /\ ct = c0) ->
    dec K n0 a0 c0 = Some pt0 ->
    osc_parse_plaintext pt0 = Some (code, inner, pl) ->
    osc_unprotect_resp_gen dec c tok req_piv o = Some m' ->
    exists piv,
      m' = mkMsg (m_type o) code (m_mid o) (m_token o)
             (osc_merge (osc_kept_outer (m_opts o)) (osc_fix_observe piv inner)) pl.
  Proof.
    intros HK Hsent Hdec Hparse Hacc.
    destruct (osc_response_accept_implies_sent c tok req_piv o m' HK Hacc)
      as (Ht & [n9 ov] & piv & kc & kid & Hf & Hd & Hs).
    destruct (Hsent _ _ _ Hs) as (Hn & Ha & Hc).
    unfold osc_unprotect_resp_gen in Hacc.
    destruct (negb (osc_bytes_eqb (m_token o) tok)); [discriminate|].
    rewrite Hf in Hacc. cbn [snd] in Hd. rewrite Hd in Hacc.
    destruct (negb _); [discriminate|].
    rewrite HK, Hn, Ha, Hc, Hdec, Hparse in Hacc. inversion Hacc. exists piv. reflexivity.
  Qed.

End IdealAead.

(* non-vacuity of the Section hypothesis: the ideal AEAD functionality "decrypt only what was
   emitted" (a table with one entry) satisfies it *)
Definition osc_ideal_dec (k0 n0 a0 c0 p0 : bytes) : osc_aead_dec :=
  fun k n a c =>
    if osc_bytes_eqb k k0 && osc_bytes_eqb n n0 && osc_bytes_eqb a a0 && osc_bytes_eqb c c0
    then Some p0 else None.

Lemma osc_ideal_dec_integrity k0 n0 a0 c0 p0 :
  forall n a c p, osc_ideal_dec k0 n0 a0 c0 p0 k0 n a c = Some p -> n = n0 /\ a = a0 /\ c = c0.
Proof.
  intros n a c p H. unfold osc_ideal_dec in H.
  destruct (osc_bytes_eqb k0 k0 && osc_bytes_eqb n n0 && osc_bytes_eqb a a0 && osc_bytes_eqb c c0) eqn:E;
    [|discriminate].
  repeat (apply andb_true_iff in E; destruct E as [E ?]).
  repeat split; apply osc_bytes_eqb_eq; assumption.
Qed.

(* ... and with it the genuine RFC 8613 C.4 request is accepted while everything else emitted
   under the key is not: the hypotheses of the Section are satisfiable together with acceptance *)
Example osc_ideal_dec_accepts_genuine :
  let m := osc_c_request 23839 [0; 0; 57; 116] in
  let piv := osc_piv_bytes 20 in
  let n0 := osc_nonce (sc_sid osc_c1_client) piv (sc_iv osc_c1_client) in
  let a0 := osc_aad OSC_ALG (sc_sid osc_c1_client) piv in
  match osc_protect_req osc_c1_client m 20 with
  | Some o0 =>
      osc_unprotect_req_gen
        (osc_ideal_dec (sc_rkey osc_c1_server) n0 a0 (m_payload o0)
           (osc_plaintext (m_code m) (osc_inner_opts true (m_opts m)) (m_payload m)))
        osc_c1_server o0 = Some m
  | None => False
  end.
Proof. vm_compute. reflexivity. Qed.

(* an OSCORE-only resource only ever sees verified requests *)
Theorem osc_only_gate dec s o m' :
  osc_server_deliver dec s true o = Some m' -> osc_unprotect_req_gen dec s o = Some m'.
Proof.
  unfold osc_server_deliver. destruct (osc_find_opt OSC_OPT (m_opts o)); [|discriminate].
  destruct (osc_is_request (m_code o)); [tauto|discriminate].
Qed.

(* ---- context lookup rule (RFC 8613 8.2 step 2): a request is only ever verified against the
   recipient context whose Recipient ID is the received kid AND whose ID Context is exactly the
   received kid context (none = empty); no prefix, no extension, no other value ---- *)
Definition osc_ctx_bytes (x : option bytes) : bytes := match x with Some c => c | None => [] end.

Lemma osc_ctx_match_spec kc cfg :
  osc_ctx_match kc cfg = true <-> osc_ctx_bytes kc = osc_ctx_bytes cfg.
Proof.
  unfold osc_ctx_match, osc_ctx_bytes. split.
  - apply osc_bytes_eqb_eq.
  - intros ->. apply osc_bytes_eqb_refl.
Qed.

Theorem osc_request_lookup_rule dec s o m' :
  osc_unprotect_req_gen dec s o = Some m' ->
  exists ov piv kc,
    osc_find_opt OSC_OPT (m_opts o) = Some ov /\
    osc_opt_decode (snd ov) = Some (piv, kc, Some (sc_rid s)) /\
    osc_ctx_bytes kc = osc_ctx_bytes (sc_idctx s).
Proof.
  intros H. unfold osc_unprotect_req_gen in H.
  destruct (osc_find_opt OSC_OPT (m_opts o)) as [[n9 ov]|] eqn:Ef; [|discriminate].
  destruct (osc_opt_decode ov) as [[[piv kc] kid]|] eqn:Ed; [|discriminate].
  destruct kid as [k|]; [|discriminate].
  destruct piv as [|p0 ps]; [discriminate|].
  destruct (osc_bytes_eqb k (sc_rid s)) eqn:Ek; cbn [negb] in H; [|discriminate].
  apply osc_bytes_eqb_eq in Ek. subst k.
  destruct (osc_ctx_match kc (sc_idctx s)) eqn:Ec; cbn [negb] in H; [|discriminate].
  exists (n9, ov), (p0 :: ps), kc. cbn [snd]. repeat split; try assumption.
  apply osc_ctx_match_spec. exact Ec.
Qed.

(* in particular: with a non-empty ID Context a request without kid context, or with any kid
   context of another length (a proper prefix, an extension), is rejected whatever the AEAD *)
Corollary osc_request_kid_context_length dec s o c ov piv kc kid :
  sc_idctx s = Some c ->
  osc_find_opt OSC_OPT (m_opts o) = Some ov ->
  osc_opt_decode (snd ov) = Some (piv, kc, kid) ->
  len (osc_ctx_bytes kc) <> len c ->
  osc_unprotect_req_gen dec s o = None.
Proof.
  intros Hc Hf Hd Hl. destruct (osc_unprotect_req_gen dec s o) as [m'|] eqn:E; [|reflexivity].
  destruct (osc_request_lookup_rule dec s o m' E) as (ov' & piv' & kc' & Hf' & Hd' & Hm).
  rewrite Hf in Hf'. inversion Hf'. subst ov'. rewrite Hd in Hd'. inversion Hd'. subst.
  rewrite Hc in Hm. change (osc_ctx_bytes (Some c)) with c in Hm. rewrite Hm in Hl. congruence.
Qed.

(* The subset of CBOR (RFC 8949) that OSCORE needs: definite-length heads, unsigned/negative
   integers, byte and text strings, array heads, null; plus the decoders used by the
   injectivity proofs.  Written from RFC 8949 section 3. *)
From Coq Require Import ZArith List Bool.
From LibcoapV Require Import Base.Bytes.
Import ListNotations.
Local Open Scope Z_scope.

Definition osc_cbor_be64 (x : Z) : bytes :=
  be32 (x / 4294967296) ++ be32 (x mod 4294967296).

(* initial byte = major type (3 bits) || additional information (5 bits), then the argument *)
Definition osc_cbor_head (mt v : Z) : bytes :=
  if v <? 24 then [32 * mt + v]
  else if v <? 256 then [32 * mt + 24; v]
  else if v <? 65536 then (32 * mt + 25) :: be16 v
  else if v <? 4294967296 then (32 * mt + 26) :: be32 v
  else (32 * mt + 27) :: osc_cbor_be64 v.

Definition osc_cbor_uint (v : Z) : bytes := osc_cbor_head 0 v.
Definition osc_cbor_int (v : Z) : bytes :=
  if v <? 0 then osc_cbor_head 1 (-1 - v) else osc_cbor_head 0 v.
Definition osc_cbor_bstr (b : bytes) : bytes := osc_cbor_head 2 (len b) ++ b.
Definition osc_cbor_tstr (b : bytes) : bytes := osc_cbor_head 3 (len b) ++ b.
Definition osc_cbor_array (n : Z) : bytes := osc_cbor_head 4 n.
Definition osc_cbor_nil : bytes := [246].

(* ---- decoders (arguments below 2^32) ---- *)

(* (major type, argument, rest) *)
Definition osc_cbor_get_head (bs : bytes) : option (Z * Z * bytes) :=
  match bs with
  | [] => None
  | b0 :: r =>
      let mt := b0 / 32 in
      let ai := b0 mod 32 in
      if ai <? 24 then Some (mt, ai, r)
      else if ai =? 24 then
        match r with b :: r' => Some (mt, b, r') | _ => None end
      else if ai =? 25 then
        match r with b1 :: b2 :: r' => Some (mt, b1 * 256 + b2, r') | _ => None end
      else if ai =? 26 then
        match r with
        | b1 :: b2 :: b3 :: b4 :: r' =>
            Some (mt, b1 * 16777216 + b2 * 65536 + b3 * 256 + b4, r')
        | _ => None
        end
      else None
  end.

(* byte string: (value, rest) *)
Definition osc_cbor_get_bstr (bs : bytes) : option (bytes * bytes) :=
  match osc_cbor_get_head bs with
  | Some (mt, l, r) =>
      if (mt =? 2) && (l <=? len r) then Some (take l r, drop l r) else None
  | None => None
  end.

Definition osc_cbor_get_int (bs : bytes) : option (Z * bytes) :=
  match osc_cbor_get_head bs with
  | Some (mt, v, r) =>
      if mt =? 0 then Some (v, r) else if mt =? 1 then Some (-1 - v, r) else None
  | None => None
  end.

(* SHA-256 (FIPS 180-4), HMAC (RFC 2104), written from the standards over 32-bit words held in Z.
   Constants are the first 32 bits of the fractional parts of the cube (K) and square (H0) roots
   of the first primes; checked against the FIPS/RFC 4231 vectors in Oscore/Vectors.v. *)
From Coq Require Import ZArith List.
From LibcoapV Require Import Base.Bytes.
Import ListNotations.
Local Open Scope Z_scope.

Definition osc_k256 : list Z :=
  [
   1116352408; 1899447441; 3049323471; 3921009573; 961987163; 1508970993;
   2453635748; 2870763221; 3624381080; 310598401; 607225278; 1426881987;
   1925078388; 2162078206; 2614888103; 3248222580; 3835390401; 4022224774;
   264347078; 604807628; 770255983; 1249150122; 1555081692; 1996064986;
   2554220882; 2821834349; 2952996808; 3210313671; 3336571891; 3584528711;
   113926993; 338241895; 666307205; 773529912; 1294757372; 1396182291;
   1695183700; 1986661051; 2177026350; 2456956037; 2730485921; 2820302411;
   3259730800; 3345764771; 3516065817; 3600352804; 4094571909; 275423344;
   430227734; 506948616; 659060556; 883997877; 958139571; 1322822218;
   1537002063; 1747873779; 1955562222; 2024104815; 2227730452; 2361852424;
   2428436474; 2756734187; 3204031479; 3329325298 ].

Definition osc_h256 : list Z :=
  [
   1779033703; 3144134277; 1013904242; 2773480762; 1359893119; 2600822924;
   528734635; 1541459225 ].

(* reduction modulo 2^32 (by masking: for x >= 0, x mod 2^32 = x land (2^32-1)) *)
Definition osc_w32 (x : Z) : Z := Z.land x 4294967295.
Definition osc_add32 (a b : Z) : Z := Z.land (a + b) 4294967295.
Definition osc_rotr (n x : Z) : Z := Z.lor (Z.shiftr x n) (osc_w32 (Z.shiftl x (32 - n))).
Definition osc_not32 (x : Z) : Z := 4294967295 - x.

Definition osc_ch (x y z : Z) : Z := Z.lxor (Z.land x y) (Z.land (osc_not32 x) z).
Definition osc_maj (x y z : Z) : Z := Z.lxor (Z.lxor (Z.land x y) (Z.land x z)) (Z.land y z).
Definition osc_bsig0 (x : Z) : Z := Z.lxor (Z.lxor (osc_rotr 2 x) (osc_rotr 13 x)) (osc_rotr 22 x).
Definition osc_bsig1 (x : Z) : Z := Z.lxor (Z.lxor (osc_rotr 6 x) (osc_rotr 11 x)) (osc_rotr 25 x).
Definition osc_ssig0 (x : Z) : Z := Z.lxor (Z.lxor (osc_rotr 7 x) (osc_rotr 18 x)) (Z.shiftr x 3).
Definition osc_ssig1 (x : Z) : Z := Z.lxor (Z.lxor (osc_rotr 17 x) (osc_rotr 19 x)) (Z.shiftr x 10).

(* big-endian words of a block *)
Fixpoint osc_words (l : bytes) : list Z :=
  match l with
  | a :: b :: c :: d :: tl => (a * 16777216 + b * 65536 + c * 256 + d) :: osc_words tl
  | _ => []
  end.

(* message schedule, kept reversed: head = W[t-1] *)
Fixpoint osc_sched (n : nat) (r : list Z) : list Z :=
  match n with
  | O => r
  | S n' =>
      let w := osc_add32 (osc_add32 (osc_ssig1 (nth 1 r 0)) (nth 6 r 0))
                         (osc_add32 (osc_ssig0 (nth 14 r 0)) (nth 15 r 0)) in
      osc_sched n' (w :: r)
  end.

Definition osc_st := (Z * Z * Z * Z * Z * Z * Z * Z)%type.

Definition osc_round (s : osc_st) (kw : Z * Z) : osc_st :=
  let '(a, b, c, d, e, f, g, h) := s in
  let t1 := osc_add32 (osc_add32 (osc_add32 h (osc_bsig1 e)) (osc_add32 (osc_ch e f g) (fst kw))) (snd kw) in
  let t2 := osc_add32 (osc_bsig0 a) (osc_maj a b c) in
  (osc_add32 t1 t2, a, b, c, osc_add32 d t1, e, f, g).

Definition osc_compress (s : osc_st) (blk : bytes) : osc_st :=
  let w := rev (osc_sched 48 (rev (osc_words blk))) in
  let '(a, b, c, d, e, f, g, h) := fold_left osc_round (combine osc_k256 w) s in
  let '(a0, b0, c0, d0, e0, f0, g0, h0) := s in
  (osc_add32 a0 a, osc_add32 b0 b, osc_add32 c0 c, osc_add32 d0 d,
   osc_add32 e0 e, osc_add32 f0 f, osc_add32 g0 g, osc_add32 h0 h).

(* 64-byte blocks; structural, no fuel (same scheme as osc_chunks in Ccm.v) *)
Fixpoint osc_blocks64 (room : nat) (cur : bytes) (l : bytes) : list bytes :=
  match l with
  | [] => match cur with [] => [] | _ => [rev cur] end
  | x :: tl =>
      match room with
      | O | S O => rev (x :: cur) :: osc_blocks64 64 [] tl
      | S r => osc_blocks64 r (x :: cur) tl
      end
  end.

Definition osc_be64 (x : Z) : bytes :=
  be32 (x / 4294967296) ++ be32 (x mod 4294967296).

(* padding: 0x80, zeros up to 56 mod 64, 64-bit bit length *)
Definition osc_sha_pad (m : bytes) : bytes :=
  let l := len m in
  let z := (55 - l) mod 64 in
  m ++ 128 :: repeat 0 (Z.to_nat z) ++ osc_be64 (8 * l).

Definition osc_st_bytes (s : osc_st) : bytes :=
  let '(a, b, c, d, e, f, g, h) := s in
  be32 a ++ be32 b ++ be32 c ++ be32 d ++ be32 e ++ be32 f ++ be32 g ++ be32 h.

Definition osc_h0 : osc_st :=
  match osc_h256 with
  | [a; b; c; d; e; f; g; h] => (a, b, c, d, e, f, g, h)
  | _ => (0, 0, 0, 0, 0, 0, 0, 0)
  end.

Definition osc_sha256 (m : bytes) : bytes :=
  osc_st_bytes (fold_left osc_compress (osc_blocks64 64 [] (osc_sha_pad m)) osc_h0).

(* HMAC-SHA-256, block size 64 *)
Definition osc_hmac (key msg : bytes) : bytes :=
  let k0 := if 64 <? len key then osc_sha256 key else key in
  let kp := k0 ++ repeat 0 (Z.to_nat (64 - len k0)) in
  let ipad := map (fun b => Z.lxor b 54) kp in
  let opad := map (fun b => Z.lxor b 92) kp in
  osc_sha256 (opad ++ osc_sha256 (ipad ++ msg)).

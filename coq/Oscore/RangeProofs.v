(* Byte-range lemmas for the Gallina AES-CCM: with byte-valued key, nonce, AAD and message the
   ciphertext consists of bytes.  Needed to compose the message-level theorems with the
   datagram codec theorem of C01 (whose well-formedness asks for a byte-valued payload). *)
From LibcoapV Require Import Base.Tactics Base.Bytes Base.BytesProofs Oscore.Aes128 Oscore.Ccm
  Oscore.CcmProofs.
Local Open Scope Z_scope.

Lemma osc_lxor_byte a b : is_byte a -> is_byte b -> is_byte (Z.lxor a b).
Proof.
  unfold is_byte. intros [Ha0 Ha] [Hb0 Hb]. split; [apply Z.lxor_nonneg; lia|].
  destruct (Z.eq_dec (Z.lxor a b) 0) as [E|E]; [lia|].
  assert (Hpos : 0 < Z.lxor a b) by (pose proof (proj2 (Z.lxor_nonneg a b) (conj (fun _ => Hb0) (fun _ => Ha0))); lia).
  apply Z.log2_lt_pow2 with (b := 8) in Hpos. apply Hpos.
  pose proof (Z.log2_lxor a b Ha0 Hb0) as Hl.
  assert (Z.log2 a < 8).
  { destruct (Z.eq_dec a 0) as [->|]; [cbn; lia|]. apply Z.log2_lt_pow2; lia. }
  assert (Z.log2 b < 8).
  { destruct (Z.eq_dec b 0) as [->|]; [cbn; lia|]. apply Z.log2_lt_pow2; lia. }
  lia.
Qed.

(* S-box on bytes: checked on the 256 values *)
Lemma osc_sbox_table_bytes :
  forallb (fun i => is_byteb (osc_sbox (Z.of_nat i))) (seq 0 256) = true.
Proof. vm_compute. reflexivity. Qed.

Lemma osc_sbox_byte x : is_byte x -> is_byte (osc_sbox x).
Proof.
  intros [H0 H1]. pose proof osc_sbox_table_bytes as T. rewrite forallb_forall in T.
  specialize (T (Z.to_nat x)). rewrite Z2Nat.id in T by lia.
  assert (Hin : In (Z.to_nat x) (seq 0 256)) by (apply in_seq; lia).
  specialize (T Hin). unfold is_byteb in T. unfold is_byte. lia.
Qed.

Lemma osc_xtime_byte x : is_byte x -> is_byte (osc_xtime x).
Proof.
  intros H. unfold osc_xtime. destruct (x <? 128) eqn:E.
  - unfold is_byte in *. lia.
  - apply osc_lxor_byte; unfold is_byte in *; lia.
Qed.

Lemma osc_xor_wfb a : forall b, wfb a -> wfb b -> wfb (osc_xor a b).
Proof.
  induction a as [|x a IH]; intros b Ha Hb; cbn [osc_xor]; [constructor|].
  apply wfb_cons in Ha. destruct Ha as [Hx Ha].
  destruct b as [|y b].
  - apply wfb_cons. split; [exact Hx|]. apply IH; [exact Ha|constructor].
  - apply wfb_cons in Hb. destruct Hb as [Hy Hb]. apply wfb_cons. split.
    + apply osc_lxor_byte; assumption.
    + apply IH; assumption.
Qed.

Lemma osc_nth_byte i s : wfb s -> is_byte (nth i s 0).
Proof.
  intros H. destruct (nth_in_or_default i s 0) as [Hin | E]; [|rewrite E; unfold is_byte; lia].
  unfold wfb in H. rewrite Forall_forall in H. apply H. exact Hin.
Qed.

Lemma osc_sub_bytes_wfb s : wfb s -> wfb (osc_sub_bytes s).
Proof.
  intros H. unfold osc_sub_bytes, wfb in *. apply Forall_map.
  eapply Forall_impl; [|exact H]. intros x Hx. apply osc_sbox_byte. exact Hx.
Qed.

Lemma osc_shift_rows_wfb s : wfb s -> wfb (osc_shift_rows s).
Proof.
  intros H. unfold osc_shift_rows, wfb. apply Forall_map. apply Forall_forall.
  intros i _. apply osc_nth_byte. exact H.
Qed.

Lemma osc_mix_columns_wfb : forall n s, (length s <= n)%nat -> wfb s -> wfb (osc_mix_columns s).
Proof.
  induction n as [|n IH]; intros s Hn H.
  - destruct s; [constructor|cbn [length] in Hn; lia].
  - destruct s as [|a0 [|a1 [|a2 [|a3 tl]]]]; try solve [cbn [osc_mix_columns]; constructor].
    cbn [osc_mix_columns].
    apply wfb_cons in H. destruct H as [H0 H]. apply wfb_cons in H. destruct H as [H1 H].
    apply wfb_cons in H. destruct H as [H2 H]. apply wfb_cons in H. destruct H as [H3 H].
    pose proof (osc_xtime_byte _ H0). pose proof (osc_xtime_byte _ H1).
    pose proof (osc_xtime_byte _ H2). pose proof (osc_xtime_byte _ H3).
    assert (L : forall a b, is_byte a -> is_byte b -> is_byte (Z.lxor a b)) by exact osc_lxor_byte.
    apply Forall_cons; [auto 10|]. apply Forall_cons; [auto 10|].
    apply Forall_cons; [auto 10|]. apply Forall_cons; [auto 10|].
    apply IH; [cbn [length] in Hn; lia|exact H].
Qed.

Lemma osc_next_rk_wfb rk rc : wfb rk -> is_byte rc -> wfb (osc_next_rk rk rc).
Proof.
  intros H Hrc. unfold osc_next_rk.
  destruct rk as [|k0 [|k1 [|k2 [|k3 [|k4 [|k5 [|k6 [|k7 [|k8 [|k9 [|k10 [|k11 [|k12 [|k13 [|k14
    [|k15 [|k16 tl]]]]]]]]]]]]]]]]]; try exact H.
  unfold wfb in H.
  repeat match goal with Hf : Forall _ (_ :: _) |- _ => inversion Hf; clear Hf; subst end.
  repeat match goal with Hb : is_byte ?k |- _ =>
           is_var k;
           lazymatch goal with
           | _ : is_byte (osc_sbox k) |- _ => fail
           | _ => pose proof (osc_sbox_byte k Hb)
           end end.
  unfold wfb. repeat constructor; repeat apply osc_lxor_byte; assumption.
Qed.

Lemma osc_expand_wfb rcs : forall rk,
  wfb rk -> Forall is_byte rcs -> Forall wfb (osc_expand rk rcs).
Proof.
  induction rcs as [|rc tl IH]; intros rk H Hr; cbn [osc_expand]; [constructor|].
  inversion Hr; subst. constructor.
  - apply osc_next_rk_wfb; assumption.
  - apply IH; [apply osc_next_rk_wfb; assumption|assumption].
Qed.

Lemma osc_key_schedule_wfb key : wfb key -> Forall wfb (osc_key_schedule key).
Proof.
  intros H. unfold osc_key_schedule. constructor; [exact H|].
  apply osc_expand_wfb; [exact H|]. unfold osc_rcons, is_byte. repeat constructor; lia.
Qed.

Lemma osc_rounds_wfb rks : forall s, Forall wfb rks -> wfb s -> wfb (osc_rounds s rks).
Proof.
  induction rks as [|rk tl IH]; intros s Hr Hs; [exact Hs|].
  inversion Hr as [|? ? Hrk Htl]; subst.
  destruct tl as [|rk2 tl].
  - cbn [osc_rounds]. apply osc_xor_wfb; [|exact Hrk].
    apply osc_shift_rows_wfb, osc_sub_bytes_wfb. exact Hs.
  - change (osc_rounds s (rk :: rk2 :: tl)) with
      (osc_rounds (osc_xor (osc_mix_columns (osc_shift_rows (osc_sub_bytes s))) rk) (rk2 :: tl)).
    apply IH; [exact Htl|]. apply osc_xor_wfb; [|exact Hrk].
    apply (osc_mix_columns_wfb 16).
    + rewrite osc_shift_rows_length. lia.
    + apply osc_shift_rows_wfb, osc_sub_bytes_wfb. exact Hs.
Qed.

Lemma osc_aes_rk_wfb rks blk : Forall wfb rks -> wfb blk -> wfb (osc_aes_rk rks blk).
Proof.
  intros Hr Hb. destruct rks as [|rk0 tl]; [exact Hb|]. cbn [osc_aes_rk].
  inversion Hr; subst. apply osc_rounds_wfb; [assumption|]. apply osc_xor_wfb; assumption.
Qed.

(* ---- CCM ---- *)
Lemma osc_be16_wfb x : wfb (be16 x).
Proof. unfold be16, wfb, is_byte. repeat constructor; lia. Qed.
Lemma osc_be32_wfb x : wfb (be32 x).
Proof. unfold be32, wfb, is_byte. repeat constructor; lia. Qed.

Lemma osc_chunks_aux_wfb l : forall room cur,
  wfb cur -> wfb l -> Forall wfb (osc_chunks_aux room cur l).
Proof.
  induction l as [|x tl IH]; intros room cur Hc Hl; cbn [osc_chunks_aux].
  - destruct cur; [constructor|]. constructor; [|constructor]. unfold wfb. apply Forall_rev. exact Hc.
  - apply wfb_cons in Hl. destruct Hl as [Hx Hl].
    assert (Hxc : wfb (x :: cur)) by (apply wfb_cons; split; assumption).
    destruct room as [|[|r]].
    + constructor; [unfold wfb; apply Forall_rev; exact Hxc|]. apply IH; [constructor|exact Hl].
    + constructor; [unfold wfb; apply Forall_rev; exact Hxc|]. apply IH; [constructor|exact Hl].
    + apply IH; assumption.
Qed.

Lemma osc_cbc_wfb rks data : forall x,
  Forall wfb rks -> wfb x -> wfb data -> wfb (osc_cbc rks x data).
Proof.
  intros x Hr Hx Hd. unfold osc_cbc.
  assert (Hc : Forall wfb (osc_chunks data)) by (apply osc_chunks_aux_wfb; [constructor|exact Hd]).
  revert x Hx. induction (osc_chunks data) as [|c tl IH]; intros x Hx; cbn [fold_left]; [exact Hx|].
  inversion Hc; subst. apply IH; [assumption|].
  apply osc_aes_rk_wfb; [exact Hr|]. apply osc_xor_wfb; assumption.
Qed.

Lemma osc_ccm_ctr_wfb rks nonce i : Forall wfb rks -> wfb nonce -> wfb (osc_ccm_ctr rks nonce i).
Proof.
  intros Hr Hn. unfold osc_ccm_ctr. apply osc_aes_rk_wfb; [exact Hr|].
  apply wfb_cons. split; [unfold is_byte; lia|]. apply wfb_app. split; [exact Hn|apply osc_be16_wfb].
Qed.

Lemma osc_ccm_stream_wfb rks nonce n : Forall wfb rks -> wfb nonce -> wfb (osc_ccm_stream rks nonce n).
Proof.
  intros Hr Hn. unfold osc_ccm_stream.
  induction (seq 1 (Z.to_nat ((n + 15) / 16))) as [|i tl IH]; cbn [flat_map]; [constructor|].
  apply wfb_app. split; [apply osc_ccm_ctr_wfb; assumption|exact IH].
Qed.

Lemma osc_ccm_tag_wfb t s0 : wfb t -> wfb s0 -> wfb (osc_ccm_tag t s0).
Proof.
  intros Ht Hs. unfold osc_ccm_tag, wfb. apply Forall_map. apply Forall_forall. intros i _.
  apply osc_lxor_byte; apply osc_nth_byte; assumption.
Qed.

Lemma osc_ccm_mac_wfb rks nonce aad msg :
  Forall wfb rks -> wfb nonce -> wfb aad -> wfb msg -> wfb (osc_ccm_mac rks nonce aad msg).
Proof.
  intros Hr Hn Ha Hm. unfold osc_ccm_mac.
  apply osc_cbc_wfb; [exact Hr| |exact Hm].
  apply osc_cbc_wfb; [exact Hr| |].
  - apply osc_aes_rk_wfb; [exact Hr|]. unfold osc_ccm_b0. apply wfb_cons. split.
    + unfold is_byte. destruct (len aad =? 0); lia.
    + apply wfb_app. split; [exact Hn|apply osc_be16_wfb].
  - unfold osc_ccm_aad_enc. destruct (len aad =? 0); [constructor|].
    destruct (len aad <? 65280).
    + apply wfb_app. split; [apply osc_be16_wfb|exact Ha].
    + apply wfb_cons. split; [unfold is_byte; lia|]. apply wfb_cons. split; [unfold is_byte; lia|].
      apply wfb_app. split; [apply osc_be32_wfb|exact Ha].
Qed.

Theorem osc_ccm_enc_wfb key nonce aad msg :
  wfb key -> wfb nonce -> wfb aad -> wfb msg -> wfb (osc_ccm_enc key nonce aad msg).
Proof.
  intros Hk Hn Ha Hm. unfold osc_ccm_enc, osc_ccm_enc_rk.
  pose proof (osc_key_schedule_wfb key Hk) as Hr.
  apply wfb_app. split.
  - apply osc_xor_wfb; [exact Hm|]. apply osc_ccm_stream_wfb; assumption.
  - apply osc_ccm_tag_wfb; [apply osc_ccm_mac_wfb; assumption|apply osc_ccm_ctr_wfb; assumption].
Qed.

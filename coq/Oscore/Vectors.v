(* Tests of the reference (not theorems about libcoap): the Gallina primitives and the OSCORE
   reference reproduce the published vectors - FIPS-197 C.1, RFC 3610 packet vectors 1-3,
   FIPS 180-4 / RFC 4231 / RFC 5869 test cases, RFC 8613 appendix C.1, C.2, C.3 (key derivation),
   C.4, C.6 (requests), C.7, C.8 (responses).  All by vm_compute. *)
From Coq Require Import ZArith List.
From LibcoapV Require Import Base.Bytes Wire.OptCodec Wire.Pdu Oscore.Aes128 Oscore.Ccm
  Oscore.Sha256 Oscore.Hkdf Oscore.Cbor Oscore.OscOption Oscore.Protect.
Import ListNotations.
Local Open Scope Z_scope.

Definition osc_rng (a : Z) (n : nat) : bytes := map (fun i => a + Z.of_nat i) (seq 0 n).

Example osc_vec_fips197 :
  osc_aes128 (osc_rng 0 16) [0; 17; 34; 51; 68; 85; 102; 119; 136; 153; 170; 187; 204; 221; 238; 255] = [105; 196; 224; 216; 106; 123; 4; 48; 216; 205; 183; 128; 112; 180; 197; 90].
Proof. vm_compute. reflexivity. Qed.

Example osc_vec_rfc3610_1 :
  osc_ccm_enc (osc_rng 192 16) [0; 0; 0; 3; 2; 1; 0; 160; 161; 162; 163; 164; 165] (osc_rng 0 8) (osc_rng 8 23) = [88; 140; 151; 154; 97; 198; 99; 210; 240; 102; 208; 194; 192; 249; 137; 128; 109; 95; 107; 97; 218; 195; 132; 23; 232; 209; 44; 253; 249; 38; 224].
Proof. vm_compute. reflexivity. Qed.
Example osc_vec_rfc3610_2 :
  osc_ccm_enc (osc_rng 192 16) [0; 0; 0; 4; 3; 2; 1; 160; 161; 162; 163; 164; 165] (osc_rng 0 8) (osc_rng 8 24) = [114; 201; 26; 54; 225; 53; 248; 207; 41; 28; 168; 148; 8; 92; 135; 227; 204; 21; 196; 57; 201; 228; 58; 59; 160; 145; 213; 110; 16; 64; 9; 22].
Proof. vm_compute. reflexivity. Qed.
Example osc_vec_rfc3610_3 :
  osc_ccm_enc (osc_rng 192 16) [0; 0; 0; 5; 4; 3; 2; 160; 161; 162; 163; 164; 165] (osc_rng 0 8) (osc_rng 8 25) = [81; 177; 229; 244; 74; 25; 125; 29; 164; 107; 15; 142; 45; 40; 42; 232; 113; 232; 56; 187; 100; 218; 133; 150; 87; 74; 218; 167; 111; 189; 159; 176; 197].
Proof. vm_compute. reflexivity. Qed.
Example osc_vec_rfc3610_1_dec :
  osc_ccm_dec (osc_rng 192 16) [0; 0; 0; 3; 2; 1; 0; 160; 161; 162; 163; 164; 165] (osc_rng 0 8) [88; 140; 151; 154; 97; 198; 99; 210; 240; 102; 208; 194; 192; 249; 137; 128; 109; 95; 107; 97; 218; 195; 132; 23; 232; 209; 44; 253; 249; 38; 224] = Some (osc_rng 8 23).
Proof. vm_compute. reflexivity. Qed.

Example osc_vec_sha256_abc : osc_sha256 [97; 98; 99] = [186; 120; 22; 191; 143; 1; 207; 234; 65; 65; 64; 222; 93; 174; 34; 35; 176; 3; 97; 163; 150; 23; 122; 156; 180; 16; 255; 97; 242; 0; 21; 173].
Proof. vm_compute. reflexivity. Qed.
Example osc_vec_sha256_empty : osc_sha256 [] = [227; 176; 196; 66; 152; 252; 28; 20; 154; 251; 244; 200; 153; 111; 185; 36; 39; 174; 65; 228; 100; 155; 147; 76; 164; 149; 153; 27; 120; 82; 184; 85].
Proof. vm_compute. reflexivity. Qed.
(* 56-byte message: padding spills into a second block *)
Example osc_vec_sha256_two_blocks :
  osc_sha256 [97; 98; 99; 100; 98; 99; 100; 101; 99; 100; 101; 102; 100; 101; 102; 103; 101; 102; 103; 104; 102; 103; 104; 105; 103; 104; 105; 106; 104; 105; 106; 107; 105; 106; 107; 108; 106; 107; 108; 109; 107; 108; 109; 110; 108; 109; 110; 111; 109; 110; 111; 112; 110; 111; 112; 113] = [36; 141; 106; 97; 210; 6; 56; 184; 229; 192; 38; 147; 12; 62; 96; 57; 163; 60; 228; 89; 100; 255; 33; 103; 246; 236; 237; 212; 25; 219; 6; 193].
Proof. vm_compute. reflexivity. Qed.

Example osc_vec_rfc4231_1 :
  osc_hmac (repeat 11 20) [72; 105; 32; 84; 104; 101; 114; 101] = [176; 52; 76; 97; 216; 219; 56; 83; 92; 168; 175; 206; 175; 11; 241; 43; 136; 29; 194; 0; 201; 131; 61; 167; 38; 233; 55; 108; 46; 50; 207; 247].
Proof. vm_compute. reflexivity. Qed.
Example osc_vec_rfc4231_2 :
  osc_hmac [74; 101; 102; 101] [119; 104; 97; 116; 32; 100; 111; 32; 121; 97; 32; 119; 97; 110; 116; 32; 102; 111; 114; 32; 110; 111; 116; 104; 105; 110; 103; 63] = [91; 220; 193; 70; 191; 96; 117; 78; 106; 4; 36; 38; 8; 149; 117; 199; 90; 0; 63; 8; 157; 39; 57; 131; 157; 236; 88; 185; 100; 236; 56; 67].
Proof. vm_compute. reflexivity. Qed.
(* key longer than the block size *)
Example osc_vec_rfc4231_6 :
  osc_hmac (repeat 170 131) [84; 101; 115; 116; 32; 85; 115; 105; 110; 103; 32; 76; 97; 114; 103; 101; 114; 32; 84; 104; 97; 110; 32; 66; 108; 111; 99; 107; 45; 83; 105; 122; 101; 32; 75; 101; 121; 32; 45; 32; 72; 97; 115; 104; 32; 75; 101; 121; 32; 70; 105; 114; 115; 116] = [96; 228; 49; 89; 30; 224; 182; 127; 13; 138; 38; 170; 203; 245; 183; 127; 142; 11; 198; 33; 55; 40; 197; 20; 5; 70; 4; 15; 14; 227; 127; 84].
Proof. vm_compute. reflexivity. Qed.

Example osc_vec_rfc5869_1 :
  osc_hkdf (Some (osc_rng 0 13)) (repeat 11 22) (osc_rng 240 10) 42 = [60; 178; 95; 37; 250; 172; 213; 122; 144; 67; 79; 100; 208; 54; 47; 42; 45; 45; 10; 144; 207; 26; 90; 76; 93; 176; 45; 86; 236; 196; 197; 191; 52; 0; 114; 8; 213; 184; 135; 24; 88; 101].
Proof. vm_compute. reflexivity. Qed.
Example osc_vec_rfc5869_3 :
  osc_hkdf (Some []) (repeat 11 22) [] 42 = [141; 164; 231; 117; 165; 99; 193; 143; 113; 95; 128; 42; 6; 60; 90; 49; 184; 161; 31; 92; 94; 225; 135; 158; 195; 69; 78; 95; 60; 115; 141; 45; 157; 32; 19; 149; 250; 164; 182; 26; 150; 200].
Proof. vm_compute. reflexivity. Qed.
(* an absent salt equals the empty salt (HashLen zeros) *)
Example osc_vec_rfc5869_3_nosalt :
  osc_hkdf None (repeat 11 22) [] 42 = [141; 164; 231; 117; 165; 99; 193; 143; 113; 95; 128; 42; 6; 60; 90; 49; 184; 161; 31; 92; 94; 225; 135; 158; 195; 69; 78; 95; 60; 115; 141; 45; 157; 32; 19; 149; 250; 164; 182; 26; 150; 200].
Proof. vm_compute. reflexivity. Qed.

(* ---- RFC 8613 appendix C ---- *)
Definition osc_c_secret : bytes := [1; 2; 3; 4; 5; 6; 7; 8; 9; 10; 11; 12; 13; 14; 15; 16].
Definition osc_c_salt : bytes := [158; 124; 169; 34; 35; 120; 99; 64].
Definition osc_c_idctx : bytes := [55; 203; 243; 33; 0; 23; 162; 211].
Definition osc_c1_client := osc_derive osc_c_secret (Some osc_c_salt) None [] [1].
Definition osc_c1_server := osc_derive osc_c_secret (Some osc_c_salt) None [1] [].
Definition osc_c2_client := osc_derive osc_c_secret None None [0] [1].
Definition osc_c3_client := osc_derive osc_c_secret (Some osc_c_salt) (Some osc_c_idctx) [] [1].
Definition osc_c3_server := osc_derive osc_c_secret (Some osc_c_salt) (Some osc_c_idctx) [1] [].

Example osc_vec_c1_keys :
  (sc_skey osc_c1_client, sc_rkey osc_c1_client, sc_iv osc_c1_client) =
  ([240; 145; 14; 215; 41; 94; 106; 212; 181; 79; 199; 147; 21; 67; 2; 255], [255; 177; 78; 9; 60; 148; 201; 202; 201; 71; 22; 72; 180; 249; 135; 16], [70; 34; 212; 221; 109; 148; 65; 104; 238; 251; 84; 152; 124]).
Proof. vm_compute. reflexivity. Qed.
Example osc_vec_c1_nonces :
  (osc_nonce [] [] (sc_iv osc_c1_client), osc_nonce [1] [] (sc_iv osc_c1_client)) =
  ([70; 34; 212; 221; 109; 148; 65; 104; 238; 251; 84; 152; 124], [71; 34; 212; 221; 109; 148; 65; 105; 238; 251; 84; 152; 124]).
Proof. vm_compute. reflexivity. Qed.
Example osc_vec_c2_keys :
  (sc_skey osc_c2_client, sc_rkey osc_c2_client, sc_iv osc_c2_client) =
  ([50; 27; 38; 148; 50; 83; 199; 255; 182; 0; 59; 11; 100; 215; 64; 65], [229; 123; 86; 53; 129; 81; 119; 205; 103; 154; 180; 188; 236; 157; 125; 218], [190; 53; 174; 41; 125; 45; 172; 233; 16; 197; 46; 153; 249]).
Proof. vm_compute. reflexivity. Qed.
Example osc_vec_c3_keys :
  (sc_skey osc_c3_client, sc_rkey osc_c3_client, sc_iv osc_c3_client) =
  ([175; 42; 19; 0; 165; 233; 87; 136; 179; 86; 51; 110; 238; 205; 43; 146], [227; 154; 12; 124; 119; 180; 63; 3; 180; 179; 154; 185; 162; 104; 105; 159], [44; 165; 143; 184; 95; 241; 184; 28; 11; 113; 129; 184; 94]).
Proof. vm_compute. reflexivity. Qed.

Definition osc_c_request (mid : Z) (tok : bytes) : msg :=
  mkMsg 0 1 mid tok [(3, [108; 111; 99; 97; 108; 104; 111; 115; 116]); (11, [116; 118; 49])] [].
Definition osc_c_response : msg :=
  mkMsg 2 69 23839 [0; 0; 57; 116] [] [72; 101; 108; 108; 111; 32; 87; 111; 114; 108; 100; 33].

(* C.4: request, sequence number 20, no ID context *)
Example osc_vec_c4 :
  option_map (serialize UDP) (osc_protect_req osc_c1_client (osc_c_request 23839 [0; 0; 57; 116]) 20)
  = Some [68; 2; 93; 31; 0; 0; 57; 116; 57; 108; 111; 99; 97; 108; 104; 111; 115; 116; 98; 9; 20; 255; 97; 47; 16; 146; 241; 119; 111; 28; 22; 104; 179; 130; 94].
Proof. vm_compute. reflexivity. Qed.
Example osc_vec_c4_verify :
  match parse UDP [68; 2; 93; 31; 0; 0; 57; 116; 57; 108; 111; 99; 97; 108; 104; 111; 115; 116; 98; 9; 20; 255; 97; 47; 16; 146; 241; 119; 111; 28; 22; 104; 179; 130; 94] with
  | Some o => osc_unprotect_req osc_c1_server o
  | None => None
  end = Some (osc_c_request 23839 [0; 0; 57; 116]).
Proof. vm_compute. reflexivity. Qed.
(* C.6: request with ID context *)
Example osc_vec_c6 :
  option_map (serialize UDP) (osc_protect_req osc_c3_client (osc_c_request 12174 [239; 155; 191; 122]) 20)
  = Some [68; 2; 47; 142; 239; 155; 191; 122; 57; 108; 111; 99; 97; 108; 104; 111; 115; 116; 107; 25; 20; 8; 55; 203; 243; 33; 0; 23; 162; 211; 255; 114; 205; 114; 115; 253; 51; 26; 196; 92; 255; 190; 85; 195].
Proof. vm_compute. reflexivity. Qed.
Example osc_vec_c6_verify :
  match parse UDP [68; 2; 47; 142; 239; 155; 191; 122; 57; 108; 111; 99; 97; 108; 104; 111; 115; 116; 107; 25; 20; 8; 55; 203; 243; 33; 0; 23; 162; 211; 255; 114; 205; 114; 115; 253; 51; 26; 196; 92; 255; 190; 85; 195] with
  | Some o => osc_unprotect_req osc_c3_server o
  | None => None
  end = Some (osc_c_request 12174 [239; 155; 191; 122]).
Proof. vm_compute. reflexivity. Qed.
(* C.7: response without Partial IV *)
Example osc_vec_c7 :
  option_map (serialize UDP) (osc_protect_resp osc_c1_server osc_c_response [20] false 0)
  = Some [100; 68; 93; 31; 0; 0; 57; 116; 144; 255; 219; 170; 209; 233; 167; 231; 178; 168; 19; 211; 195; 21; 36; 55; 131; 3; 205; 175; 174; 17; 145; 6].
Proof. vm_compute. reflexivity. Qed.
Example osc_vec_c7_verify :
  match parse UDP [100; 68; 93; 31; 0; 0; 57; 116; 144; 255; 219; 170; 209; 233; 167; 231; 178; 168; 19; 211; 195; 21; 36; 55; 131; 3; 205; 175; 174; 17; 145; 6] with
  | Some o => osc_unprotect_resp osc_c1_client [0; 0; 57; 116] [20] o
  | None => None
  end = Some osc_c_response.
Proof. vm_compute. reflexivity. Qed.
(* C.8: response with Partial IV 0 *)
Example osc_vec_c8 :
  option_map (serialize UDP) (osc_protect_resp osc_c1_server osc_c_response [20] true 0)
  = Some [100; 68; 93; 31; 0; 0; 57; 116; 146; 1; 0; 255; 77; 76; 19; 102; 147; 132; 182; 115; 84; 178; 182; 23; 95; 244; 184; 101; 140; 102; 106; 108; 248; 142].
Proof. vm_compute. reflexivity. Qed.
Example osc_vec_c8_verify :
  match parse UDP [100; 68; 93; 31; 0; 0; 57; 116; 146; 1; 0; 255; 77; 76; 19; 102; 147; 132; 182; 115; 84; 178; 182; 23; 95; 244; 184; 101; 140; 102; 106; 108; 248; 142] with
  | Some o => osc_unprotect_resp osc_c1_client [0; 0; 57; 116] [20] o
  | None => None
  end = Some osc_c_response.
Proof. vm_compute. reflexivity. Qed.

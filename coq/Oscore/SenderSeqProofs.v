(* C15 - proofs about the sender model of Oscore/SenderSeq.v: the Partial IVs put on the wire
   over any sequence of protect / crash-and-restart steps are pairwise distinct. *)
From Coq Require Import Sorted.
From LibcoapV Require Import Base.Tactics Oscore.SenderSeq.
Local Open Scope Z_scope.

(* every field stays below this bound (or below it plus the number of steps made): no
   uint64_t ever wraps *)
Definition ss_M : Z := 2 ^ 41.

Definition ss_freq_ok (f : Z) : Prop := 0 <= f < 2 ^ 32.

Definition ss_op_ok (o : ss_op) : Prop :=
  match o with SsProtect => True | SsCrash f => ss_freq_ok f end.

(* invariant after [d] steps *)
Definition ss_inv (y : ss_sys) (d : Z) : Prop :=
  let c := ss_cur y in
  1 <= ss_freq c < 2 ^ 32 /\ 0 <= ss_next c <= ss_M /\ 0 <= ss_saved y <= ss_M /\
  0 <= ss_seq c <= ss_M + d /\
  ((ss_seq c <= ss_next c /\ ss_next c = ss_saved y) \/
   (ss_seq c = ss_saved y /\ ss_next c <= ss_seq c < ss_next c + ss_freq c) \/
   ss_seq_max <= ss_seq c).

(* every Partial IV still to come is at least this *)
Definition ss_lb (y : ss_sys) : Z := Z.min (ss_seq (ss_cur y)) (ss_saved y).

Lemma ss_boot_inv : forall f start d,
  ss_freq_ok f -> 0 <= start <= ss_M -> 0 <= d -> ss_inv (ss_boot f start) d.
Proof.
  intros f start d Hf Hs Hd. unfold ss_freq_ok in Hf.
  unfold ss_inv, ss_boot, ss_init. cbn [ss_cur ss_saved ss_seq ss_next ss_freq].
  set (f' := if f >? 0 then f else 1).
  assert (Hf' : 1 <= f' < 2 ^ 32) by (subst f'; destruct (f >? 0) eqn:E; lia).
  pose proof (Z.mod_pos_bound start f' ltac:(lia)) as Hm.
  assert (start mod f' <= start) by (apply Z.mod_le; lia).
  repeat split; lia.
Qed.

Lemma ss_boot_lb : forall f start, ss_lb (ss_boot f start) = start.
Proof.
  intros. unfold ss_lb, ss_boot, ss_init. cbn. lia.
Qed.

(* one step keeps the invariant, never lowers the bound, and a Partial IV that is emitted
   lies between the old and the new bound *)
Lemma ss_step_inv : forall y d o,
  ss_inv y d -> 0 <= d -> ss_M + d + 1 < 2 ^ 64 -> ss_op_ok o ->
  let '(piv, _, y1) := ss_step y o in
  ss_inv y1 (d + 1) /\ ss_lb y <= ss_lb y1 /\
  match piv with Some p => ss_lb y <= p < ss_lb y1 /\ 0 <= p < ss_seq_max | None => True end.
Proof.
  intros y d o Hinv Hd Hb Ho.
  destruct o as [|f].
  - (* SsProtect *)
    destruct Hinv as (Hf & Hn & Hs & Hq & Hcase).
    unfold ss_step, ss_protect, ss_two64.
    unfold ss_M in *.
    rewrite (Z.mod_small (ss_seq (ss_cur y) + 1)) by lia.
    destruct (ss_seq (ss_cur y) + 1 >? ss_seq_max) eqn:Emax.
    + (* exhausted: nothing is sent *)
      unfold ss_inv, ss_lb. cbn [ss_cur ss_saved ss_seq ss_next ss_freq].
      unfold ss_M. repeat split; try lia.
    + assert (Hnc : ss_seq (ss_cur y) <= ss_next (ss_cur y) /\ ss_next (ss_cur y) = ss_saved y \/
                    ss_seq (ss_cur y) = ss_saved y /\
                    ss_next (ss_cur y) <= ss_seq (ss_cur y) < ss_next (ss_cur y) + ss_freq (ss_cur y)).
      { destruct Hcase as [H|[H|H]]; [left; exact H | right; exact H | lia]. }
      unfold ss_seq_max in *.
      destruct (ss_seq (ss_cur y) + 1 >? ss_next (ss_cur y)) eqn:Egt.
      * rewrite (Z.mod_small (ss_next (ss_cur y) + ss_freq (ss_cur y))) by lia.
        unfold ss_inv, ss_lb. cbn [ss_cur ss_saved ss_seq ss_next ss_freq].
        unfold ss_M. repeat split; try lia.
      * unfold ss_inv, ss_lb. cbn [ss_cur ss_saved ss_seq ss_next ss_freq].
        unfold ss_M. repeat split; try lia.
  - (* SsCrash: restart from what is on stable storage *)
    cbn [ss_step]. cbn [ss_op_ok] in Ho.
    destruct Hinv as (Hf & Hn & Hs & Hq & Hcase).
    split; [apply ss_boot_inv; try lia; exact Ho|].
    rewrite ss_boot_lb. unfold ss_lb. split; [lia | exact I].
Qed.

Lemma ss_pivs_distinct : forall ops y d,
  ss_inv y d -> 0 <= d -> ss_M + d + Z.of_nat (length ops) < 2 ^ 64 ->
  Forall ss_op_ok ops ->
  NoDup (ss_pivs y ops) /\ Forall (fun p => ss_lb y <= p) (ss_pivs y ops).
Proof.
  induction ops as [|o t IH]; intros y d Hinv Hd Hb Hok.
  - cbn. split; constructor.
  - cbn [ss_pivs]. inversion Hok as [|? ? Ho Hok']; subst.
    cbn [length] in Hb. rewrite Nat2Z.inj_succ in Hb.
    pose proof (ss_step_inv y d o Hinv Hd ltac:(lia) Ho) as Hs.
    destruct (ss_step y o) as [[piv sv] y1].
    destruct Hs as (Hinv1 & Hlb & Hp).
    destruct (IH y1 (d + 1) Hinv1 ltac:(lia) ltac:(lia) Hok') as [Hnd Hall].
    destruct piv as [p|].
    + destruct Hp as [Hp Hpr]. split.
      * constructor; [|exact Hnd].
        intro Hin. rewrite Forall_forall in Hall. apply Hall in Hin. lia.
      * constructor; [lia|].
        eapply Forall_impl; [|exact Hall]. cbn. intros; lia.
    + split; [exact Hnd|].
      eapply Forall_impl; [|exact Hall]. cbn. intros; lia.
Qed.

(* start_seq_num is a sequence number (at most 2^40), ssn_freq a uint32_t; the bound on the
   number of steps only excludes a wrap of the 64-bit counter after the sequence number space
   is exhausted *)
Theorem ss_piv_unique : forall freq start ops,
  0 <= start <= 2 ^ 40 -> ss_freq_ok freq -> Forall ss_op_ok ops ->
  Z.of_nat (length ops) < 2 ^ 63 ->
  NoDup (ss_pivs (ss_boot freq start) ops).
Proof.
  intros freq start ops Hs Hf Hok Hlen.
  assert (Hi : ss_inv (ss_boot freq start) 0).
  { apply ss_boot_inv; unfold ss_M; try lia. exact Hf. }
  apply (ss_pivs_distinct ops _ 0 Hi); unfold ss_M; try lia. exact Hok.
Qed.

(* every Partial IV on the wire is a valid sequence number (below OSCORE_SEQ_MAX) *)
Lemma ss_protect_piv_small : forall s p sv s1,
  0 <= ss_seq s -> ss_seq s + 1 < ss_two64 ->
  ss_protect s = (Some p, sv, s1) -> p = ss_seq s /\ p < ss_seq_max.
Proof.
  intros s p sv s1 H0 H1. unfold ss_protect.
  rewrite (Z.mod_small (ss_seq s + 1)) by lia.
  destruct (ss_seq s + 1 >? ss_seq_max) eqn:E; [discriminate|].
  destruct (ss_seq s + 1 >? ss_next s); intros H; inversion H; subst; lia.
Qed.

(* stronger: the Partial IVs on the wire are strictly increasing, also across restarts, and each
   is a sequence number a recipient accepts (below OSCORE_SEQ_MAX) *)
Lemma ss_pivs_sorted_gen : forall ops y d,
  ss_inv y d -> 0 <= d -> ss_M + d + Z.of_nat (length ops) < 2 ^ 64 ->
  Forall ss_op_ok ops ->
  StronglySorted Z.lt (ss_pivs y ops) /\
  Forall (fun p => ss_lb y <= p /\ 0 <= p < ss_seq_max) (ss_pivs y ops).
Proof.
  induction ops as [|o t IH]; intros y d Hinv Hd Hb Hok.
  - cbn. split; constructor.
  - cbn [ss_pivs]. inversion Hok as [|? ? Ho Hok']; subst.
    cbn [length] in Hb. rewrite Nat2Z.inj_succ in Hb.
    pose proof (ss_step_inv y d o Hinv Hd ltac:(lia) Ho) as Hs.
    destruct (ss_step y o) as [[piv sv] y1].
    destruct Hs as (Hinv1 & Hlb & Hp).
    destruct (IH y1 (d + 1) Hinv1 ltac:(lia) ltac:(lia) Hok') as [Hss Hall].
    destruct piv as [p|].
    + destruct Hp as [Hp Hpr]. split.
      * constructor; [exact Hss|].
        eapply Forall_impl; [|exact Hall]. cbn. intros a [Ha _]. lia.
      * constructor; [lia|].
        eapply Forall_impl; [|exact Hall]. cbn. intros; lia.
    + split; [exact Hss|].
      eapply Forall_impl; [|exact Hall]. cbn. intros; lia.
Qed.

Theorem ss_pivs_increasing : forall freq start ops,
  0 <= start <= 2 ^ 40 -> ss_freq_ok freq -> Forall ss_op_ok ops ->
  Z.of_nat (length ops) < 2 ^ 63 ->
  StronglySorted Z.lt (ss_pivs (ss_boot freq start) ops) /\
  Forall (fun p => 0 <= p < ss_seq_max) (ss_pivs (ss_boot freq start) ops).
Proof.
  intros freq start ops Hs Hf Hok Hlen.
  assert (Hi : ss_inv (ss_boot freq start) 0).
  { apply ss_boot_inv; unfold ss_M; try lia. exact Hf. }
  destruct (ss_pivs_sorted_gen ops _ 0 Hi) as [H1 H2]; unfold ss_M; try lia; [exact Hok|].
  split; [exact H1|]. eapply Forall_impl; [|exact H2]. cbn. intros a [_ Ha]. exact Ha.
Qed.

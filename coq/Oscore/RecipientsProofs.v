(* C15 - proofs about the recipient chain (Oscore/Recipients.v). *)
From LibcoapV Require Import Base.Tactics Oscore.Replay Oscore.ReplayProofs Oscore.Recipients.
Local Open Scope Z_scope.

Definition rl_ids (c : rl_chain) : list Z := map fst c.

Lemma rl_find_In : forall c id, rl_find c id <> None <-> In id (rl_ids c).
Proof.
  induction c as [|[i s] t IH]; intros id; cbn [rl_find rl_ids map fst].
  - split; [congruence | intros []].
  - destruct (i =? id) eqn:E.
    + split; [intros _; left; lia | intros _; discriminate].
    + rewrite IH. split; [intros H; right; exact H | intros [H|H]; [lia | exact H]].
Qed.

(* an id that is already in the chain is refused and nothing changes: no second window *)
Theorem rl_add_duplicate_refused : forall v W b12 c id,
  In id (rl_ids c) -> rl_step v W b12 c (RlAdd id) = (RlRet false, c).
Proof.
  intros v W b12 c id Hin. cbn [rl_step]. apply rl_find_In in Hin.
  destruct (rl_find c id); [reflexivity | congruence].
Qed.

Lemma rl_set_ids : forall c id s, rl_ids (rl_set c id s) = rl_ids c.
Proof.
  induction c as [|[i s0] t IH]; intros id s; cbn [rl_set rl_ids map fst]; [reflexivity|].
  destruct (i =? id); cbn [map fst]; [reflexivity|]. f_equal. apply IH.
Qed.

Lemma rl_remove_ids_incl : forall c id x, In x (rl_ids (rl_remove c id)) -> In x (rl_ids c).
Proof.
  induction c as [|[i s0] t IH]; intros id x H; cbn [rl_remove rl_ids map fst] in *; [exact H|].
  destruct (i =? id); cbn [map fst] in *; [right; exact H|].
  destruct H as [H|H]; [left; exact H | right; eapply IH; exact H].
Qed.

Lemma rl_remove_nodup : forall c id, NoDup (rl_ids c) -> NoDup (rl_ids (rl_remove c id)).
Proof.
  induction c as [|[i s0] t IH]; intros id H; cbn [rl_remove rl_ids map fst] in *; [exact H|].
  inversion H as [|? ? Hn Ht]; subst.
  destruct (i =? id); cbn [map fst]; [exact Ht|].
  constructor; [|apply IH; exact Ht]. intro Hin. apply Hn. eapply rl_remove_ids_incl; exact Hin.
Qed.

(* the ids of the chain stay pairwise distinct: a lookup never has a choice *)
Lemma rl_step_nodup : forall v W b12 c o,
  NoDup (rl_ids c) -> NoDup (rl_ids (snd (rl_step v W b12 c o))).
Proof.
  intros v W b12 c o H. destruct o as [id|id|id m]; cbn [rl_step].
  - destruct (rl_find c id) eqn:E; cbn [snd]; [exact H|].
    cbn [rl_ids map fst]. constructor; [|exact H].
    intro Hin. apply rl_find_In in Hin. congruence.
  - destruct (rl_find c id); cbn [snd]; [apply rl_remove_nodup; exact H | exact H].
  - destruct (rl_find c id) as [s|]; cbn [snd]; [|exact H].
    destruct (rp_recv v W b12 s m) as [r s1]. cbn [snd]. rewrite rl_set_ids. exact H.
Qed.

Theorem rl_run_nodup : forall v W b12 ops c,
  NoDup (rl_ids c) -> NoDup (rl_ids (snd (rl_run v W b12 c ops))).
Proof.
  intros v W b12 ops. induction ops as [|o t IH]; intros c H; [exact H|].
  cbn [rl_run]. pose proof (rl_step_nodup v W b12 c o H) as H1.
  destruct (rl_step v W b12 c o) as [r c1]. cbn [snd] in H1.
  specialize (IH c1 H1). destruct (rl_run v W b12 c1 t) as [rs c2]. exact IH.
Qed.

Lemma rl_find_set_same : forall c id s s1, rl_find c id = Some s -> rl_find (rl_set c id s1) id = Some s1.
Proof.
  induction c as [|[i s0] t IH]; intros id s s1 H; cbn [rl_find rl_set] in *; [discriminate|].
  destruct (i =? id) eqn:E; cbn [rl_find]; rewrite E; [reflexivity | eapply IH; exact H].
Qed.

Lemma rl_find_set_other : forall c id j s1, j <> id -> rl_find (rl_set c id s1) j = rl_find c j.
Proof.
  induction c as [|[i s0] t IH]; intros id j s1 H; cbn [rl_find rl_set]; [reflexivity|].
  destruct (i =? id) eqn:E; cbn [rl_find].
  - assert (i =? j = false) as -> by lia. reflexivity.
  - destruct (i =? j); [reflexivity | apply IH; exact H].
Qed.

Lemma rl_find_remove_other : forall c id j, j <> id -> rl_find (rl_remove c id) j = rl_find c j.
Proof.
  induction c as [|[i s0] t IH]; intros id j H; cbn [rl_find rl_remove]; [reflexivity|].
  destruct (i =? id) eqn:E; cbn [rl_find].
  - assert (i =? j = false) as -> by lia. reflexivity.
  - destruct (i =? j); [reflexivity | apply IH; exact H].
Qed.

(* the messages for one id *)
Fixpoint rl_proj (id : Z) (ops : list rl_op) : list rp_msg :=
  match ops with
  | [] => []
  | RlDeliver i m :: t => if i =? id then m :: rl_proj id t else rl_proj id t
  | _ :: t => rl_proj id t
  end.

(* as long as the entry for [id] is not deleted, it lives through exactly the per-context run
   of the messages addressed to it - whatever is added, deleted or delivered for other ids, and
   however often adding [id] again is tried *)
Lemma rl_run_present : forall v W b12 id ops c s,
  rl_find c id = Some s -> existsb (rl_is_del id) ops = false ->
  rl_accepted id ops (fst (rl_run v W b12 c ops)) =
    rp_accepted_of (rl_proj id ops) (fst (rp_run v W b12 s (rl_proj id ops))) /\
  rl_find (snd (rl_run v W b12 c ops)) id = Some (snd (rp_run v W b12 s (rl_proj id ops))).
Proof.
  intros v W b12 id ops. induction ops as [|o t IH]; intros c s Hf Hd.
  - cbn. auto.
  - cbn [existsb] in Hd. apply orb_false_elim in Hd. destruct Hd as [Hd0 Hd].
    cbn [rl_run]. destruct o as [j|j|j m]; cbn [rl_step rl_proj rl_is_del] in *.
    + (* add *)
      destruct (rl_find c j) eqn:Ej.
      * specialize (IH c s Hf Hd). destruct (rl_run v W b12 c t) as [rs c2].
        cbn [fst snd rl_accepted] in *. exact IH.
      * assert (Hne : j <> id) by (intro; subst; congruence).
        assert (Hf' : rl_find ((j, rp_init) :: c) id = Some s).
        { cbn [rl_find]. assert (j =? id = false) as -> by lia. exact Hf. }
        specialize (IH _ s Hf' Hd). destruct (rl_run v W b12 ((j, rp_init) :: c) t) as [rs c2].
        cbn [fst snd rl_accepted] in *. exact IH.
    + (* delete of another id *)
      assert (Hne : j <> id) by lia.
      destruct (rl_find c j) eqn:Ej.
      * assert (Hf' : rl_find (rl_remove c j) id = Some s)
          by (rewrite rl_find_remove_other by congruence; exact Hf).
        specialize (IH _ s Hf' Hd). destruct (rl_run v W b12 (rl_remove c j) t) as [rs c2].
        cbn [fst snd rl_accepted] in *. exact IH.
      * specialize (IH c s Hf Hd). destruct (rl_run v W b12 c t) as [rs c2].
        cbn [fst snd rl_accepted] in *. exact IH.
    + (* delivery *)
      destruct (j =? id) eqn:Ej.
      * assert (j = id) by lia. subst j. rewrite Hf.
        cbn [rp_run].
        destruct (rp_recv v W b12 s m) as [r s1] eqn:Er.
        specialize (IH (rl_set c id s1) s1 (rl_find_set_same c id s s1 Hf) Hd).
        destruct (rl_run v W b12 (rl_set c id s1) t) as [rs c2].
        destruct (rp_run v W b12 s1 (rl_proj id t)) as [vs s2].
        cbn [fst snd rl_accepted rp_accepted_of] in *. rewrite Ej.
        destruct IH as [IH1 IH2]. split; [|exact IH2].
        destruct r; cbn [rp_is_accept]; try exact IH1. f_equal. exact IH1.
      * assert (Hne : id <> j) by lia.
        destruct (rl_find c j) as [sj|] eqn:Efj.
        -- destruct (rp_recv v W b12 sj m) as [r s1].
           assert (Hf' : rl_find (rl_set c j s1) id = Some s)
             by (rewrite rl_find_set_other by exact Hne; exact Hf).
           specialize (IH _ s Hf' Hd). destruct (rl_run v W b12 (rl_set c j s1) t) as [rs c2].
           cbn [fst snd rl_accepted] in *. rewrite Ej.
           destruct r; exact IH.
        -- specialize (IH c s Hf Hd). destruct (rl_run v W b12 c t) as [rs c2].
           cbn [fst snd rl_accepted] in *. exact IH.
Qed.

(* the entry does not exist yet: nothing is accepted for it until it is added *)
Lemma rl_run_absent : forall W b12 id ops c,
  rl_find c id = None -> existsb (rl_is_del id) ops = false ->
  NoDup (rl_accepted id ops (fst (rl_run rp_fixed W b12 c ops))).
Proof.
  intros W b12 id ops. induction ops as [|o t IH]; intros c Hf Hd.
  - cbn. constructor.
  - cbn [existsb] in Hd. apply orb_false_elim in Hd. destruct Hd as [Hd0 Hd].
    cbn [rl_run]. destruct o as [j|j|j m]; cbn [rl_step rl_is_del] in *.
    + destruct (rl_find c j) eqn:Ej.
      * specialize (IH c Hf Hd). destruct (rl_run rp_fixed W b12 c t) as [rs c2].
        cbn [fst rl_accepted] in *. exact IH.
      * destruct (Z.eq_dec j id) as [->|Hne].
        -- (* this is the creation of the entry *)
           assert (Hf' : rl_find ((id, rp_init) :: c) id = Some rp_init)
             by (cbn [rl_find]; rewrite Z.eqb_refl; reflexivity).
           pose proof (rl_run_present rp_fixed W b12 id t _ rp_init Hf' Hd) as [HA _].
           destruct (rl_run rp_fixed W b12 ((id, rp_init) :: c) t) as [rs c2].
           cbn [fst rl_accepted] in *. rewrite HA.
           exact (rp_at_most_once W b12 (rl_proj id t)).
        -- assert (Hf' : rl_find ((j, rp_init) :: c) id = None).
           { cbn [rl_find]. assert (j =? id = false) as -> by lia. exact Hf. }
           specialize (IH _ Hf' Hd). destruct (rl_run rp_fixed W b12 ((j, rp_init) :: c) t) as [rs c2].
           cbn [fst rl_accepted] in *. exact IH.
    + assert (Hne : j <> id) by lia.
      destruct (rl_find c j) eqn:Ej.
      * assert (Hf' : rl_find (rl_remove c j) id = None)
          by (rewrite rl_find_remove_other by congruence; exact Hf).
        specialize (IH _ Hf' Hd). destruct (rl_run rp_fixed W b12 (rl_remove c j) t) as [rs c2].
        cbn [fst rl_accepted] in *. exact IH.
      * specialize (IH c Hf Hd). destruct (rl_run rp_fixed W b12 c t) as [rs c2].
        cbn [fst rl_accepted] in *. exact IH.
    + destruct (j =? id) eqn:Ej.
      * assert (j = id) by lia. subst j. rewrite Hf.
        specialize (IH c Hf Hd). destruct (rl_run rp_fixed W b12 c t) as [rs c2].
        cbn [fst rl_accepted] in *. exact IH.
      * assert (Hne : id <> j) by lia.
        destruct (rl_find c j) as [sj|] eqn:Efj.
        -- destruct (rp_recv rp_fixed W b12 sj m) as [r s1].
           assert (Hf' : rl_find (rl_set c j s1) id = None)
             by (rewrite rl_find_set_other by exact Hne; exact Hf).
           specialize (IH _ Hf' Hd). destruct (rl_run rp_fixed W b12 (rl_set c j s1) t) as [rs c2].
           cbn [fst rl_accepted] in *. rewrite Ej. destruct r; exact IH.
        -- specialize (IH c Hf Hd). destruct (rl_run rp_fixed W b12 c t) as [rs c2].
           cbn [fst rl_accepted] in *. exact IH.
Qed.

(* per lifetime of a recipient context: whatever management calls and deliveries for any ids are
   interleaved (adding the id again included), as long as the id is not deleted, no sequence
   number is accepted twice for it.  The chain starts empty (the configuration's recipient_id
   lines are RlAdd steps of [ops]). *)
Theorem rl_at_most_once : forall W b12 id ops,
  existsb (rl_is_del id) ops = false ->
  NoDup (rl_accepted id ops (fst (rl_run rp_fixed W b12 [] ops))).
Proof.
  intros W b12 id ops Hd. apply rl_run_absent; [reflexivity | exact Hd].
Qed.

(* a refused add leaves the replay state of the existing entry exactly as it was *)
Theorem rl_add_existing_keeps_window : forall v W b12 c id s,
  rl_find c id = Some s ->
  rl_find (snd (rl_step v W b12 c (RlAdd id))) id = Some s /\
  fst (rl_step v W b12 c (RlAdd id)) = RlRet false.
Proof.
  intros v W b12 c id s H. cbn [rl_step]. rewrite H. cbn. auto.
Qed.

(* delete, then add: a new recipient context in its initial state *)
Theorem rl_del_add_is_new_context : forall v W b12 c id s,
  NoDup (rl_ids c) -> rl_find c id = Some s ->
  let c1 := snd (rl_step v W b12 c (RlDel id)) in
  rl_find c1 id = None /\
  rl_find (snd (rl_step v W b12 c1 (RlAdd id))) id = Some rp_init.
Proof.
  intros v W b12 c id s Hnd Hf. cbn [rl_step]. rewrite Hf. cbn [snd].
  assert (Hnone : rl_find (rl_remove c id) id = None).
  { clear Hf s. induction c as [|[i s0] t IH]; cbn [rl_remove rl_find]; [reflexivity|].
    cbn [rl_ids map fst] in Hnd. inversion Hnd as [|? ? Hn Ht]; subst.
    destruct (i =? id) eqn:E.
    - destruct (rl_find t id) eqn:Et; [|reflexivity].
      exfalso. apply Hn. assert (i = id) by lia. subst i. apply rl_find_In. congruence.
    - cbn [rl_find]. rewrite E. apply IH. exact Ht. }
  split; [exact Hnone|]. rewrite Hnone. cbn [snd rl_find]. rewrite Z.eqb_refl. reflexivity.
Qed.

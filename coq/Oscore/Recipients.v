(* C15 - the recipient chain of a security context and its management calls.

   Transcribed from src/oscore/oscore_context.c
     oscore_add_recipient     (coap_new_oscore_recipient, recipient_id lines of a configuration):
                              refused when the id is already in the chain, else a context in its
                              initial state is put at the head of the chain
     oscore_delete_recipient  (coap_delete_oscore_recipient): the first entry with that id is
                              unlinked and freed
     oscore_find_context      the first entry of the chain with the kid of the request
   and the per-context step [rp_recv] of Oscore/Replay.v.  Ids are numbers here (the C compares
   byte strings of at most 7 bytes).

   What the property means for these calls (RFC 8613 3.1, 7.4, B.1): a recipient context and its
   replay window belong together for as long as the context exists.  Adding an id that is already
   there must be refused and must not touch the existing window - otherwise a second, empty
   window shadows the first and every earlier request is accepted again.  Deleting a recipient
   and adding the id again is the application throwing its replay state away: the new entry is
   a NEW recipient context (initial state; with Appendix B.1.2 it first challenges with Echo),
   and "accepted by a recipient context at most once" is claimed per lifetime of an entry.

   Definitions only.  All global names carry the prefix rl_. *)
From Coq Require Import ZArith List Bool.
From LibcoapV Require Import Oscore.Replay.
Import ListNotations.
Local Open Scope Z_scope.

Definition rl_chain := list (Z * rp_state).

Inductive rl_op :=
| RlAdd (id : Z)                 (* coap_new_oscore_recipient *)
| RlDel (id : Z)                 (* coap_delete_oscore_recipient *)
| RlDeliver (id : Z) (m : rp_msg). (* a message whose kid is id *)

Inductive rl_result :=
| RlRet (ok : bool)              (* return value of a management call *)
| RlVerdict (r : rp_verdict).

Fixpoint rl_find (c : rl_chain) (id : Z) : option rp_state :=
  match c with
  | [] => None
  | (i, s) :: t => if i =? id then Some s else rl_find t id
  end.

(* replace the state of the first entry with that id *)
Fixpoint rl_set (c : rl_chain) (id : Z) (s1 : rp_state) : rl_chain :=
  match c with
  | [] => []
  | (i, s) :: t => if i =? id then (i, s1) :: t else (i, s) :: rl_set t id s1
  end.

Fixpoint rl_remove (c : rl_chain) (id : Z) : rl_chain :=
  match c with
  | [] => []
  | (i, s) :: t => if i =? id then t else (i, s) :: rl_remove t id
  end.

Definition rl_step (v : rp_variant) (W : Z) (b12 : bool) (c : rl_chain) (o : rl_op)
  : rl_result * rl_chain :=
  match o with
  | RlAdd id =>
    match rl_find c id with
    | Some _ => (RlRet false, c)                       (* duplicate: refused, nothing changes *)
    | None => (RlRet true, (id, rp_init) :: c)
    end
  | RlDel id =>
    match rl_find c id with
    | Some _ => (RlRet true, rl_remove c id)
    | None => (RlRet false, c)
    end
  | RlDeliver id m =>
    match rl_find c id with
    | None => (RlVerdict RpRejUnroutable, c)           (* 4.01 Security context not found *)
    | Some s => let '(r, s1) := rp_recv v W b12 s m in (RlVerdict r, rl_set c id s1)
    end
  end.

Fixpoint rl_run (v : rp_variant) (W : Z) (b12 : bool) (c : rl_chain) (ops : list rl_op)
  : list rl_result * rl_chain :=
  match ops with
  | [] => ([], c)
  | o :: t => let '(r, c1) := rl_step v W b12 c o in
              let '(rs, c2) := rl_run v W b12 c1 t in (r :: rs, c2)
  end.

(* the chain a configuration with these recipient_id lines gives (each line = one add) *)
Definition rl_create (v : rp_variant) (W : Z) (b12 : bool) (ids : list Z) : rl_chain :=
  snd (rl_run v W b12 [] (map RlAdd ids)).

(* sequence numbers of the messages for [id] that reached the handler *)
Fixpoint rl_accepted (id : Z) (ops : list rl_op) (rs : list rl_result) : list Z :=
  match ops, rs with
  | o :: t, r :: rt =>
    match o, r with
    | RlDeliver i m, RlVerdict RpAccept =>
      if i =? id then rp_m_seq m :: rl_accepted id t rt else rl_accepted id t rt
    | _, _ => rl_accepted id t rt
    end
  | _, _ => []
  end.

Definition rl_is_del (id : Z) (o : rl_op) : bool :=
  match o with RlDel i => i =? id | _ => false end.

(* C15 - OSCORE anti-replay state of a recipient context.

   Transcribed from
     src/oscore/oscore.c    oscore_validate_sender_seq, oscore_roll_back_seq
     src/coap_oscore.c      coap_oscore_decrypt_pdu, request branch: RFC 8613 8.2 step 3
                            (validation gated on initial_state), the assignment to last_seq,
                            rollback on decryption failure, appendix B.1.2 Echo handling.

   The code as found violated the property in five places.  Each repair is a flag of
   [rp_variant]: [rp_orig] (all flags off) is the code as found, [rp_fixed] (all on) is the
   code after the fix commits in /repo.  The tie (harness/h_replay.c) compares the C with
   [rp_fixed]; the [_refuted] theorems are about [rp_orig] and the single-flag-off variants.

   Definitions only.  All global names carry the prefix rp_. *)
From Coq Require Import ZArith List Bool.
Import ListNotations.
Local Open Scope Z_scope.

(* OSCORE_SEQ_MAX = ((uint64_t)1 << 40) - 1; the driver prints the compiled value and the
   check compares it with this one on every run *)
Definition rp_seq_max : Z := 2 ^ 40 - 1.
Definition rp_two64 : Z := 2 ^ 64.

Record rp_variant := {
  rp_v_bitidx : bool;      (* bit k of the window stands for last_seq - k when testing, too *)
  rp_v_shguard : bool;     (* a jump of >= 64 clears the window instead of shifting by it *)
  rp_v_nooverwrite : bool; (* the call site does not assign last_seq before decryption *)
  rp_v_rbflag : bool;      (* rollback restores window and last_seq together *)
  rp_v_arm : bool          (* without B.1.2 the first authenticated request arms the window *)
}.
Definition rp_orig : rp_variant := Build_rp_variant false false false false false.
Definition rp_fixed : rp_variant := Build_rp_variant true true true true true.

(* oscore_recipient_ctx_t, the anti-replay part.  [rp_undef] is not a C field: it records
   that a shift by >= 64 bits (undefined behaviour in C) has been evaluated. *)
Record rp_state := {
  rp_last : Z;          (* last_seq *)
  rp_win : Z;           (* sliding_window, 0 <= . < 2^64 *)
  rp_rb_last : Z;       (* rollback_last_seq *)
  rp_rb_win : Z;        (* rollback_sliding_window *)
  rp_initial : bool;    (* initial_state *)
  rp_undef : bool
}.

(* oscore_add_recipient: memset 0, initial_state = 1 *)
Definition rp_init : rp_state := Build_rp_state 0 0 0 0 true false.

(* w << s on a uint64_t, s < 64 *)
Definition rp_shl64 (w s : Z) : Z := (Z.shiftl w s) mod rp_two64.

Definition rp_set_window (s : rp_state) (last win : Z) : rp_state :=
  Build_rp_state last win (rp_rb_last s) (rp_rb_win s) (rp_initial s) (rp_undef s).

(* oscore_validate_sender_seq: (return value, context afterwards) *)
Definition rp_validate (v : rp_variant) (W : Z) (s : rp_state) (seq : Z) : bool * rp_state :=
  if seq >=? rp_seq_max then (false, s)
  else
    (* ctx->rollback_last_seq = ctx->last_seq; ctx->rollback_sliding_window = ... *)
    let s1 := Build_rp_state (rp_last s) (rp_win s) (rp_last s) (rp_win s) (rp_initial s)
                             (rp_undef s) in
    if rp_initial s1 then
      (true, Build_rp_state seq 1 (rp_rb_last s1) (rp_rb_win s1) false (rp_undef s1))
    else if seq >? rp_last s1 then
      let shift := seq - rp_last s1 in
      if shift >=? 64 then
        if rp_v_shguard v then (true, rp_set_window s1 seq 1)
        else
          (* undefined in C; x86-64 shifts by the low six bits of the count *)
          (true, Build_rp_state seq (Z.lor (rp_shl64 (rp_win s1) (shift mod 64)) 1)
                                (rp_rb_last s1) (rp_rb_win s1) (rp_initial s1) true)
      else (true, rp_set_window s1 seq (Z.lor (rp_shl64 (rp_win s1) shift) 1))
    else if seq =? rp_last s1 then (false, s1)
    else
      let shift := if rp_v_bitidx v then rp_last s1 - seq else rp_last s1 - seq - 1 in
      if (shift >? W) || (shift >? 63) then (false, s1)
      else if Z.testbit (rp_win s1) shift then (false, s1)
      else (true, rp_set_window s1 (rp_last s1) (Z.lor (rp_win s1) (2 ^ shift))).

(* oscore_roll_back_seq *)
Definition rp_rollback (v : rp_variant) (s : rp_state) : rp_state :=
  if rp_v_rbflag v then
    if rp_rb_win s =? 0 then s
    else Build_rp_state (rp_rb_last s) (rp_rb_win s) 0 0 (rp_initial s) (rp_undef s)
  else
    let s1 := if rp_rb_win s =? 0 then s
              else Build_rp_state (rp_last s) (rp_rb_win s) (rp_rb_last s) 0 (rp_initial s)
                                  (rp_undef s) in
    if rp_rb_last s1 =? 0 then s1
    else Build_rp_state (rp_rb_last s1) (rp_win s1) 0 (rp_rb_win s1) (rp_initial s1)
                        (rp_undef s1).

(* what arrives: the sequence number in the Partial IV, whether the AEAD tag verifies under the
   recipient key, and (for a message that decrypts) what its inner Echo option looks like *)
Inductive rp_auth := Genuine | Forged.
Inductive rp_echo := EchoNone | EchoOk | EchoBad.
Record rp_msg := { rp_m_seq : Z; rp_m_auth : rp_auth; rp_m_echo : rp_echo }.

Inductive rp_verdict :=
| Accept        (* decrypted PDU returned: the request reaches the handler *)
| RejReplay     (* 4.01 "Replay detected" *)
| RejDecrypt    (* 4.00 "Decryption failed" *)
| RejChallenge  (* B.1.2: 4.01 with a fresh Echo value *)
| RejEchoBad.   (* B.1.2: Echo present but wrong: dropped *)

(* one request through coap_oscore_decrypt_pdu, in the order of the C *)
Definition rp_recv (v : rp_variant) (W : Z) (b12 : bool) (s : rp_state) (m : rp_msg)
  : rp_verdict * rp_state :=
  let seq := rp_m_seq m in
  (* 8.2 step 3: if (rcp_ctx->initial_state == 0 && !oscore_validate_sender_seq(...)) *)
  let '(ok, s1) := if rp_initial s then (true, s) else rp_validate v W s seq in
  if negb ok then (RejReplay, s1)
  else
    (* rcp_ctx->last_seq = incoming_seq; *)
    let s2 := if rp_v_nooverwrite v then s1
              else Build_rp_state seq (rp_win s1) (rp_rb_last s1) (rp_rb_win s1)
                                  (rp_initial s1) (rp_undef s1) in
    match rp_m_auth m with
    | Forged => (RejDecrypt, rp_rollback v s2)       (* 8.2 step 6 fails *)
    | Genuine =>
      if rp_initial s2 then
        if b12 then
          match rp_m_echo m with
          | EchoOk => let '(ok3, s3) := rp_validate v W s2 seq in
                      if ok3 then (Accept, s3) else (RejReplay, s3)
          | EchoBad => (RejEchoBad, s2)
          | EchoNone => (RejChallenge, s2)
          end
        else if rp_v_arm v then
          let '(ok3, s3) := rp_validate v W s2 seq in
          if ok3 then (Accept, s3) else (RejReplay, s3)
        else (Accept, s2)
      else (Accept, s2)
    end.

(* a history: verdict of every step and the final state *)
Fixpoint rp_run (v : rp_variant) (W : Z) (b12 : bool) (s : rp_state) (h : list rp_msg)
  : list rp_verdict * rp_state :=
  match h with
  | [] => ([], s)
  | m :: t => let '(r, s1) := rp_recv v W b12 s m in
              let '(rs, s2) := rp_run v W b12 s1 t in (r :: rs, s2)
  end.

Definition rp_is_accept (r : rp_verdict) : bool :=
  match r with Accept => true | _ => false end.

(* the sequence numbers that reached the handler, in order of arrival *)
Fixpoint rp_accepted (v : rp_variant) (W : Z) (b12 : bool) (s : rp_state) (h : list rp_msg)
  : list Z :=
  match h with
  | [] => []
  | m :: t => let '(r, s1) := rp_recv v W b12 s m in
              let rest := rp_accepted v W b12 s1 t in
              if rp_is_accept r then rp_m_seq m :: rest else rest
  end.

(* the part of the state that decides later verdicts ("replay window and sequence state") *)
Definition rp_obs (s : rp_state) : Z * Z * bool := (rp_last s, rp_win s, rp_initial s).

Definition rp_is_genuine (m : rp_msg) : bool :=
  match rp_m_auth m with Genuine => true | Forged => false end.

(* verdicts of the genuine messages only *)
Fixpoint rp_genuine_verdicts (h : list rp_msg) (rs : list rp_verdict) : list rp_verdict :=
  match h, rs with
  | m :: t, r :: rt => if rp_is_genuine m then r :: rp_genuine_verdicts t rt
                       else rp_genuine_verdicts t rt
  | _, _ => []
  end.

(* boolean oracle used on the implementation's output: no number accepted twice *)
Fixpoint rp_nodupb (l : list Z) : bool :=
  match l with
  | [] => true
  | x :: t => negb (existsb (Z.eqb x) t) && rp_nodupb t
  end.

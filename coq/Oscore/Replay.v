(* C15 - OSCORE anti-replay state of a recipient context.

   Transcribed from
     src/oscore/oscore.c          oscore_validate_sender_seq, oscore_roll_back_seq
     src/coap_oscore.c            coap_oscore_decrypt_pdu, request branch: RFC 8613 8.2 step 3
                                  (validation gated on initial_state), rollback on decryption
                                  failure, arming of the window by the first authenticated
                                  request, appendix B.1.2 Echo handling
     src/oscore/oscore_context.c  oscore_add_recipient (memset 0, initial_state = 1),
                                  oscore_derive_ctx (replay_window 0 -> default)

   The code as found violated the property in eight places.  Each repair is a flag of
   [rp_variant]: [rp_orig] (all flags off) is the code as found at /repo 74963ff, [rp_fixed]
   (all on) is the code after the eight "fix:" commits.  The tie (harness/h_replay.c) compares
   the C with [rp_fixed]; the [_refuted] theorems are about [rp_orig] and the variants with a
   single repair missing.

   Definitions only.  All global names carry the prefix rp_. *)
From Coq Require Import ZArith List Bool.
Import ListNotations.
Local Open Scope Z_scope.

(* OSCORE_SEQ_MAX = ((uint64_t)1 << 40) - 1 and COAP_OSCORE_DEFAULT_REPLAY_WINDOW = 32; the
   driver prints the compiled values and the check compares them with these on every run *)
Definition rp_seq_max : Z := 2 ^ 40 - 1.
Definition rp_default_window : Z := 32.
Definition rp_two64 : Z := 2 ^ 64.

(* osc_ctx->replay_window_size = conf->replay_window ? conf->replay_window : DEFAULT *)
Definition rp_cfg_window (w : Z) : Z := if w =? 0 then rp_default_window else w.

Record rp_variant := {
  rp_v_bitidx : bool;      (* bit k of the window stands for last_seq - k when testing, too;
                              a window of size W holds last_seq-W+1 .. last_seq *)
  rp_v_shguard : bool;     (* a jump of >= 64 clears the window instead of shifting by it *)
  rp_v_nooverwrite : bool; (* the call site does not assign last_seq before decryption *)
  rp_v_rbflag : bool;      (* rollback restores window and last_seq together *)
  rp_v_arm : bool;         (* without B.1.2 the first authenticated request arms the window *)
  rp_v_resp_rb : bool;     (* a response that fails decryption gets the window rolled back, too *)
  rp_v_resp_nowrite : bool; (* the response branch does not write last_seq before decryption (and
                              tests the received number, not the stored one, against SEQ_MAX) *)
  rp_v_abort_rb : bool     (* the window is rolled back at the common exit: whatever stops the
                              processing between the replay check and a successful decryption *)
}.
Definition rp_orig : rp_variant := Build_rp_variant false false false false false false false false.
Definition rp_fixed : rp_variant := Build_rp_variant true true true true true true true true.

(* oscore_recipient_ctx_t, the anti-replay part.  [rp_undef] is not a C field: it records
   that a shift by >= 64 bits (undefined behaviour in C) has been evaluated. *)
Record rp_state := {
  rp_last : Z;          (* last_seq *)
  rp_win : Z;           (* sliding_window, 0 <= . < 2^64 *)
  rp_rb_last : Z;       (* rollback_last_seq *)
  rp_rb_win : Z;        (* rollback_sliding_window *)
  rp_initial : bool;    (* initial_state *)
  rp_undef : bool
}.

(* oscore_add_recipient: memset 0, initial_state = 1 *)
Definition rp_init : rp_state := Build_rp_state 0 0 0 0 true false.

(* w << s on a uint64_t; the second component reports a shift count >= 64 (undefined in C;
   the value given then is what x86-64 computes: the count is taken modulo 64) *)
Definition rp_shl64 (w s : Z) : Z * bool :=
  if s <? 64 then ((Z.shiftl w s) mod rp_two64, false)
  else ((Z.shiftl w (s mod 64)) mod rp_two64, true).

Definition rp_set_window (s : rp_state) (last win : Z) (ub : bool) : rp_state :=
  Build_rp_state last win (rp_rb_last s) (rp_rb_win s) (rp_initial s) (rp_undef s || ub).

(* oscore_validate_sender_seq: (return value, context afterwards) *)
Definition rp_validate (v : rp_variant) (W : Z) (s : rp_state) (seq : Z) : bool * rp_state :=
  if seq >=? rp_seq_max then (false, s)
  else
    (* ctx->rollback_last_seq = ctx->last_seq; ctx->rollback_sliding_window = ... *)
    let s1 := Build_rp_state (rp_last s) (rp_win s) (rp_last s) (rp_win s) (rp_initial s)
                             (rp_undef s) in
    if rp_initial s1 then
      (true, Build_rp_state seq 1 (rp_rb_last s1) (rp_rb_win s1) false (rp_undef s1))
    else if seq >? rp_last s1 then
      let shift := seq - rp_last s1 in
      if rp_v_shguard v then
        (* shift < 64 ? window << shift : 0 *)
        let w := if shift <? 64 then fst (rp_shl64 (rp_win s1) shift) else 0 in
        (true, rp_set_window s1 seq (Z.lor w 1) false)
      else
        let '(w, ub) := rp_shl64 (rp_win s1) shift in
        (true, rp_set_window s1 seq (Z.lor w 1) ub)
    else if seq =? rp_last s1 then (false, s1)
    else
      let shift := if rp_v_bitidx v then rp_last s1 - seq else rp_last s1 - seq - 1 in
      let outside := if rp_v_bitidx v then shift >=? W else shift >? W in
      if outside || (shift >? 63) then (false, s1)
      else
        (* pattern = 1ULL << shift, shift <= 63 here *)
        let '(pat, ub) := rp_shl64 1 shift in
        if negb (Z.land (rp_win s1) pat =? 0) then (false, rp_set_window s1 (rp_last s1) (rp_win s1) ub)
        else (true, rp_set_window s1 (rp_last s1) (Z.lor (rp_win s1) pat) ub).

(* oscore_roll_back_seq *)
Definition rp_rollback (v : rp_variant) (s : rp_state) : rp_state :=
  if rp_v_rbflag v then
    if rp_rb_win s =? 0 then s
    else Build_rp_state (rp_rb_last s) (rp_rb_win s) 0 0 (rp_initial s) (rp_undef s)
  else
    let s1 := if rp_rb_win s =? 0 then s
              else Build_rp_state (rp_last s) (rp_rb_win s) (rp_rb_last s) 0 (rp_initial s)
                                  (rp_undef s) in
    if rp_rb_last s1 =? 0 then s1
    else Build_rp_state (rp_rb_last s1) (rp_win s1) 0 (rp_rb_win s1) (rp_initial s1)
                        (rp_undef s1).

(* what arrives: the sequence number in the Partial IV, whether the AEAD tag verifies under the
   recipient key, and (for a message that decrypts) what its inner Echo option looks like.
   [RpUnroutable]: the message never gets as far as RFC 8613 8.2 step 3 for this recipient
   context - the OSCORE option cannot be decoded or has no kid (4.02), or no security context
   matches kid / kid context (4.01 "Security context not found").
   [RpAbort]: the replay check is passed, but the processing stops before there is a decryption
   verdict - every exit of coap_oscore_decrypt_pdu between 8.2 step 3 and step 6 (no memory for
   the association or for the plaintext PDU; "no protected payload"). *)
Inductive rp_auth := RpGenuine | RpForged | RpUnroutable | RpAbort.
Inductive rp_echo := RpEchoNone | RpEchoOk | RpEchoBad.
(* a request, or a response that carries a Partial IV of its own (Observe notification, B.1.2
   challenge) for an outstanding request of this endpoint: it is checked against the same
   recipient context ([RpUnroutable] for a response: no association for its token) *)
Inductive rp_kind := RpRequest | RpResponse.
Record rp_msg := { rp_m_seq : Z; rp_m_auth : rp_auth; rp_m_echo : rp_echo; rp_m_kind : rp_kind }.

Inductive rp_verdict :=
| RpAccept        (* decrypted PDU returned: the request reaches the handler *)
| RpRejReplay     (* 4.01 "Replay detected" *)
| RpRejDecrypt    (* 4.00 "Decryption failed" *)
| RpRejChallenge  (* B.1.2: 4.01 with a fresh Echo value *)
| RpRejEchoBad    (* B.1.2: Echo present but wrong: dropped *)
| RpRejUnroutable  (* 4.02 / 4.01 before any recipient context is touched *)
| RpRejAbort       (* processing stopped between the replay check and decryption *)
| RpAcceptUnchecked. (* a response delivered while the context is in its initial state: nothing
                        was checked and nothing is recorded (a client that never serves requests
                        of the peer stays in that state) *)

(* the validation done after decryption while the context is in its initial state *)
Definition rp_arm (v : rp_variant) (W : Z) (s : rp_state) (seq : Z) : rp_verdict * rp_state :=
  let '(ok, s1) := rp_validate v W s seq in
  if ok then (RpAccept, s1) else (RpRejReplay, s1).

(* one request through coap_oscore_decrypt_pdu, in the order of the C *)
Definition rp_recv_req (v : rp_variant) (W : Z) (b12 : bool) (s : rp_state) (m : rp_msg)
  : rp_verdict * rp_state :=
  let seq := rp_m_seq m in
  match rp_m_auth m with
  | RpUnroutable => (RpRejUnroutable, s)      (* 8.2 step 2 fails *)
  | _ =>
  (* 8.2 step 3: if (rcp_ctx->initial_state == 0 && !oscore_validate_sender_seq(...)) *)
  let '(ok, s1) := if rp_initial s then (true, s) else rp_validate v W s seq in
  if negb ok then (RpRejReplay, s1)
  else
    (* as found: rcp_ctx->last_seq = incoming_seq; *)
    let s2 := if rp_v_nooverwrite v then s1
              else Build_rp_state seq (rp_win s1) (rp_rb_last s1) (rp_rb_win s1)
                                  (rp_initial s1) (rp_undef s1) in
    match rp_m_auth m with
    | RpUnroutable => (RpRejUnroutable, s)
    | RpAbort =>                                         (* goto error before step 6 *)
      (RpRejAbort, if rp_v_abort_rb v && negb (rp_initial s) then rp_rollback v s2 else s2)
    | RpForged => (RpRejDecrypt, rp_rollback v s2)       (* 8.2 step 6 fails *)
    | RpGenuine =>
      if rp_initial s2 then
        if b12 then
          match rp_m_echo m with
          | RpEchoOk => rp_arm v W s2 seq
          | RpEchoBad => (RpRejEchoBad, s2)
          | RpEchoNone => (RpRejChallenge, s2)
          end
        else if rp_v_arm v then rp_arm v W s2 seq
        else (RpAccept, s2)
      else (RpAccept, s2)
    end
  end.

(* one response with a Partial IV of its own through coap_oscore_decrypt_pdu (8.4) *)
Definition rp_recv_resp (v : rp_variant) (W : Z) (s : rp_state) (m : rp_msg)
  : rp_verdict * rp_state :=
  let seq := rp_m_seq m in
  match rp_m_auth m with
  | RpUnroutable => (RpRejUnroutable, s)      (* no association for the token *)
  | _ =>
  (* if (rcp_ctx->initial_state == 0 && !oscore_validate_sender_seq(...)) goto error *)
  let validated := negb (rp_initial s) in
  let '(ok, s1) := if rp_initial s then (true, s) else rp_validate v W s seq in
  if negb ok then (RpRejReplay, s1)
  else
    let '(toobig, s2) :=
      if rp_v_resp_nowrite v then (seq >=? rp_seq_max, s1)
      else
        (* as found: if (rcp_ctx->last_seq >= OSCORE_SEQ_MAX) goto error;
                     if (last_seq > rcp_ctx->last_seq) rcp_ctx->last_seq = last_seq; *)
        (rp_last s1 >=? rp_seq_max,
         if seq >? rp_last s1
         then Build_rp_state seq (rp_win s1) (rp_rb_last s1) (rp_rb_win s1) (rp_initial s1)
                             (rp_undef s1)
         else s1) in
    if toobig then (RpRejReplay, s1)
    else
      match rp_m_auth m with
      | RpUnroutable => (RpRejUnroutable, s)
      | RpAbort =>
        (RpRejAbort, if rp_v_abort_rb v && validated then rp_rollback v s2 else s2)
      | RpForged =>                               (* 8.4 step 5 fails *)
        (RpRejDecrypt, if rp_v_resp_rb v && validated then rp_rollback v s2 else s2)
      | RpGenuine => if rp_initial s2 then (RpAcceptUnchecked, s2) else (RpAccept, s2)
      end
  end.

Definition rp_recv (v : rp_variant) (W : Z) (b12 : bool) (s : rp_state) (m : rp_msg)
  : rp_verdict * rp_state :=
  match rp_m_kind m with
  | RpRequest => rp_recv_req v W b12 s m
  | RpResponse => rp_recv_resp v W s m
  end.

(* a history: verdict of every step and the final state *)
Fixpoint rp_run (v : rp_variant) (W : Z) (b12 : bool) (s : rp_state) (h : list rp_msg)
  : list rp_verdict * rp_state :=
  match h with
  | [] => ([], s)
  | m :: t => let '(r, s1) := rp_recv v W b12 s m in
              let '(rs, s2) := rp_run v W b12 s1 t in (r :: rs, s2)
  end.

Definition rp_is_accept (r : rp_verdict) : bool :=
  match r with RpAccept => true | _ => false end.

(* the sequence numbers that reached the handler, in order of arrival *)
Fixpoint rp_accepted_of (h : list rp_msg) (rs : list rp_verdict) : list Z :=
  match h, rs with
  | m :: t, r :: rt => if rp_is_accept r then rp_m_seq m :: rp_accepted_of t rt
                       else rp_accepted_of t rt
  | _, _ => []
  end.

Definition rp_accepted (v : rp_variant) (W : Z) (b12 : bool) (s : rp_state) (h : list rp_msg)
  : list Z := rp_accepted_of h (fst (rp_run v W b12 s h)).

(* the part of the state that decides later verdicts ("replay window and sequence state") *)
Definition rp_obs (s : rp_state) : Z * Z * bool := (rp_last s, rp_win s, rp_initial s).

Definition rp_is_genuine (m : rp_msg) : bool :=
  match rp_m_auth m with RpGenuine => true | RpForged | RpUnroutable | RpAbort => false end.

(* verdicts of the genuine messages only *)
Fixpoint rp_genuine_verdicts (h : list rp_msg) (rs : list rp_verdict) : list rp_verdict :=
  match h, rs with
  | m :: t, r :: rt => if rp_is_genuine m then r :: rp_genuine_verdicts t rt
                       else rp_genuine_verdicts t rt
  | _, _ => []
  end.

(* boolean oracle used on the implementation's output: no number accepted twice *)
Fixpoint rp_nodupb (l : list Z) : bool :=
  match l with
  | [] => true
  | x :: t => negb (existsb (Z.eqb x) t) && rp_nodupb t
  end.

(* ---------------------------------------------------------------------------------------
   The specification: RFC 8613 section 7.4 sliding window over the set of accepted numbers.
   [rp_a_seen] is the list of all sequence numbers accepted so far (newest first), [rp_a_hi]
   the highest of them.  A window of size W remembers hi-W+1 .. hi; the implementation keeps
   64 bits, so sizes above 64 behave like 64. *)
Record rp_abs := { rp_a_armed : bool; rp_a_hi : Z; rp_a_seen : list Z }.
Definition rp_abs_init : rp_abs := Build_rp_abs false 0 [].

Definition rp_weff (W : Z) : Z := Z.min W 64.

Definition rp_mem (x : Z) (l : list Z) : bool := existsb (Z.eqb x) l.

(* would this number pass the replay check now? *)
Definition rp_abs_fresh (W : Z) (a : rp_abs) (seq : Z) : bool :=
  (seq <? rp_seq_max) &&
  (if rp_a_armed a then
     (seq >? rp_a_hi a) || ((rp_a_hi a - seq <? rp_weff W) && negb (rp_mem seq (rp_a_seen a)))
   else true).

Definition rp_abs_accept (a : rp_abs) (seq : Z) : rp_abs :=
  Build_rp_abs true (if rp_a_armed a then Z.max (rp_a_hi a) seq else seq) (seq :: rp_a_seen a).

Definition rp_abs_recv_req (W : Z) (b12 : bool) (a : rp_abs) (m : rp_msg) : rp_verdict * rp_abs :=
  let seq := rp_m_seq m in
  match rp_m_auth m with
  | RpUnroutable => (RpRejUnroutable, a)
  | _ =>
  if rp_a_armed a then
    if negb (rp_abs_fresh W a seq) then (RpRejReplay, a)
    else match rp_m_auth m with
         | RpForged | RpUnroutable => (RpRejDecrypt, a)
         | RpAbort => (RpRejAbort, a)
         | RpGenuine => (RpAccept, rp_abs_accept a seq)
         end
  else
    match rp_m_auth m with
    | RpForged | RpUnroutable => (RpRejDecrypt, a)
    | RpAbort => (RpRejAbort, a)
    | RpGenuine =>
      let go := if rp_abs_fresh W a seq then (RpAccept, rp_abs_accept a seq) else (RpRejReplay, a) in
      if b12 then
        match rp_m_echo m with
        | RpEchoOk => go
        | RpEchoBad => (RpRejEchoBad, a)
        | RpEchoNone => (RpRejChallenge, a)
        end
      else go
    end
  end.

Definition rp_abs_recv_resp (W : Z) (a : rp_abs) (m : rp_msg) : rp_verdict * rp_abs :=
  let seq := rp_m_seq m in
  match rp_m_auth m with
  | RpUnroutable => (RpRejUnroutable, a)
  | RpForged => if negb (rp_abs_fresh W a seq) then (RpRejReplay, a) else (RpRejDecrypt, a)
  | RpAbort => if negb (rp_abs_fresh W a seq) then (RpRejReplay, a) else (RpRejAbort, a)
  | RpGenuine =>
    if negb (rp_abs_fresh W a seq) then (RpRejReplay, a)
    else if rp_a_armed a then (RpAccept, rp_abs_accept a seq)
    else (RpAcceptUnchecked, a)
  end.

Definition rp_abs_recv (W : Z) (b12 : bool) (a : rp_abs) (m : rp_msg) : rp_verdict * rp_abs :=
  match rp_m_kind m with
  | RpRequest => rp_abs_recv_req W b12 a m
  | RpResponse => rp_abs_recv_resp W a m
  end.

Fixpoint rp_abs_run (W : Z) (b12 : bool) (a : rp_abs) (h : list rp_msg)
  : list rp_verdict * rp_abs :=
  match h with
  | [] => ([], a)
  | m :: t => let '(r, a1) := rp_abs_recv W b12 a m in
              let '(rs, a2) := rp_abs_run W b12 a1 t in (r :: rs, a2)
  end.

(* ---------------------------------------------------------------------------------------
   The nonces under which the recipient's own Sender Key is used when it answers a request
   (RFC 8613 5.2: the nonce is made from the Partial IV and the id of the endpoint that
   generated it).  build_and_send_error_pdu / the normal response path choose between
   - the request's nonce (response without Partial IV): at most one response per request may be
     protected that way, and
   - a Partial IV of its own (taken from the sender sequence number, which then advances).
   As found: the response to an accepted request uses the request's nonce; the Appendix B.1.2
   "4.01 + Echo" challenge uses an own Partial IV (the same request can be challenged again);
   4.01 Replay / 4.00 / 4.02 errors are not protected at all. *)
Inductive rp_nonce := RpNonceReq (req_piv : Z) | RpNonceOwn (own_piv : Z).

(* Some true: own Partial IV; Some false: the request's nonce; None: nothing protected is sent *)
Definition rp_reply_own_piv (challenge_own : bool) (r : rp_verdict) : option bool :=
  match r with
  | RpAccept => Some false
  | RpRejChallenge => Some challenge_own
  | _ => None
  end.

(* nonces used for the replies to a history of requests, the sender sequence number starting at
   [c]; [challenge_own] = true is the code, false is the Echo challenge sent under the request's
   nonce *)
Fixpoint rp_reply_nonces (challenge_own : bool) (c : Z) (h : list rp_msg) (rs : list rp_verdict)
  : list rp_nonce :=
  match h, rs with
  | m :: t, r :: rt =>
    match rp_m_kind m, rp_reply_own_piv challenge_own r with
    | RpRequest, Some true => RpNonceOwn c :: rp_reply_nonces challenge_own (c + 1) t rt
    | RpRequest, Some false => RpNonceReq (rp_m_seq m) :: rp_reply_nonces challenge_own c t rt
    | _, _ => rp_reply_nonces challenge_own c t rt
    end
  | _, _ => []
  end.

(* Proofs about the Gallina AES-CCM of Oscore/Ccm.v: decryption inverts encryption (this needs
   only the involution of xor and the CTR/CBC-MAC structure, not the invertibility of AES), the
   tag is compared (a changed tag is rejected), the key stream always covers the message. *)
From LibcoapV Require Import Base.Tactics Base.Bytes Base.BytesProofs Oscore.Aes128 Oscore.Ccm.
Local Open Scope Z_scope.

(* ---- xor ---- *)
Lemma osc_xor_length a : forall b, length (osc_xor a b) = length a.
Proof.
  induction a as [|x a IH]; intros b; cbn [osc_xor length]; [reflexivity|].
  destruct b; cbn [length]; rewrite IH; reflexivity.
Qed.

Lemma osc_xor_len a b : len (osc_xor a b) = len a.
Proof. unfold len. rewrite osc_xor_length. reflexivity. Qed.

Lemma osc_xor_nil_r a : osc_xor a [] = a.
Proof. induction a as [|x a IH]; cbn [osc_xor]; [reflexivity|]. rewrite IH. reflexivity. Qed.

Lemma osc_xor_involutive a : forall b, osc_xor (osc_xor a b) b = a.
Proof.
  induction a as [|x a IH]; intros b; cbn [osc_xor]; [reflexivity|].
  destruct b as [|y b]; cbn [osc_xor].
  - rewrite !osc_xor_nil_r. reflexivity.
  - rewrite IH. f_equal. rewrite Z.lxor_assoc, Z.lxor_nilpotent, Z.lxor_0_r. reflexivity.
Qed.

(* for a fixed pad, xor is injective on strings of equal length *)
Lemma osc_xor_inj a b c : osc_xor a c = osc_xor b c -> a = b.
Proof.
  intros H. rewrite <- (osc_xor_involutive a c), <- (osc_xor_involutive b c), H. reflexivity.
Qed.

(* ---- byte string equality ---- *)
Lemma osc_bytes_eqb_refl a : osc_bytes_eqb a a = true.
Proof. induction a as [|x a IH]; cbn [osc_bytes_eqb]; [reflexivity|]. rewrite IH, Z.eqb_refl. reflexivity. Qed.

Lemma osc_bytes_eqb_eq a : forall b, osc_bytes_eqb a b = true -> a = b.
Proof.
  induction a as [|x a IH]; intros [|y b] H; cbn [osc_bytes_eqb] in H; try discriminate; [reflexivity|].
  apply andb_true_iff in H. destruct H as [H1 H2]. apply Z.eqb_eq in H1. subst.
  f_equal. apply IH. exact H2.
Qed.

Lemma osc_bytes_eqb_neq a b : a <> b -> osc_bytes_eqb a b = false.
Proof.
  intros H. destruct (osc_bytes_eqb a b) eqn:E; [|reflexivity].
  exfalso. apply H. apply osc_bytes_eqb_eq. exact E.
Qed.

(* ---- tag ---- *)
Lemma osc_ccm_tag_length t s0 : length (osc_ccm_tag t s0) = 8%nat.
Proof. unfold osc_ccm_tag. rewrite map_length, seq_length. reflexivity. Qed.

Lemma osc_ccm_tag_len t s0 : len (osc_ccm_tag t s0) = 8.
Proof. unfold len. rewrite osc_ccm_tag_length. reflexivity. Qed.

(* ---- the main theorem, for any key schedule ---- *)
Theorem osc_ccm_dec_enc_rk rks nonce aad msg :
  osc_ccm_dec_rk rks nonce aad (osc_ccm_enc_rk rks nonce aad msg) = Some msg.
Proof.
  unfold osc_ccm_dec_rk, osc_ccm_enc_rk, OSC_TAG_LEN.
  set (t := osc_ccm_mac rks nonce aad msg).
  set (s0 := osc_ccm_ctr rks nonce 0).
  set (ks := osc_ccm_stream rks nonce (len msg)).
  rewrite len_app, osc_ccm_tag_len, osc_xor_len.
  pose proof (len_nonneg msg) as Hm.
  replace (len msg + 8 <? 8) with false by lia.
  replace (len msg + 8 - 8) with (len (osc_xor msg ks)) by (rewrite osc_xor_len; lia).
  rewrite take_app_exact, drop_app_exact, osc_xor_len.
  fold ks. rewrite osc_xor_involutive. fold t. fold s0.
  rewrite osc_bytes_eqb_refl. reflexivity.
Qed.

Theorem osc_ccm_dec_enc key nonce aad msg :
  osc_ccm_dec key nonce aad (osc_ccm_enc key nonce aad msg) = Some msg.
Proof. unfold osc_ccm_dec, osc_ccm_enc. apply osc_ccm_dec_enc_rk. Qed.

Lemma osc_ccm_enc_len key nonce aad msg : len (osc_ccm_enc key nonce aad msg) = len msg + 8.
Proof.
  unfold osc_ccm_enc, osc_ccm_enc_rk. rewrite len_app, osc_ccm_tag_len, osc_xor_len. reflexivity.
Qed.

(* anything shorter than a tag is rejected *)
Lemma osc_ccm_dec_short key nonce aad c : len c < 8 -> osc_ccm_dec key nonce aad c = None.
Proof.
  intros H. unfold osc_ccm_dec, osc_ccm_dec_rk, OSC_TAG_LEN. replace (len c <? 8) with true by lia.
  reflexivity.
Qed.

Lemma osc_app_inj_len {A} (a c b d : list A) :
  a ++ b = c ++ d -> length b = length d -> a = c /\ b = d.
Proof.
  intros H Hl.
  assert (Hac : len a = len c).
  { apply (f_equal (@length A)) in H. rewrite !app_length in H. unfold len. lia. }
  split.
  - rewrite <- (take_app_exact a b), H, Hac. apply take_app_exact.
  - rewrite <- (drop_app_exact a b), H, Hac. apply drop_app_exact.
Qed.

(* the tag is compared: the genuine ciphertext body with any other 8-byte tag is rejected
   (no hypothesis) *)
Theorem osc_ccm_wrong_tag_rejected key nonce aad msg ct tag tag' :
  osc_ccm_enc key nonce aad msg = ct ++ tag -> len tag = 8 -> len tag' = 8 -> tag' <> tag ->
  osc_ccm_dec key nonce aad (ct ++ tag') = None.
Proof.
  intros He Hl Hl' Hne.
  unfold osc_ccm_dec, osc_ccm_enc, osc_ccm_dec_rk, osc_ccm_enc_rk, OSC_TAG_LEN in *.
  set (rks := osc_key_schedule key) in *.
  set (t := osc_ccm_mac rks nonce aad msg) in *.
  set (s0 := osc_ccm_ctr rks nonce 0) in *.
  set (ks := osc_ccm_stream rks nonce (len msg)) in *.
  apply osc_app_inj_len in He.
  2:{ rewrite osc_ccm_tag_length. unfold len in Hl. lia. }
  destruct He as [Hct Htag]. subst ct tag.
  rewrite len_app, Hl', osc_xor_len.
  pose proof (len_nonneg msg) as Hm.
  replace (len msg + 8 <? 8) with false by lia.
  replace (len msg + 8 - 8) with (len (osc_xor msg ks)) by (rewrite osc_xor_len; lia).
  rewrite take_app_exact, drop_app_exact, osc_xor_len. fold ks.
  rewrite osc_xor_involutive. fold t. fold s0.
  rewrite osc_bytes_eqb_neq; [reflexivity|]. intros E. apply Hne. symmetry. exact E.
Qed.

(* whatever is accepted re-encrypts to the received bytes: acceptance means the received string
   IS the encryption of the returned plaintext (no hypothesis; used by the tamper theorems) *)
Theorem osc_ccm_dec_sound key nonce aad c msg :
  osc_ccm_dec key nonce aad c = Some msg -> c = osc_ccm_enc key nonce aad msg.
Proof.
  unfold osc_ccm_dec, osc_ccm_enc, osc_ccm_dec_rk, osc_ccm_enc_rk, OSC_TAG_LEN.
  set (rks := osc_key_schedule key).
  destruct (len c <? 8) eqn:E; [discriminate|].
  set (n := len c - 8).
  set (ct := take n c). set (u := drop n c).
  set (m' := osc_xor ct (osc_ccm_stream rks nonce (len ct))).
  destruct (osc_bytes_eqb _ u) eqn:Et; [|discriminate].
  intros H. inversion H; subst msg. clear H.
  apply osc_bytes_eqb_eq in Et. rewrite Et.
  unfold m'. rewrite osc_xor_len, osc_xor_involutive.
  unfold ct, u. rewrite take_drop. reflexivity.
Qed.

(* ---- the key stream covers the message (the zero-extension of osc_xor is never used for the
   CTR part) ---- *)
Lemma osc_shift_rows_length s : length (osc_shift_rows s) = 16%nat.
Proof. unfold osc_shift_rows. rewrite map_length. reflexivity. Qed.

Lemma osc_rounds_length rks : forall s, rks <> [] -> length (osc_rounds s rks) = 16%nat.
Proof.
  induction rks as [|rk tl IH]; intros s Hne; [congruence|].
  destruct tl as [|rk2 tl].
  - cbn [osc_rounds]. rewrite osc_xor_length. apply osc_shift_rows_length.
  - change (osc_rounds s (rk :: rk2 :: tl)) with
      (osc_rounds (osc_xor (osc_mix_columns (osc_shift_rows (osc_sub_bytes s))) rk) (rk2 :: tl)).
    apply IH. discriminate.
Qed.

Lemma osc_aes_rk_length rks blk :
  (2 <= length rks)%nat -> length (osc_aes_rk rks blk) = 16%nat.
Proof.
  destruct rks as [|rk0 tl]; cbn [length]; [lia|]. intros H.
  cbn [osc_aes_rk]. apply osc_rounds_length. destruct tl; cbn [length] in H; [lia|discriminate].
Qed.

Lemma osc_key_schedule_length key : length (osc_key_schedule key) = 11%nat.
Proof. reflexivity. Qed.

Lemma osc_flat_map_const_length {A} (f : A -> bytes) k l :
  (forall x, length (f x) = k) -> length (flat_map f l) = (k * length l)%nat.
Proof.
  intros H. induction l as [|x l IH]; cbn [flat_map length]; [lia|].
  rewrite app_length, H, IH. lia.
Qed.

Theorem osc_ccm_stream_covers key nonce n :
  0 <= n -> n <= len (osc_ccm_stream (osc_key_schedule key) nonce n).
Proof.
  intros Hn. unfold osc_ccm_stream, len.
  rewrite (osc_flat_map_const_length _ 16%nat).
  - rewrite seq_length. rewrite Nat2Z.inj_mul, Z2Nat.id by lia. lia.
  - intros i. apply osc_aes_rk_length. rewrite osc_key_schedule_length. lia.
Qed.

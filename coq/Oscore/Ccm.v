(* AES-CCM (RFC 3610) with the parameters of COSE algorithm 10, AES-CCM-16-64-128:
   L = 2 (16-bit length field, 13-byte nonce), M = 8 (64-bit tag), 128-bit key.
   Written from RFC 3610 section 2; checked against RFC 3610 packet vectors #1-#3 and the
   RFC 8613 appendix C ciphertexts in Oscore/Vectors.v. *)
From Coq Require Import ZArith List Bool.
From LibcoapV Require Import Base.Bytes Oscore.Aes128.
Import ListNotations.
Local Open Scope Z_scope.

Definition OSC_TAG_LEN : Z := 8.

(* cut into 16-byte blocks (the last one may be shorter); structural, no fuel *)
Fixpoint osc_chunks_aux (room : nat) (cur : bytes) (l : bytes) : list bytes :=
  match l with
  | [] => match cur with [] => [] | _ => [rev cur] end
  | x :: tl =>
      match room with
      | O | S O => rev (x :: cur) :: osc_chunks_aux 16 [] tl
      | S r => osc_chunks_aux r (x :: cur) tl
      end
  end.
Definition osc_chunks (l : bytes) : list bytes := osc_chunks_aux 16 [] l.

(* CBC-MAC continuation: X := E(K, X xor B) for each block B (a short last block is
   zero-padded: osc_xor zero-extends its second argument) *)
Definition osc_cbc (rks : list bytes) (x : bytes) (data : bytes) : bytes :=
  fold_left (fun x c => osc_aes_rk rks (osc_xor x c)) (osc_chunks data) x.

(* RFC 3610 2.2: first block B_0 = flags || nonce || l(m);  flags = 64*Adata + 8*((M-2)/2) + (L-1) *)
Definition osc_ccm_b0 (nonce : bytes) (alen mlen : Z) : bytes :=
  ((if alen =? 0 then 0 else 64) + 8 * 3 + 1) :: nonce ++ be16 mlen.

(* encoding of l(a) in front of the additional data *)
Definition osc_ccm_aad_enc (a : bytes) : bytes :=
  let l := len a in
  if l =? 0 then []
  else if l <? 65280 then be16 l ++ a
  else [255; 254] ++ be32 l ++ a.

(* authentication value T (16 bytes; the first M are used) *)
Definition osc_ccm_mac (rks : list bytes) (nonce aad msg : bytes) : bytes :=
  let x1 := osc_aes_rk rks (osc_ccm_b0 nonce (len aad) (len msg)) in
  osc_cbc rks (osc_cbc rks x1 (osc_ccm_aad_enc aad)) msg.

(* RFC 3610 2.3: A_i = flags(L-1) || nonce || counter i ; S_i = E(K, A_i) *)
Definition osc_ccm_ctr (rks : list bytes) (nonce : bytes) (i : Z) : bytes :=
  osc_aes_rk rks (1 :: nonce ++ be16 i).

(* S_1 || S_2 || ... covering [n] bytes *)
Definition osc_ccm_stream (rks : list bytes) (nonce : bytes) (n : Z) : bytes :=
  flat_map (fun i => osc_ccm_ctr rks nonce (Z.of_nat i)) (seq 1 (Z.to_nat ((n + 15) / 16))).

(* U = first M bytes of (T xor S_0); always exactly 8 values *)
Definition osc_ccm_tag (t s0 : bytes) : bytes :=
  map (fun i => Z.lxor (nth i t 0) (nth i s0 0)) (seq 0 8).

Fixpoint osc_bytes_eqb (a b : bytes) : bool :=
  match a, b with
  | [], [] => true
  | x :: a', y :: b' => (x =? y) && osc_bytes_eqb a' b'
  | _, _ => false
  end.

Definition osc_ccm_enc_rk (rks : list bytes) (nonce aad msg : bytes) : bytes :=
  let t := osc_ccm_mac rks nonce aad msg in
  osc_xor msg (osc_ccm_stream rks nonce (len msg))
  ++ osc_ccm_tag t (osc_ccm_ctr rks nonce 0).

Definition osc_ccm_dec_rk (rks : list bytes) (nonce aad c : bytes) : option bytes :=
  if len c <? OSC_TAG_LEN then None else
  let n := len c - OSC_TAG_LEN in
  let ct := take n c in
  let u := drop n c in
  let msg := osc_xor ct (osc_ccm_stream rks nonce (len ct)) in
  let t := osc_ccm_mac rks nonce aad msg in
  if osc_bytes_eqb (osc_ccm_tag t (osc_ccm_ctr rks nonce 0)) u then Some msg else None.

Definition osc_ccm_enc (key nonce aad msg : bytes) : bytes :=
  osc_ccm_enc_rk (osc_key_schedule key) nonce aad msg.
Definition osc_ccm_dec (key nonce aad c : bytes) : option bytes :=
  osc_ccm_dec_rk (osc_key_schedule key) nonce aad c.

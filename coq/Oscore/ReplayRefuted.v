(* C15 - the code as found ([rp_orig], /repo 74963ff) does not have the property, and each of
   the five repairs is needed: witnesses, checked by computation.  The histories are replayed
   on the real code by tools/checks/c15.py (corpus/C15/found.case). *)
From LibcoapV Require Import Base.Tactics Oscore.Replay.
Local Open Scope Z_scope.

Lemma rp_nodupb_spec : forall l, rp_nodupb l = true <-> NoDup l.
Proof.
  induction l as [|x t IH]; cbn [rp_nodupb].
  - split; [constructor | reflexivity].
  - rewrite andb_true_iff, negb_true_iff, IH. split.
    + intros [Hx Ht]. constructor; [|exact Ht].
      intro Hin. assert (existsb (Z.eqb x) t = true).
      { apply existsb_exists. exists x. split; [exact Hin | apply Z.eqb_refl]. }
      congruence.
    + intros H. inversion H as [|? ? Hn Hnd]; subst. split; [|exact Hnd].
      destruct (existsb (Z.eqb x) t) eqn:E; [|reflexivity].
      apply existsb_exists in E. destruct E as [y [Hy Exy]]. apply Z.eqb_eq in Exy. subst y.
      contradiction.
Qed.

Lemma rp_dup_by_computation : forall l, rp_nodupb l = false -> ~ NoDup l.
Proof. intros l H Hn. apply rp_nodupb_spec in Hn. congruence. Qed.

(* message shorthands *)
Definition rp_g (n : Z) : rp_msg := Build_rp_msg n RpGenuine RpEchoNone RpRequest. (* genuine *)
Definition rp_ge (n : Z) : rp_msg := Build_rp_msg n RpGenuine RpEchoOk RpRequest.  (* genuine, valid Echo *)
Definition rp_f (n : Z) : rp_msg := Build_rp_msg n RpForged RpEchoNone RpRequest.  (* forged, claims PIV n *)
(* responses carrying a Partial IV (notifications): genuine / forged *)
Definition rp_n (n : Z) : rp_msg := Build_rp_msg n RpGenuine RpEchoNone RpResponse.
Definition rp_nf (n : Z) : rp_msg := Build_rp_msg n RpForged RpEchoNone RpResponse.
(* a request whose processing stops between the replay check and decryption *)
Definition rp_ab (n : Z) : rp_msg := Build_rp_msg n RpAbort RpEchoNone RpRequest.

(* the variants with exactly one repair missing *)
Definition rp_no_bitidx : rp_variant := Build_rp_variant false true true true true true true true.
Definition rp_no_shguard : rp_variant := Build_rp_variant true false true true true true true true.
Definition rp_no_nooverwrite : rp_variant := Build_rp_variant true true false true true true true true.
Definition rp_no_rbflag : rp_variant := Build_rp_variant true true true false true true true true.
Definition rp_no_arm : rp_variant := Build_rp_variant true true true true false true true true.
Definition rp_no_resp_rb : rp_variant := Build_rp_variant true true true true true false true true.
Definition rp_no_resp_nowrite : rp_variant := Build_rp_variant true true true true true true false true.
Definition rp_no_abort_rb : rp_variant := Build_rp_variant true true true true true true true false.

(* ---- the code as found ---- *)

(* B.1.2 enabled (the default of a parsed configuration): 5 (with Echo, arms the window), 7,
   then the replay of 5 is accepted *)
Theorem rp_orig_replay_accepted_refuted :
  exists h, ~ NoDup (rp_accepted rp_orig 32 true rp_init h).
Proof. exists [rp_ge 5; rp_g 7; rp_g 5]. apply rp_dup_by_computation. vm_compute. reflexivity. Qed.

(* B.1.2 disabled: the window is never armed, every replay is accepted *)
Theorem rp_orig_never_armed_refuted :
  exists h, ~ NoDup (rp_accepted rp_orig 32 false rp_init h).
Proof. exists [rp_g 5; rp_g 5]. apply rp_dup_by_computation. vm_compute. reflexivity. Qed.

(* an older in-window number lowers last_seq: 10, 8, replay of 10 accepted *)
Theorem rp_orig_last_seq_lowered_refuted :
  exists h, ~ NoDup (rp_accepted rp_orig 32 true rp_init h).
Proof. exists [rp_ge 10; rp_g 8; rp_g 10]. apply rp_dup_by_computation. vm_compute. reflexivity. Qed.

(* a forged message while the highest number seen is 0 moves the window for good; the genuine
   message 1 that follows is rejected *)
Theorem rp_orig_forgery_leaves_trace_refuted :
  exists h m g,
    let s := snd (rp_run rp_orig 32 true rp_init h) in
    rp_m_auth m = RpForged /\ rp_m_auth g = RpGenuine /\
    fst (rp_recv rp_orig 32 true s g) = RpAccept /\
    rp_obs (snd (rp_recv rp_orig 32 true s m)) <> rp_obs s /\
    fst (rp_recv rp_orig 32 true (snd (rp_recv rp_orig 32 true s m)) g) = RpRejReplay.
Proof.
  exists [rp_ge 0], (rp_f 50), (rp_g 1). vm_compute.
  repeat split; try reflexivity. intro H; discriminate H.
Qed.

(* a jump of 64 or more shifts a 64-bit word by at least its width *)
Theorem rp_orig_shift_by_width_refuted :
  exists h, rp_undef (snd (rp_run rp_orig 32 true rp_init h)) = true.
Proof. exists [rp_ge 1; rp_g 100]. vm_compute. reflexivity. Qed.

(* ---- each repair is necessary (all others applied) ---- *)

(* window bit: 5, 7, replay of 5 accepted; the never-seen 6 is rejected *)
Theorem rp_no_bitidx_refuted :
  exists h, ~ NoDup (rp_accepted rp_no_bitidx 32 false rp_init h) /\
            fst (rp_run rp_no_bitidx 32 false rp_init (h ++ [rp_g 6])) =
              [RpAccept; RpAccept; RpAccept; RpRejReplay].
Proof.
  exists [rp_g 5; rp_g 7; rp_g 5]. split.
  - apply rp_dup_by_computation. vm_compute. reflexivity.
  - vm_compute. reflexivity.
Qed.

(* shift guard: undefined shift; with the x86-64 result (count mod 64) the stale bits make the
   never-seen 65 look replayed after 1, 2, 66 *)
Theorem rp_no_shguard_refuted :
  exists h, rp_undef (snd (rp_run rp_no_shguard 32 false rp_init h)) = true /\
            fst (rp_run rp_no_shguard 32 false rp_init h) = [RpAccept; RpAccept; RpAccept; RpRejReplay].
Proof. exists [rp_g 1; rp_g 2; rp_g 66; rp_g 65]. vm_compute. split; reflexivity. Qed.

Theorem rp_no_nooverwrite_refuted :
  exists h, ~ NoDup (rp_accepted rp_no_nooverwrite 32 false rp_init h).
Proof. exists [rp_g 10; rp_g 8; rp_g 10]. apply rp_dup_by_computation. vm_compute. reflexivity. Qed.

Theorem rp_no_rbflag_refuted :
  exists h,
    rp_genuine_verdicts h (fst (rp_run rp_no_rbflag 32 false rp_init h)) <>
    fst (rp_run rp_no_rbflag 32 false rp_init (filter rp_is_genuine h)).
Proof. exists [rp_g 0; rp_f 50; rp_g 1]. vm_compute. intro H; discriminate H. Qed.

Theorem rp_no_arm_refuted :
  exists h, ~ NoDup (rp_accepted rp_no_arm 32 false rp_init h).
Proof. exists [rp_g 5; rp_g 5]. apply rp_dup_by_computation. vm_compute. reflexivity. Qed.

(* an endpoint that also serves the peer's requests: a forged response (right token, any
   claimed Partial IV) marks that number as seen; the peer's genuine request 9 is then rejected *)
Theorem rp_no_resp_rb_refuted :
  exists h,
    rp_genuine_verdicts h (fst (rp_run rp_no_resp_rb 32 false rp_init h)) <>
    fst (rp_run rp_no_resp_rb 32 false rp_init (filter rp_is_genuine h)).
Proof. exists [rp_g 5; rp_nf 9; rp_g 9]. vm_compute. intro H; discriminate H. Qed.

(* a plain client (context in its initial state): one forged response claiming the Partial IV
   2^40-1 leaves that number in last_seq, and every later genuine notification is dropped *)
Theorem rp_no_resp_nowrite_refuted :
  exists h,
    rp_genuine_verdicts h (fst (rp_run rp_no_resp_nowrite 32 true rp_init h)) <>
    fst (rp_run rp_no_resp_nowrite 32 true rp_init (filter rp_is_genuine h)).
Proof. exists [rp_nf (2 ^ 40 - 1); rp_n 7]. vm_compute. intro H; discriminate H. Qed.

(* an exit between the replay check and decryption (as found: only reachable when memory runs
   out) keeps the claimed number in the window: the genuine request 50 is rejected afterwards *)
Theorem rp_no_abort_rb_refuted :
  exists h,
    rp_genuine_verdicts h (fst (rp_run rp_no_abort_rb 32 false rp_init h)) <>
    fst (rp_run rp_no_abort_rb 32 false rp_init (filter rp_is_genuine h)).
Proof. exists [rp_g 5; rp_ab 50; rp_g 50]. vm_compute. intro H; discriminate H. Qed.

(* the same two for the code as found *)
Theorem rp_orig_forged_response_refuted :
  exists h1 h2,
    rp_genuine_verdicts h1 (fst (rp_run rp_orig 32 true rp_init h1)) <>
      fst (rp_run rp_orig 32 true rp_init (filter rp_is_genuine h1)) /\
    rp_genuine_verdicts h2 (fst (rp_run rp_orig 32 true rp_init h2)) <>
      fst (rp_run rp_orig 32 true rp_init (filter rp_is_genuine h2)).
Proof.
  exists [rp_ge 5; rp_nf 9; rp_g 9], [rp_nf (2 ^ 40 - 1); rp_n 7]. vm_compute.
  split; intro H; discriminate H.
Qed.

(* ---- the same histories on the repaired code (non-vacuity of the positive theorems) ---- *)

Example rp_fixed_example :
  fst (rp_run rp_fixed 32 false rp_init
         [rp_g 5; rp_g 7; rp_g 5; rp_g 6; rp_g 6; rp_f 9; rp_g 8; rp_g 100; rp_g 37; rp_g 36]) =
  [RpAccept; RpAccept; RpRejReplay; RpAccept; RpRejReplay; RpRejDecrypt; RpAccept; RpAccept; RpRejReplay; RpRejReplay].
Proof. vm_compute. reflexivity. Qed.

Example rp_fixed_example_b12 :
  fst (rp_run rp_fixed 4 true rp_init
         [rp_g 3; rp_f 4; rp_ge 5; rp_ge 5; rp_g 3; rp_g 2; rp_g 1; rp_g 0; rp_g 70; rp_g 69]) =
  [RpRejChallenge; RpRejDecrypt; RpAccept; RpRejReplay; RpAccept; RpAccept; RpRejReplay; RpRejReplay; RpAccept;
   RpAccept].
Proof. vm_compute. reflexivity. Qed.

(* were the Echo challenge protected with the request's nonce, the same first request arriving
   twice would make the server use one nonce for two different messages *)
Theorem rp_challenge_request_nonce_refuted :
  exists h, ~ NoDup (rp_reply_nonces false 0 h (fst (rp_run rp_fixed 32 true rp_init h))).
Proof.
  exists [rp_g 5; rp_g 5]. vm_compute. intro H. inversion H as [|? ? Hn _]. apply Hn. left. reflexivity.
Qed.

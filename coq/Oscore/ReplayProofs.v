(* C15 - proofs about the recipient model of Oscore/Replay.v.

   Main result: the repaired code ([rp_fixed]) refines the RFC 8613 7.4 sliding-window
   specification [rp_abs_recv] for every history, window size and B.1.2 setting
   ([rp_run_refines]).  At-most-once acceptance, "a forgery leaves no trace", "genuine messages
   are accepted exactly as without the forgeries" and "no shift by >= 64" follow. *)
From LibcoapV Require Import Base.Tactics Oscore.Replay.
Local Open Scope Z_scope.

(* ------------------------------------------------------------------ bit-level facts *)

Lemma rp_two64_eq : rp_two64 = 2 ^ 64.
Proof. reflexivity. Qed.

Lemma rp_land_pow2 : forall a n, 0 <= n ->
  (Z.land a (2 ^ n) =? 0) = negb (Z.testbit a n).
Proof.
  intros a n Hn.
  destruct (Z.testbit a n) eqn:E; cbn [negb].
  - apply Z.eqb_neq. intro H0.
    assert (Hb : Z.testbit (Z.land a (2 ^ n)) n = true).
    { rewrite Z.land_spec, E, Z.pow2_bits_true by lia. reflexivity. }
    rewrite H0, Z.bits_0 in Hb. discriminate.
  - apply Z.eqb_eq. apply Z.bits_inj'. intros m Hm.
    rewrite Z.land_spec, Z.bits_0.
    destruct (Z.eq_dec n m) as [->|Hne].
    + rewrite E. reflexivity.
    + rewrite Z.pow2_bits_false by lia. apply andb_false_r.
Qed.

Lemma rp_shl64_small : forall w s, s < 64 -> rp_shl64 w s = ((Z.shiftl w s) mod 2 ^ 64, false).
Proof.
  intros w s H. unfold rp_shl64. destruct (s <? 64) eqn:E; [reflexivity | lia].
Qed.

Lemma rp_shl_bits : forall w s k, 0 <= s -> 0 <= k < 64 ->
  Z.testbit ((Z.shiftl w s) mod 2 ^ 64) k = if k <? s then false else Z.testbit w (k - s).
Proof.
  intros w s k Hs Hk.
  rewrite Z.mod_pow2_bits_low by lia.
  rewrite Z.shiftl_spec by lia.
  destruct (k <? s) eqn:E.
  - apply Z.testbit_neg_r. lia.
  - reflexivity.
Qed.

Lemma rp_one_bits : forall k, 0 <= k -> Z.testbit 1 k = (k =? 0).
Proof.
  intros k Hk. change 1 with (2 ^ 0). rewrite Z.pow2_bits_eqb by lia.
  rewrite Z.eqb_sym. reflexivity.
Qed.

Lemma rp_mem_In : forall x l, rp_mem x l = true <-> In x l.
Proof.
  intros x l. unfold rp_mem. rewrite existsb_exists. split.
  - intros [y [Hy E]]. apply Z.eqb_eq in E. subst. exact Hy.
  - intros H. exists x. split; [exact H | apply Z.eqb_refl].
Qed.

Lemma rp_mem_false : forall x l, rp_mem x l = false <-> ~ In x l.
Proof.
  intros x l. rewrite <- rp_mem_In. destruct (rp_mem x l); split; congruence.
Qed.

Lemma rp_mem_cons : forall x y l, rp_mem x (y :: l) = (x =? y) || rp_mem x l.
Proof. reflexivity. Qed.

(* ------------------------------------------------------------------ the refinement relation *)

(* what a reachable concrete state has to do with the set of accepted numbers *)
Definition rp_R (s : rp_state) (a : rp_abs) : Prop :=
  rp_undef s = false /\ rp_initial s = negb (rp_a_armed a) /\
  if rp_a_armed a then
    rp_last s = rp_a_hi a /\ Z.testbit (rp_win s) 0 = true /\
    (forall k, 0 <= k < 64 -> Z.testbit (rp_win s) k = rp_mem (rp_last s - k) (rp_a_seen a)) /\
    (forall x, In x (rp_a_seen a) -> x <= rp_a_hi a)
  else rp_rb_win s = 0 /\ rp_a_seen a = [].

Lemma rp_R_init : rp_R rp_init rp_abs_init.
Proof. unfold rp_R, rp_init, rp_abs_init; cbn. repeat split. Qed.

Lemma rp_win_nonzero : forall w, Z.testbit w 0 = true -> w <> 0.
Proof. intros w H E. subst. rewrite Z.bits_0 in H. discriminate. Qed.

(* the first validation of a context: arms the window *)
Lemma rp_validate_unarmed : forall W s a seq,
  rp_R s a -> rp_a_armed a = false ->
  let '(ok, s1) := rp_validate rp_fixed W s seq in
  ok = rp_abs_fresh W a seq /\
  (ok = true -> rp_R s1 (rp_abs_accept a seq)) /\
  (ok = false -> s1 = s).
Proof.
  intros W s a seq (Hu & Hi & Hrest) Ha. rewrite Ha in *. cbn [negb] in Hi.
  destruct Hrest as [Hrb Hseen].
  unfold rp_validate, rp_abs_fresh. rewrite Ha.
  destruct (seq >=? rp_seq_max) eqn:E.
  - assert (seq <? rp_seq_max = false) as -> by lia. cbn. repeat split; congruence.
  - assert (seq <? rp_seq_max = true) as -> by lia. cbn [rp_initial]. rewrite Hi.
    cbn [andb]. split; [reflexivity|]. split; [|discriminate]. intros _.
    unfold rp_R, rp_abs_accept. rewrite Ha. cbn. rewrite Hu, Hseen.
    repeat split.
    + intros k Hk. rewrite rp_one_bits by lia. unfold rp_mem. cbn.
      destruct (k =? 0) eqn:Ek; lia.
    + intros x [Hx|[]]. lia.
Qed.

(* validation in the armed state: exactly the sliding-window test *)
Lemma rp_validate_armed : forall W s a seq,
  rp_R s a -> rp_a_armed a = true ->
  let '(ok, s1) := rp_validate rp_fixed W s seq in
  ok = rp_abs_fresh W a seq /\
  rp_undef s1 = false /\ rp_initial s1 = false /\
  (ok = false -> rp_last s1 = rp_last s /\ rp_win s1 = rp_win s) /\
  (ok = true -> rp_R s1 (rp_abs_accept a seq) /\
                rp_rb_last s1 = rp_last s /\ rp_rb_win s1 = rp_win s).
Proof.
  intros W s a seq (Hu & Hi & Hrest) Ha. rewrite Ha in *. cbn [negb] in Hi.
  destruct Hrest as (Hl & Hb0 & Hbits & Hle).
  unfold rp_validate, rp_abs_fresh. rewrite Ha.
  destruct (seq >=? rp_seq_max) eqn:E.
  { assert (seq <? rp_seq_max = false) as -> by lia. cbn [andb].
    repeat split; auto; discriminate. }
  assert (seq <? rp_seq_max = true) as -> by lia. cbn [andb rp_initial rp_last rp_win].
  rewrite Hi. rewrite <- Hl.
  destruct (seq >? rp_last s) eqn:Egt.
  - (* newer than everything seen: the window moves *)
    cbn [orb rp_v_shguard rp_fixed].
    unfold rp_set_window. cbn [rp_undef rp_initial rp_last rp_win rp_rb_last rp_rb_win].
    rewrite Hu. cbn [orb].
    split; [reflexivity|]. split; [reflexivity|]. split; [reflexivity|].
    split; [discriminate|]. intros _. split; [|split; reflexivity].
    unfold rp_R, rp_abs_accept. rewrite Ha.
    cbn [rp_undef rp_initial rp_last rp_win rp_a_armed rp_a_hi rp_a_seen negb].
    split; [reflexivity|]. split; [reflexivity|].
    split; [lia|].
    split.
    { rewrite Z.lor_spec. rewrite (rp_one_bits 0) by lia. cbn. apply orb_true_r. }
    split.
    + intros k Hk. rewrite Z.lor_spec, rp_one_bits by lia. rewrite rp_mem_cons.
      destruct (k =? 0) eqn:Ek.
      { assert (seq - k =? seq = true) as -> by lia. rewrite orb_true_r. reflexivity. }
      assert (seq - k =? seq = false) as -> by lia. rewrite orb_false_r. cbn [orb].
      destruct (seq - rp_last s <? 64) eqn:Es.
      * rewrite rp_shl64_small by lia. cbn [fst].
        rewrite rp_shl_bits by lia.
        destruct (k <? seq - rp_last s) eqn:Ek2.
        -- symmetry. apply rp_mem_false. intro Hin. apply Hle in Hin. lia.
        -- rewrite Hbits by lia. f_equal. lia.
      * rewrite Z.bits_0. symmetry. apply rp_mem_false. intro Hin. apply Hle in Hin. lia.
    + intros x [Hx|Hx]; [lia|]. apply Hle in Hx. lia.
  - cbn [orb].
    destruct (seq =? rp_last s) eqn:Eeq.
    { (* the newest number again *)
      assert (rp_mem seq (rp_a_seen a) = true) as Hm.
      { specialize (Hbits 0 ltac:(lia)). rewrite Hb0 in Hbits.
        replace (rp_last s - 0) with seq in Hbits by lia. auto. }
      rewrite Hm. cbn [negb]. rewrite andb_false_r.
      repeat split; auto; discriminate. }
    (* older than the newest: inside or outside the window *)
    cbn [rp_v_bitidx rp_fixed].
    unfold rp_weff.
    destruct ((rp_last s - seq >=? W) || (rp_last s - seq >? 63)) eqn:Eout.
    { assert (rp_last s - seq <? Z.min W 64 = false) as -> by lia. cbn [andb].
      repeat split; auto; discriminate. }
    assert (rp_last s - seq <? Z.min W 64 = true) as -> by lia. cbn [andb].
    rewrite rp_shl64_small by lia. rewrite Z.shiftl_1_l.
    rewrite Z.mod_small by (split; [apply Z.pow_nonneg; lia | apply Z.pow_lt_mono_r; lia]).
    rewrite rp_land_pow2 by lia. rewrite negb_involutive.
    rewrite Hbits by lia. replace (rp_last s - (rp_last s - seq)) with seq by lia.
    unfold rp_set_window. cbn [rp_undef rp_initial rp_last rp_win rp_rb_last rp_rb_win].
    rewrite Hu. cbn [orb].
    destruct (rp_mem seq (rp_a_seen a)) eqn:Em; cbn [negb].
    { repeat split; auto; discriminate. }
    split; [reflexivity|]. split; [reflexivity|]. split; [reflexivity|].
    split; [discriminate|]. intros _. split; [|split; reflexivity].
    unfold rp_R, rp_abs_accept. rewrite Ha.
    cbn [rp_undef rp_initial rp_last rp_win rp_a_armed rp_a_hi rp_a_seen negb].
    split; [reflexivity|]. split; [reflexivity|].
    split; [lia|].
    split.
    { rewrite Z.lor_spec, Hb0. reflexivity. }
    split.
    + intros k Hk. rewrite Z.lor_spec, Hbits by lia. rewrite rp_mem_cons.
      rewrite Z.pow2_bits_eqb by lia. rewrite orb_comm. f_equal. lia.
    + intros x [Hx|Hx]; [lia|]. apply Hle in Hx. lia.
Qed.

(* rollback after a successful validation puts the window back *)
Lemma rp_rollback_restores : forall s1 l w,
  rp_rb_last s1 = l -> rp_rb_win s1 = w -> w <> 0 ->
  let s2 := rp_rollback rp_fixed s1 in
  rp_last s2 = l /\ rp_win s2 = w /\ rp_initial s2 = rp_initial s1 /\ rp_undef s2 = rp_undef s1.
Proof.
  intros s1 l w Hl Hw Hnz. unfold rp_rollback. cbn [rp_v_rbflag rp_fixed].
  rewrite Hw. destruct (w =? 0) eqn:E; [lia|]. cbn. rewrite Hl. repeat split.
Qed.

(* one request: the concrete step is the specification's step *)
Lemma rp_recv_req_refines : forall W b12 s a m,
  rp_R s a ->
  let '(r, s1) := rp_recv_req rp_fixed W b12 s m in
  let '(r', a1) := rp_abs_recv_req W b12 a m in
  r = r' /\ rp_R s1 a1.
Proof.
  intros W b12 s a m HR.
  pose proof HR as (Hu & Hi & Hrest).
  unfold rp_recv_req, rp_abs_recv_req.
  destruct (rp_m_auth m) eqn:Em.
  - (* genuine *)
    destruct (rp_a_armed a) eqn:Ha; cbn [negb] in Hi; rewrite Hi.
    + pose proof (rp_validate_armed W s a (rp_m_seq m) HR Ha) as HV.
      destruct (rp_validate rp_fixed W s (rp_m_seq m)) as [ok s1].
      destruct HV as (Hok & Hu1 & Hi1 & Hno & Hyes).
      rewrite <- Hok.
      destruct ok; cbn [negb].
      * destruct (Hyes eq_refl) as (HR1 & Hrl & Hrw).
        cbn [rp_v_nooverwrite rp_fixed]. rewrite Hi1. split; [reflexivity | exact HR1].
      * destruct (Hno eq_refl) as (Hl1 & Hw1). split; [reflexivity|].
        unfold rp_R in *. rewrite Ha in *. rewrite Hl1, Hw1, Hu1, Hi1. cbn [negb].
        destruct Hrest as (Hl & Hb0 & Hbits & Hle). repeat split; auto.
    + cbn [negb rp_v_nooverwrite rp_fixed rp_v_arm]. rewrite Hi.
      assert (Harm : let '(r, s1) := rp_arm rp_fixed W s (rp_m_seq m) in
                     let '(r', a1) := (if rp_abs_fresh W a (rp_m_seq m)
                                       then (RpAccept, rp_abs_accept a (rp_m_seq m))
                                       else (RpRejReplay, a)) in
                     r = r' /\ rp_R s1 a1).
      { unfold rp_arm.
        pose proof (rp_validate_unarmed W s a (rp_m_seq m) HR Ha) as HV.
        destruct (rp_validate rp_fixed W s (rp_m_seq m)) as [ok s1].
        destruct HV as (Hok & Hyes & Hno). rewrite <- Hok.
        destruct ok.
        - split; [reflexivity | apply Hyes; reflexivity].
        - rewrite (Hno eq_refl). split; [reflexivity | exact HR]. }
      destruct b12.
      * destruct (rp_m_echo m).
        -- split; [reflexivity | exact HR].
        -- exact Harm.
        -- split; [reflexivity | exact HR].
      * exact Harm.
  - (* forged *)
    destruct (rp_a_armed a) eqn:Ha; cbn [negb] in Hi; rewrite Hi.
    + pose proof (rp_validate_armed W s a (rp_m_seq m) HR Ha) as HV.
      destruct (rp_validate rp_fixed W s (rp_m_seq m)) as [ok s1].
      destruct HV as (Hok & Hu1 & Hi1 & Hno & Hyes).
      rewrite <- Hok.
      destruct ok; cbn [negb].
      * destruct (Hyes eq_refl) as (HR1 & Hrl & Hrw).
        cbn [rp_v_nooverwrite rp_fixed].
        split; [reflexivity|].
        destruct Hrest as (Hl & Hb0 & Hbits & Hle).
        pose proof (rp_rollback_restores s1 _ _ Hrl Hrw (rp_win_nonzero _ Hb0)) as (R1 & R2 & R3 & R4).
        unfold rp_R. rewrite Ha, R1, R2, R3, R4, Hu1, Hi1. cbn [negb].
        repeat split; auto.
      * destruct (Hno eq_refl) as (Hl1 & Hw1). split; [reflexivity|].
        unfold rp_R in *. rewrite Ha in *. rewrite Hl1, Hw1, Hu1, Hi1. cbn [negb].
        destruct Hrest as (Hl & Hb0 & Hbits & Hle). repeat split; auto.
    + cbn [negb rp_v_nooverwrite rp_fixed rp_v_arm].
      destruct Hrest as [Hrb Hseen].
      split; [reflexivity|].
      unfold rp_rollback. cbn [rp_v_rbflag rp_fixed]. rewrite Hrb. cbn. exact HR.
  - (* rejected before any recipient context is touched *)
    split; [reflexivity | exact HR].
  - (* stopped between the replay check and decryption *)
    destruct (rp_a_armed a) eqn:Ha; cbn [negb] in Hi; rewrite Hi.
    + pose proof (rp_validate_armed W s a (rp_m_seq m) HR Ha) as HV.
      destruct (rp_validate rp_fixed W s (rp_m_seq m)) as [ok s1].
      destruct HV as (Hok & Hu1 & Hi1 & Hno & Hyes).
      rewrite <- Hok.
      destruct ok; cbn [negb].
      * destruct (Hyes eq_refl) as (HR1 & Hrl & Hrw).
        cbn [rp_v_nooverwrite rp_v_abort_rb rp_fixed negb andb].
        split; [reflexivity|].
        destruct Hrest as (Hl & Hb0 & Hbits & Hle).
        pose proof (rp_rollback_restores s1 _ _ Hrl Hrw (rp_win_nonzero _ Hb0)) as (R1 & R2 & R3 & R4).
        unfold rp_R. rewrite Ha, R1, R2, R3, R4, Hu1, Hi1. cbn [negb].
        repeat split; auto.
      * destruct (Hno eq_refl) as (Hl1 & Hw1). split; [reflexivity|].
        unfold rp_R in *. rewrite Ha in *. rewrite Hl1, Hw1, Hu1, Hi1. cbn [negb].
        destruct Hrest as (Hl & Hb0 & Hbits & Hle). repeat split; auto.
    + cbn [negb andb rp_v_nooverwrite rp_v_abort_rb rp_fixed rp_v_arm].
      split; [reflexivity | exact HR].
Qed.

(* one response with its own Partial IV *)
Lemma rp_recv_resp_refines : forall W s a m,
  rp_R s a ->
  let '(r, s1) := rp_recv_resp rp_fixed W s m in
  let '(r', a1) := rp_abs_recv_resp W a m in
  r = r' /\ rp_R s1 a1.
Proof.
  intros W s a m HR.
  pose proof HR as (Hu & Hi & Hrest).
  unfold rp_recv_resp, rp_abs_recv_resp.
  cbn [rp_v_resp_nowrite rp_v_resp_rb rp_v_abort_rb rp_fixed].
  destruct (rp_m_auth m) eqn:Em; [| |split; [reflexivity | exact HR]|].
  - (* genuine *)
    destruct (rp_a_armed a) eqn:Ha; cbn [negb] in Hi; rewrite Hi.
    + pose proof (rp_validate_armed W s a (rp_m_seq m) HR Ha) as HV.
      destruct (rp_validate rp_fixed W s (rp_m_seq m)) as [ok s1].
      destruct HV as (Hok & Hu1 & Hi1 & Hno & Hyes).
      rewrite <- Hok.
      destruct ok; cbn [negb].
      * destruct (Hyes eq_refl) as (HR1 & Hrl & Hrw).
        assert (rp_m_seq m >=? rp_seq_max = false) as ->.
        { symmetry in Hok. unfold rp_abs_fresh in Hok. apply andb_prop in Hok. lia. }
        rewrite Hi1. split; [reflexivity | exact HR1].
      * destruct (Hno eq_refl) as (Hl1 & Hw1). split; [reflexivity|].
        unfold rp_R in *. rewrite Ha in *. rewrite Hl1, Hw1, Hu1, Hi1. cbn [negb].
        destruct Hrest as (Hl & Hb0 & Hbits & Hle). repeat split; auto.
    + cbn [negb]. unfold rp_abs_fresh. rewrite Ha. rewrite andb_true_r.
      destruct (rp_m_seq m >=? rp_seq_max) eqn:E.
      * assert (rp_m_seq m <? rp_seq_max = false) as -> by lia. cbn [negb].
        split; [reflexivity | exact HR].
      * assert (rp_m_seq m <? rp_seq_max = true) as -> by lia. cbn [negb].
        rewrite Hi. split; [reflexivity | exact HR].
  - (* forged *)
    destruct (rp_a_armed a) eqn:Ha; cbn [negb] in Hi; rewrite Hi.
    + pose proof (rp_validate_armed W s a (rp_m_seq m) HR Ha) as HV.
      destruct (rp_validate rp_fixed W s (rp_m_seq m)) as [ok s1].
      destruct HV as (Hok & Hu1 & Hi1 & Hno & Hyes).
      rewrite <- Hok.
      destruct ok; cbn [negb andb].
      * destruct (Hyes eq_refl) as (HR1 & Hrl & Hrw).
        assert (rp_m_seq m >=? rp_seq_max = false) as ->.
        { symmetry in Hok. unfold rp_abs_fresh in Hok. apply andb_prop in Hok. lia. }
        split; [reflexivity|].
        destruct Hrest as (Hl & Hb0 & Hbits & Hle).
        pose proof (rp_rollback_restores s1 _ _ Hrl Hrw (rp_win_nonzero _ Hb0)) as (R1 & R2 & R3 & R4).
        unfold rp_R. rewrite Ha, R1, R2, R3, R4, Hu1, Hi1. cbn [negb].
        repeat split; auto.
      * destruct (Hno eq_refl) as (Hl1 & Hw1). split; [reflexivity|].
        unfold rp_R in *. rewrite Ha in *. rewrite Hl1, Hw1, Hu1, Hi1. cbn [negb].
        destruct Hrest as (Hl & Hb0 & Hbits & Hle). repeat split; auto.
    + cbn [negb andb]. unfold rp_abs_fresh. rewrite Ha. rewrite andb_true_r.
      destruct (rp_m_seq m >=? rp_seq_max) eqn:E.
      * assert (rp_m_seq m <? rp_seq_max = false) as -> by lia. cbn [negb].
        split; [reflexivity | exact HR].
      * assert (rp_m_seq m <? rp_seq_max = true) as -> by lia. cbn [negb].
        split; [reflexivity | exact HR].
  - (* stopped between the replay check and decryption *)
    destruct (rp_a_armed a) eqn:Ha; cbn [negb] in Hi; rewrite Hi.
    + pose proof (rp_validate_armed W s a (rp_m_seq m) HR Ha) as HV.
      destruct (rp_validate rp_fixed W s (rp_m_seq m)) as [ok s1].
      destruct HV as (Hok & Hu1 & Hi1 & Hno & Hyes).
      rewrite <- Hok.
      destruct ok; cbn [negb andb].
      * destruct (Hyes eq_refl) as (HR1 & Hrl & Hrw).
        assert (rp_m_seq m >=? rp_seq_max = false) as ->.
        { symmetry in Hok. unfold rp_abs_fresh in Hok. apply andb_prop in Hok. lia. }
        split; [reflexivity|].
        destruct Hrest as (Hl & Hb0 & Hbits & Hle).
        pose proof (rp_rollback_restores s1 _ _ Hrl Hrw (rp_win_nonzero _ Hb0)) as (R1 & R2 & R3 & R4).
        unfold rp_R. rewrite Ha, R1, R2, R3, R4, Hu1, Hi1. cbn [negb].
        repeat split; auto.
      * destruct (Hno eq_refl) as (Hl1 & Hw1). split; [reflexivity|].
        unfold rp_R in *. rewrite Ha in *. rewrite Hl1, Hw1, Hu1, Hi1. cbn [negb].
        destruct Hrest as (Hl & Hb0 & Hbits & Hle). repeat split; auto.
    + cbn [negb andb]. unfold rp_abs_fresh. rewrite Ha. rewrite andb_true_r.
      destruct (rp_m_seq m >=? rp_seq_max) eqn:E.
      * assert (rp_m_seq m <? rp_seq_max = false) as -> by lia. cbn [negb].
        split; [reflexivity | exact HR].
      * assert (rp_m_seq m <? rp_seq_max = true) as -> by lia. cbn [negb].
        split; [reflexivity | exact HR].
Qed.

Theorem rp_recv_refines : forall W b12 s a m,
  rp_R s a ->
  let '(r, s1) := rp_recv rp_fixed W b12 s m in
  let '(r', a1) := rp_abs_recv W b12 a m in
  r = r' /\ rp_R s1 a1.
Proof.
  intros W b12 s a m HR. unfold rp_recv, rp_abs_recv.
  destruct (rp_m_kind m); [apply rp_recv_req_refines | apply rp_recv_resp_refines]; exact HR.
Qed.

(* every history *)
Theorem rp_run_refines : forall W b12 h s a,
  rp_R s a ->
  fst (rp_run rp_fixed W b12 s h) = fst (rp_abs_run W b12 a h) /\
  rp_R (snd (rp_run rp_fixed W b12 s h)) (snd (rp_abs_run W b12 a h)).
Proof.
  intros W b12 h. induction h as [|m t IH]; intros s a HR.
  - cbn. split; [reflexivity | exact HR].
  - cbn [rp_run rp_abs_run].
    pose proof (rp_recv_refines W b12 s a m HR) as Hs.
    destruct (rp_recv rp_fixed W b12 s m) as [r s1].
    destruct (rp_abs_recv W b12 a m) as [r' a1].
    destruct Hs as [-> HR1].
    specialize (IH s1 a1 HR1).
    destruct (rp_run rp_fixed W b12 s1 t) as [rs s2].
    destruct (rp_abs_run W b12 a1 t) as [rs' a2].
    cbn [fst snd] in *. destruct IH as [-> HR2]. split; [reflexivity | exact HR2].
Qed.

(* ------------------------------------------------------------------ the specification's own properties *)

(* invariant of the accepted set *)
Definition rp_abs_ok (a : rp_abs) : Prop :=
  NoDup (rp_a_seen a) /\
  if rp_a_armed a then In (rp_a_hi a) (rp_a_seen a) /\ forall x, In x (rp_a_seen a) -> x <= rp_a_hi a
  else rp_a_seen a = [].

Lemma rp_abs_ok_init : rp_abs_ok rp_abs_init.
Proof. unfold rp_abs_ok; cbn. split; [constructor | reflexivity]. Qed.

Lemma rp_abs_fresh_notin : forall W a seq,
  rp_abs_ok a -> rp_abs_fresh W a seq = true -> ~ In seq (rp_a_seen a).
Proof.
  intros W a seq [Hnd Hrest] Hf. unfold rp_abs_fresh in Hf.
  destruct (rp_a_armed a).
  - destruct Hrest as [Hin Hle]. intro Hs.
    apply andb_prop in Hf. destruct Hf as [_ Hf].
    apply orb_prop in Hf. destruct Hf as [Hf|Hf].
    + apply Hle in Hs. lia.
    + apply andb_prop in Hf. destruct Hf as [_ Hf].
      apply negb_true_iff in Hf. apply rp_mem_false in Hf. contradiction.
  - rewrite Hrest. intros [].
Qed.

Lemma rp_abs_accept_ok : forall W a seq,
  rp_abs_ok a -> rp_abs_fresh W a seq = true -> rp_abs_ok (rp_abs_accept a seq).
Proof.
  intros W a seq Hok Hf. pose proof (rp_abs_fresh_notin W a seq Hok Hf) as Hn.
  destruct Hok as [Hnd Hrest]. unfold rp_abs_ok, rp_abs_accept. cbn.
  split; [constructor; assumption|].
  destruct (rp_a_armed a).
  - destruct Hrest as [Hin Hle]. split.
    + destruct (Z.max_spec (rp_a_hi a) seq) as [[_ ->]|[_ ->]]; auto.
    + intros x [Hx|Hx]; [lia|]. apply Hle in Hx. lia.
  - split; [left; reflexivity|]. intros x [Hx|Hx]; [lia|]. rewrite Hrest in Hx. destruct Hx.
Qed.

(* a step either leaves the accepted set alone or puts the (fresh) number in front of it *)
Lemma rp_abs_recv_cases : forall W b12 a m,
  let '(r, a1) := rp_abs_recv W b12 a m in
  (r = RpAccept /\ rp_abs_fresh W a (rp_m_seq m) = true /\ rp_m_auth m = RpGenuine /\
   a1 = rp_abs_accept a (rp_m_seq m)) \/
  (r <> RpAccept /\ a1 = a).
Proof.
  intros W b12 a m. unfold rp_abs_recv, rp_abs_recv_req, rp_abs_recv_resp.
  destruct (rp_m_kind m).
  2: { destruct (rp_m_auth m) eqn:Em.
       - destruct (rp_abs_fresh W a (rp_m_seq m)) eqn:Ef; cbn [negb];
           [|right; split; [discriminate | reflexivity]].
         destruct (rp_a_armed a); [left; auto | right; split; [discriminate | reflexivity]].
       - destruct (negb _); right; split; try discriminate; reflexivity.
       - right; split; [discriminate | reflexivity].
       - destruct (negb _); right; split; try discriminate; reflexivity. }
  destruct (rp_m_auth m) eqn:Em.
  - destruct (rp_a_armed a).
    + destruct (rp_abs_fresh W a (rp_m_seq m)) eqn:Ef; cbn [negb];
        [left; auto | right; split; [discriminate | reflexivity]].
    + destruct (rp_abs_fresh W a (rp_m_seq m)) eqn:Ef.
      * destruct b12; [destruct (rp_m_echo m)|]; auto;
          right; split; try discriminate; reflexivity.
      * destruct b12; [destruct (rp_m_echo m)|]; right; split; try discriminate; reflexivity.
  - destruct (rp_a_armed a); [destruct (negb _)|]; right; split; try discriminate; reflexivity.
  - right; split; [discriminate | reflexivity].
  - destruct (rp_a_armed a); [destruct (negb _)|]; right; split; try discriminate; reflexivity.
Qed.

Lemma rp_abs_run_seen : forall W b12 h a,
  rp_abs_ok a ->
  rp_abs_ok (snd (rp_abs_run W b12 a h)) /\
  rp_a_seen (snd (rp_abs_run W b12 a h)) =
    rev (rp_accepted_of h (fst (rp_abs_run W b12 a h))) ++ rp_a_seen a.
Proof.
  intros W b12 h. induction h as [|m t IH]; intros a Hok.
  - cbn. auto.
  - cbn [rp_abs_run].
    pose proof (rp_abs_recv_cases W b12 a m) as Hc.
    destruct (rp_abs_recv W b12 a m) as [r a1].
    assert (Hok1 : rp_abs_ok a1).
    { destruct Hc as [(_ & Hf & _ & ->)|(_ & ->)]; [eapply rp_abs_accept_ok; eauto | exact Hok]. }
    specialize (IH a1 Hok1).
    destruct (rp_abs_run W b12 a1 t) as [rs a2]. cbn [fst snd] in *.
    destruct IH as [Hok2 Hseen]. split; [exact Hok2|].
    rewrite Hseen. cbn [rp_accepted_of].
    destruct Hc as [(-> & _ & _ & ->)|(Hr & ->)].
    + cbn [rp_is_accept rev rp_abs_accept rp_a_seen]. rewrite <- app_assoc. reflexivity.
    + destruct r; try congruence; reflexivity.
Qed.

Theorem rp_abs_at_most_once : forall W b12 h,
  NoDup (rp_accepted_of h (fst (rp_abs_run W b12 rp_abs_init h))).
Proof.
  intros W b12 h.
  destruct (rp_abs_run_seen W b12 h rp_abs_init rp_abs_ok_init) as [[Hnd _] Hseen].
  rewrite Hseen in Hnd. cbn [rp_abs_init rp_a_seen] in Hnd. rewrite app_nil_r in Hnd.
  apply NoDup_rev in Hnd. rewrite rev_involutive in Hnd. exact Hnd.
Qed.

(* forged (and unroutable) messages are invisible to the specification *)
Lemma rp_abs_recv_forged : forall W b12 a m,
  rp_m_auth m <> RpGenuine ->
  snd (rp_abs_recv W b12 a m) = a /\ fst (rp_abs_recv W b12 a m) <> RpAccept.
Proof.
  intros W b12 a m Hf. unfold rp_abs_recv, rp_abs_recv_req, rp_abs_recv_resp.
  destruct (rp_m_kind m).
  - destruct (rp_m_auth m); [congruence| | |];
      [destruct (rp_a_armed a); [destruct (negb _)|] | |
       destruct (rp_a_armed a); [destruct (negb _)|]]; cbn; split; auto; discriminate.
  - destruct (rp_m_auth m); [congruence| | |]; [destruct (negb _)| |destruct (negb _)];
      cbn; split; auto; discriminate.
Qed.

Lemma rp_abs_filter_genuine : forall W b12 h a,
  rp_genuine_verdicts h (fst (rp_abs_run W b12 a h)) =
    fst (rp_abs_run W b12 a (filter rp_is_genuine h)) /\
  snd (rp_abs_run W b12 a h) = snd (rp_abs_run W b12 a (filter rp_is_genuine h)).
Proof.
  intros W b12 h. induction h as [|m t IH]; intros a.
  - cbn. auto.
  - cbn [rp_abs_run filter].
    destruct (rp_is_genuine m) eqn:Eg.
    + cbn [rp_abs_run].
      destruct (rp_abs_recv W b12 a m) as [r a1].
      specialize (IH a1).
      destruct (rp_abs_run W b12 a1 t) as [rs a2].
      destruct (rp_abs_run W b12 a1 (filter rp_is_genuine t)) as [rs' a2'].
      cbn [fst snd rp_genuine_verdicts] in *. rewrite Eg.
      destruct IH as [-> ->]. auto.
    + assert (Em : rp_m_auth m <> RpGenuine).
      { unfold rp_is_genuine in Eg. destruct (rp_m_auth m); congruence. }
      pose proof (rp_abs_recv_forged W b12 a m Em) as [Hs _].
      destruct (rp_abs_recv W b12 a m) as [r a1]. cbn [snd] in Hs. subst a1.
      specialize (IH a).
      destruct (rp_abs_run W b12 a t) as [rs a2].
      cbn [fst snd rp_genuine_verdicts] in *. rewrite Eg.
      exact IH.
Qed.

(* ------------------------------------------------------------------ the property, for the repaired code *)

Theorem rp_at_most_once : forall W b12 h,
  NoDup (rp_accepted rp_fixed W b12 rp_init h).
Proof.
  intros W b12 h. unfold rp_accepted.
  destruct (rp_run_refines W b12 h rp_init rp_abs_init rp_R_init) as [-> _].
  apply rp_abs_at_most_once.
Qed.

(* reachable states *)
Definition rp_reachable (W : Z) (b12 : bool) (s : rp_state) : Prop :=
  exists h, s = snd (rp_run rp_fixed W b12 rp_init h).

Lemma rp_reachable_R : forall W b12 s, rp_reachable W b12 s -> exists a, rp_R s a /\ rp_abs_ok a.
Proof.
  intros W b12 s [h ->].
  destruct (rp_run_refines W b12 h rp_init rp_abs_init rp_R_init) as [_ HR].
  eexists. split; [exact HR|].
  apply (rp_abs_run_seen W b12 h rp_abs_init rp_abs_ok_init).
Qed.

Definition rp_delivered (r : rp_verdict) : bool :=
  match r with RpAccept | RpAcceptUnchecked => true | _ => false end.

Lemma rp_forged_obs : forall W b12 s a m,
  rp_R s a -> rp_m_auth m = RpForged ->
  rp_obs (snd (rp_recv rp_fixed W b12 s m)) = rp_obs s /\
  rp_delivered (fst (rp_recv rp_fixed W b12 s m)) = false.
Proof.
  intros W b12 s a m HR Hf.
  pose proof HR as (Hu & Hi & Hrest).
  unfold rp_recv, rp_recv_req, rp_recv_resp. rewrite Hf.
  cbn [rp_v_resp_nowrite rp_v_resp_rb rp_v_nooverwrite rp_fixed].
  destruct (rp_m_kind m).
  - (* request *)
    destruct (rp_a_armed a) eqn:Ha; cbn [negb] in Hi; rewrite Hi.
    + pose proof (rp_validate_armed W s a (rp_m_seq m) HR Ha) as HV.
      destruct (rp_validate rp_fixed W s (rp_m_seq m)) as [ok s1].
      destruct HV as (Hok & Hu1 & Hi1 & Hno & Hyes).
      destruct ok; cbn [negb fst snd].
      * destruct (Hyes eq_refl) as (HR1 & Hrl & Hrw).
        destruct Hrest as (Hl & Hb0 & Hbits & Hle).
        pose proof (rp_rollback_restores s1 _ _ Hrl Hrw (rp_win_nonzero _ Hb0)) as (R1 & R2 & R3 & R4).
        unfold rp_obs. rewrite R1, R2, R3, Hi1, Hi. split; reflexivity.
      * destruct (Hno eq_refl) as (Hl1 & Hw1). unfold rp_obs. rewrite Hl1, Hw1, Hi1, Hi.
        split; reflexivity.
    + cbn [negb fst snd].
      destruct Hrest as [Hrb Hseen].
      unfold rp_rollback. cbn [rp_v_rbflag rp_fixed]. rewrite Hrb. cbn.
      split; reflexivity.
  - (* response *)
    destruct (rp_a_armed a) eqn:Ha; cbn [negb] in Hi; rewrite Hi.
    + pose proof (rp_validate_armed W s a (rp_m_seq m) HR Ha) as HV.
      destruct (rp_validate rp_fixed W s (rp_m_seq m)) as [ok s1].
      destruct HV as (Hok & Hu1 & Hi1 & Hno & Hyes).
      destruct ok; cbn [negb andb fst snd].
      * destruct (Hyes eq_refl) as (HR1 & Hrl & Hrw).
        destruct Hrest as (Hl & Hb0 & Hbits & Hle).
        pose proof (rp_rollback_restores s1 _ _ Hrl Hrw (rp_win_nonzero _ Hb0)) as (R1 & R2 & R3 & R4).
        assert (rp_m_seq m >=? rp_seq_max = false) as ->.
        { symmetry in Hok. unfold rp_abs_fresh in Hok. apply andb_prop in Hok. lia. }
        cbn [fst snd]. unfold rp_obs. rewrite R1, R2, R3, Hi1, Hi. split; reflexivity.
      * destruct (Hno eq_refl) as (Hl1 & Hw1). unfold rp_obs. rewrite Hl1, Hw1, Hi1, Hi.
        split; reflexivity.
    + cbn [negb andb fst snd].
      destruct (rp_m_seq m >=? rp_seq_max); cbn [fst snd]; split; reflexivity.
Qed.

Lemma rp_abort_obs : forall W b12 s a m,
  rp_R s a -> rp_m_auth m = RpAbort ->
  rp_obs (snd (rp_recv rp_fixed W b12 s m)) = rp_obs s /\
  rp_delivered (fst (rp_recv rp_fixed W b12 s m)) = false.
Proof.
  intros W b12 s a m HR Hf.
  pose proof HR as (Hu & Hi & Hrest).
  unfold rp_recv, rp_recv_req, rp_recv_resp. rewrite Hf.
  cbn [rp_v_resp_nowrite rp_v_resp_rb rp_v_nooverwrite rp_v_abort_rb rp_fixed].
  destruct (rp_m_kind m).
  - (* request *)
    destruct (rp_a_armed a) eqn:Ha; cbn [negb] in Hi; rewrite Hi.
    + pose proof (rp_validate_armed W s a (rp_m_seq m) HR Ha) as HV.
      destruct (rp_validate rp_fixed W s (rp_m_seq m)) as [ok s1].
      destruct HV as (Hok & Hu1 & Hi1 & Hno & Hyes).
      destruct ok; cbn [negb andb fst snd].
      * destruct (Hyes eq_refl) as (HR1 & Hrl & Hrw).
        destruct Hrest as (Hl & Hb0 & Hbits & Hle).
        pose proof (rp_rollback_restores s1 _ _ Hrl Hrw (rp_win_nonzero _ Hb0)) as (R1 & R2 & R3 & R4).
        unfold rp_obs. rewrite R1, R2, R3, Hi1, Hi. split; reflexivity.
      * destruct (Hno eq_refl) as (Hl1 & Hw1). unfold rp_obs. rewrite Hl1, Hw1, Hi1, Hi.
        split; reflexivity.
    + cbn [negb andb fst snd]. split; reflexivity.
  - (* response *)
    destruct (rp_a_armed a) eqn:Ha; cbn [negb] in Hi; rewrite Hi.
    + pose proof (rp_validate_armed W s a (rp_m_seq m) HR Ha) as HV.
      destruct (rp_validate rp_fixed W s (rp_m_seq m)) as [ok s1].
      destruct HV as (Hok & Hu1 & Hi1 & Hno & Hyes).
      destruct ok; cbn [negb andb fst snd].
      * destruct (Hyes eq_refl) as (HR1 & Hrl & Hrw).
        destruct Hrest as (Hl & Hb0 & Hbits & Hle).
        pose proof (rp_rollback_restores s1 _ _ Hrl Hrw (rp_win_nonzero _ Hb0)) as (R1 & R2 & R3 & R4).
        assert (rp_m_seq m >=? rp_seq_max = false) as ->.
        { symmetry in Hok. unfold rp_abs_fresh in Hok. apply andb_prop in Hok. lia. }
        cbn [fst snd]. unfold rp_obs. rewrite R1, R2, R3, Hi1, Hi. split; reflexivity.
      * destruct (Hno eq_refl) as (Hl1 & Hw1). unfold rp_obs. rewrite Hl1, Hw1, Hi1, Hi.
        split; reflexivity.
    + cbn [negb andb fst snd].
      destruct (rp_m_seq m >=? rp_seq_max); cbn [fst snd]; split; reflexivity.
Qed.

(* every message that is not genuine: fails authentication, is turned away even earlier, or its
   processing stops between the replay check and the decryption verdict *)
Theorem rp_forgery_no_trace : forall W b12 s m,
  rp_reachable W b12 s -> rp_m_auth m <> RpGenuine ->
  rp_obs (snd (rp_recv rp_fixed W b12 s m)) = rp_obs s /\
  rp_delivered (fst (rp_recv rp_fixed W b12 s m)) = false.
Proof.
  intros W b12 s m Hr Hf. destruct (rp_reachable_R W b12 s Hr) as [a [HR _]].
  destruct (rp_m_auth m) eqn:Em;
    [congruence | eapply rp_forged_obs; eauto | | eapply rp_abort_obs; eauto].
  unfold rp_recv, rp_recv_req, rp_recv_resp. rewrite Em.
  destruct (rp_m_kind m); cbn [fst snd]; split; reflexivity.
Qed.

Theorem rp_genuine_still_accepted : forall W b12 h,
  rp_genuine_verdicts h (fst (rp_run rp_fixed W b12 rp_init h)) =
  fst (rp_run rp_fixed W b12 rp_init (filter rp_is_genuine h)).
Proof.
  intros W b12 h.
  destruct (rp_run_refines W b12 h rp_init rp_abs_init rp_R_init) as [-> _].
  destruct (rp_run_refines W b12 (filter rp_is_genuine h) rp_init rp_abs_init rp_R_init) as [-> _].
  apply rp_abs_filter_genuine.
Qed.

Theorem rp_no_undef : forall W b12 h,
  rp_undef (snd (rp_run rp_fixed W b12 rp_init h)) = false.
Proof.
  intros W b12 h.
  destruct (rp_run_refines W b12 h rp_init rp_abs_init rp_R_init) as [_ HR].
  exact (proj1 HR).
Qed.

(* liveness side of the window: a genuine number that is newer than everything accepted so
   far, or inside the window and not yet accepted, IS accepted (once the context is armed) *)
Theorem rp_fresh_accepted : forall W b12 h m,
  let acc := rp_accepted rp_fixed W b12 rp_init h in
  let s := snd (rp_run rp_fixed W b12 rp_init h) in
  rp_initial s = false ->
  rp_m_auth m = RpGenuine -> rp_m_seq m < rp_seq_max ->
  ((forall x, In x acc -> x < rp_m_seq m) \/
   (~ In (rp_m_seq m) acc /\ forall x, In x acc -> x - rp_m_seq m < rp_weff W)) ->
  fst (rp_recv rp_fixed W b12 s m) = RpAccept.
Proof.
  intros W b12 h m acc s Hini Hg Hlt Hcase.
  subst acc s. unfold rp_accepted in Hcase.
  pose proof (rp_run_refines W b12 h rp_init rp_abs_init rp_R_init) as [Hv HR].
  rewrite Hv in Hcase.
  pose proof (rp_abs_run_seen W b12 h rp_abs_init rp_abs_ok_init) as [Hok Hseen].
  cbn [rp_abs_init rp_a_seen] in Hseen. rewrite app_nil_r in Hseen.
  set (s := snd (rp_run rp_fixed W b12 rp_init h)) in *.
  set (a := snd (rp_abs_run W b12 rp_abs_init h)) in *.
  assert (Hin : forall x, In x (rp_accepted_of h (fst (rp_abs_run W b12 rp_abs_init h))) <->
                          In x (rp_a_seen a)).
  { intros x. rewrite Hseen. rewrite <- in_rev. reflexivity. }
  pose proof (rp_recv_refines W b12 s a m HR) as Hs.
  destruct (rp_recv rp_fixed W b12 s m) as [r s1]. cbn [fst].
  destruct HR as (_ & Hi & _). rewrite Hini in Hi.
  assert (Ha : rp_a_armed a = true) by (destruct (rp_a_armed a); [reflexivity | discriminate]).
  assert (Hf : rp_abs_fresh W a (rp_m_seq m) = true).
  { unfold rp_abs_fresh. rewrite Ha.
    destruct Hok as [_ Hok]. rewrite Ha in Hok. destruct Hok as [Hhi Hle].
    apply andb_true_intro. split; [lia|].
    destruct Hcase as [Hnew|[Hnot Hd]].
    - apply Hin in Hhi. apply Hnew in Hhi. apply orb_true_intro. left. lia.
    - destruct (rp_m_seq m >? rp_a_hi a) eqn:E; [reflexivity|]. cbn [orb].
      apply andb_true_intro. split.
      + apply Hin in Hhi. apply Hd in Hhi. lia.
      + apply negb_true_iff. apply rp_mem_false. intro Hc. apply Hin in Hc. contradiction. }
  unfold rp_abs_recv, rp_abs_recv_req, rp_abs_recv_resp in Hs.
  destruct (rp_m_kind m); rewrite ?Ha, Hg, Hf in Hs; cbn [negb] in Hs; rewrite ?Ha in Hs;
    destruct Hs as [-> _]; reflexivity.
Qed.

(* the model's window word always fits the C type *)
Lemma rp_lor_range : forall a b n, 0 <= n -> 0 <= a < 2 ^ n -> 0 <= b < 2 ^ n ->
  0 <= Z.lor a b < 2 ^ n.
Proof.
  intros a b n Hn Ha Hb. split.
  - apply Z.lor_nonneg. lia.
  - destruct (Z.eq_dec (Z.lor a b) 0) as [E|E].
    + rewrite E. apply Z.pow_pos_nonneg; lia.
    + assert (0 < n).
      { destruct (Z.eq_dec n 0) as [->|]; [|lia].
        assert (a = 0) as -> by (change (2 ^ 0) with 1 in Ha; lia).
        assert (b = 0) as -> by (change (2 ^ 0) with 1 in Hb; lia).
        exfalso. apply E. reflexivity. }
      apply Z.log2_lt_pow2.
      * assert (0 <= Z.lor a b) by (apply Z.lor_nonneg; lia). lia.
      * rewrite Z.log2_lor by lia.
        destruct (Z.max_spec (Z.log2 a) (Z.log2 b)) as [[_ ->]|[_ ->]].
        -- destruct (Z.eq_dec b 0) as [->|Hb0]; [cbn; lia|]. apply Z.log2_lt_pow2; lia.
        -- destruct (Z.eq_dec a 0) as [->|Ha0]; [cbn; lia|]. apply Z.log2_lt_pow2; lia.
Qed.

Definition rp_in_range (s : rp_state) : Prop :=
  0 <= rp_win s < 2 ^ 64 /\ 0 <= rp_last s < 2 ^ 64 /\
  0 <= rp_rb_win s < 2 ^ 64 /\ 0 <= rp_rb_last s < 2 ^ 64.

Lemma rp_shl64_range : forall w s, 0 <= fst (rp_shl64 w s) < 2 ^ 64.
Proof.
  intros w s. unfold rp_shl64. destruct (s <? 64); cbn [fst]; rewrite rp_two64_eq;
    apply Z.mod_pos_bound; lia.
Qed.

Ltac rp_range_fin :=
  unfold rp_in_range, rp_set_window;
  cbn [snd rp_win rp_last rp_rb_win rp_rb_last rp_initial rp_undef].

Lemma rp_validate_range : forall v W s seq,
  0 <= seq -> rp_in_range s -> rp_in_range (snd (rp_validate v W s seq)).
Proof.
  intros v W s seq Hseq (Hw & Hl & Hrw & Hrl).
  unfold rp_validate.
  destruct (seq >=? rp_seq_max) eqn:E; [rp_range_fin; auto|].
  assert (seq < 2 ^ 64) by (unfold rp_seq_max in E; lia).
  cbn [rp_initial rp_last rp_win].
  destruct (rp_initial s).
  { rp_range_fin. repeat split; lia. }
  destruct (seq >? rp_last s).
  { destruct (rp_v_shguard v).
    - rp_range_fin.
      split; [|repeat split; lia].
      apply rp_lor_range; try lia.
      destruct (seq - rp_last s <? 64); [apply rp_shl64_range | lia].
    - pose proof (rp_shl64_range (rp_win s) (seq - rp_last s)) as Hr.
      destruct (rp_shl64 (rp_win s) (seq - rp_last s)) as [w ub]. cbn [fst] in Hr.
      rp_range_fin. split; [|repeat split; lia].
      apply rp_lor_range; lia. }
  destruct (seq =? rp_last s).
  { rp_range_fin. repeat split; lia. }
  match goal with |- context [if ?c then _ else _] => destruct c end.
  { rp_range_fin. repeat split; lia. }
  match goal with |- context [rp_shl64 1 ?x] =>
    pose proof (rp_shl64_range 1 x) as Hr; destruct (rp_shl64 1 x) as [pat ub] end.
  cbn [fst] in Hr.
  match goal with |- context [if ?c then _ else _] => destruct c end.
  - rp_range_fin. repeat split; lia.
  - rp_range_fin. split; [|repeat split; lia].
    apply rp_lor_range; lia.
Qed.

Lemma rp_rollback_range : forall v s, rp_in_range s -> rp_in_range (rp_rollback v s).
Proof.
  intros v s (Hw & Hl & Hrw & Hrl). unfold rp_rollback.
  destruct (rp_v_rbflag v).
  - destruct (rp_rb_win s =? 0); rp_range_fin; repeat split; lia.
  - destruct (rp_rb_win s =? 0); cbn [rp_rb_last rp_win rp_rb_win rp_initial rp_undef];
      destruct (rp_rb_last s =? 0); rp_range_fin; repeat split; lia.
Qed.

Lemma rp_arm_range : forall v W s seq,
  0 <= seq -> rp_in_range s -> rp_in_range (snd (rp_arm v W s seq)).
Proof.
  intros v W s seq Hseq Hr. unfold rp_arm.
  pose proof (rp_validate_range v W s seq Hseq Hr) as H.
  destruct (rp_validate v W s seq) as [ok s1]. cbn [snd] in H. destruct ok; exact H.
Qed.

Lemma rp_recv_req_range : forall v W b12 s m,
  0 <= rp_m_seq m < 2 ^ 64 -> rp_in_range s -> rp_in_range (snd (rp_recv_req v W b12 s m)).
Proof.
  intros v W b12 s m Hseq Hr. unfold rp_recv_req.
  assert (H1 : rp_in_range (snd (if rp_initial s then (true, s)
                                  else rp_validate v W s (rp_m_seq m)))).
  { destruct (rp_initial s); [exact Hr | apply rp_validate_range; [lia | exact Hr]]. }
  destruct (rp_m_auth m) eqn:Em; [| |exact Hr|];
    destruct (if rp_initial s then (true, s) else rp_validate v W s (rp_m_seq m)) as [ok s1];
    cbn [snd] in H1;
    (destruct ok; cbn [negb]; [|exact H1]);
    set (s2 := if rp_v_nooverwrite v then s1 else _);
    assert (H2 : rp_in_range s2)
      by (subst s2; destruct (rp_v_nooverwrite v); [exact H1|];
          destruct H1 as (Hw & Hl & Hrw & Hrl); rp_range_fin; repeat split; lia).
  - destruct (rp_initial s2); [|exact H2].
    destruct b12.
    + destruct (rp_m_echo m); [exact H2 | apply rp_arm_range; [lia | exact H2] | exact H2].
    + destruct (rp_v_arm v); [apply rp_arm_range; [lia | exact H2] | exact H2].
  - apply rp_rollback_range. exact H2.
  - cbn [snd]. destruct (rp_v_abort_rb v && negb (rp_initial s)); [apply rp_rollback_range|]; exact H2.
Qed.

Lemma rp_recv_resp_range : forall v W s m,
  0 <= rp_m_seq m < 2 ^ 64 -> rp_in_range s -> rp_in_range (snd (rp_recv_resp v W s m)).
Proof.
  intros v W s m Hseq Hr. unfold rp_recv_resp.
  assert (H1 : rp_in_range (snd (if rp_initial s then (true, s)
                                  else rp_validate v W s (rp_m_seq m)))).
  { destruct (rp_initial s); [exact Hr | apply rp_validate_range; [lia | exact Hr]]. }
  destruct (rp_m_auth m) eqn:Em; [| |exact Hr|];
    destruct (if rp_initial s then (true, s) else rp_validate v W s (rp_m_seq m)) as [ok s1];
    cbn [snd] in H1;
    (destruct ok; cbn [negb]; [|exact H1]);
    match goal with |- context [let '(_, _) := ?p in _] =>
      assert (H2 : rp_in_range (snd p))
        by (destruct (rp_v_resp_nowrite v); cbn [snd]; [exact H1|];
            destruct (rp_m_seq m >? rp_last s1); [|exact H1];
            destruct H1 as (Hw & Hl & Hrw & Hrl); rp_range_fin; repeat split; lia);
      destruct p as [toobig s2] end;
    cbn [snd] in H2; (destruct toobig; [exact H1|]); cbn [snd].
  - destruct (rp_initial s2); exact H2.
  - destruct (rp_v_resp_rb v && negb (rp_initial s)); [apply rp_rollback_range|]; exact H2.
  - destruct (rp_v_abort_rb v && negb (rp_initial s)); [apply rp_rollback_range|]; exact H2.
Qed.

Lemma rp_recv_range : forall v W b12 s m,
  0 <= rp_m_seq m < 2 ^ 64 -> rp_in_range s -> rp_in_range (snd (rp_recv v W b12 s m)).
Proof.
  intros v W b12 s m Hseq Hr. unfold rp_recv.
  destruct (rp_m_kind m); [apply rp_recv_req_range | apply rp_recv_resp_range]; assumption.
Qed.

(* whatever the variant, the model never leaves the value range of the C fields: the
   arithmetic of the model is the arithmetic of the uint64_t fields *)
Theorem rp_run_range : forall v W b12 h s,
  Forall (fun m => 0 <= rp_m_seq m < 2 ^ 64) h -> rp_in_range s ->
  rp_in_range (snd (rp_run v W b12 s h)).
Proof.
  intros v W b12 h. induction h as [|m t IH]; intros s Hh Hr.
  - exact Hr.
  - inversion Hh as [|? ? Hm Ht]; subst. cbn [rp_run].
    pose proof (rp_recv_range v W b12 s m Hm Hr) as H1.
    destruct (rp_recv v W b12 s m) as [r s1]. cbn [snd] in H1.
    specialize (IH s1 Ht H1).
    destruct (rp_run v W b12 s1 t) as [rs s2]. exact IH.
Qed.

Lemma rp_init_range : rp_in_range rp_init.
Proof. unfold rp_in_range, rp_init; cbn [rp_win rp_last rp_rb_win rp_rb_last]. lia. Qed.

(* the verdicts of the repaired code are those of the RFC 8613 7.4 window, for every history *)
Theorem rp_window_exact : forall W b12 h,
  fst (rp_run rp_fixed W b12 rp_init h) = fst (rp_abs_run W b12 rp_abs_init h).
Proof.
  intros W b12 h. exact (proj1 (rp_run_refines W b12 h rp_init rp_abs_init rp_R_init)).
Qed.

(* ------------------------------------------------------------------ nonces of the replies *)

Lemma rp_reply_nonces_own_lb : forall h rs c n,
  In (RpNonceOwn n) (rp_reply_nonces true c h rs) -> c <= n.
Proof.
  induction h as [|m t IH]; intros rs c n Hin; [destruct Hin|].
  destruct rs as [|r rt]; [destruct Hin|]. cbn [rp_reply_nonces] in Hin.
  destruct (rp_m_kind m); [|apply IH in Hin; exact Hin].
  destruct (rp_reply_own_piv true r) as [[|]|].
  - destruct Hin as [Hn|Hin]; [inversion Hn; lia | apply IH in Hin; lia].
  - destruct Hin as [Hn|Hin]; [discriminate | apply IH in Hin; exact Hin].
  - apply IH in Hin; exact Hin.
Qed.

Lemma rp_reply_nonces_req_accepted : forall h rs c p,
  In (RpNonceReq p) (rp_reply_nonces true c h rs) -> In p (rp_accepted_of h rs).
Proof.
  induction h as [|m t IH]; intros rs c p Hin; [destruct Hin|].
  destruct rs as [|r rt]; [destruct Hin|]. cbn [rp_reply_nonces rp_accepted_of] in *.
  destruct (rp_m_kind m).
  - destruct r; cbn [rp_reply_own_piv rp_is_accept] in *;
      try (apply IH in Hin; exact Hin).
    + destruct Hin as [Hn|Hin]; [inversion Hn; left; reflexivity | right; apply IH in Hin; exact Hin].
    + destruct Hin as [Hn|Hin]; [discriminate | apply IH in Hin; exact Hin].
  - destruct (rp_is_accept r); [right|]; apply IH in Hin; exact Hin.
Qed.

Lemma rp_reply_nonces_nodup : forall h rs c,
  NoDup (rp_accepted_of h rs) -> NoDup (rp_reply_nonces true c h rs).
Proof.
  induction h as [|m t IH]; intros rs c Hnd; [constructor|].
  destruct rs as [|r rt]; [constructor|]. cbn [rp_reply_nonces rp_accepted_of] in *.
  destruct (rp_m_kind m).
  - destruct r; cbn [rp_reply_own_piv rp_is_accept] in *; try (apply IH; exact Hnd).
    + inversion Hnd as [|? ? Hnot Hnd']; subst. constructor; [|apply IH; exact Hnd'].
      intro Hin. apply rp_reply_nonces_req_accepted in Hin. contradiction.
    + constructor; [|apply IH; exact Hnd].
      intro Hin. apply rp_reply_nonces_own_lb in Hin. lia.
  - apply IH. destruct (rp_is_accept r); [inversion Hnd; assumption | exact Hnd].
Qed.

(* the recipient's Sender Key is never used twice with the same nonce for its replies: the
   request's nonce only for a request that is accepted (at most once), everything that can be
   sent again (the Echo challenge) under a fresh Partial IV of its own *)
Theorem rp_reply_nonces_unique : forall W b12 h c,
  NoDup (rp_reply_nonces true c h (fst (rp_run rp_fixed W b12 rp_init h))).
Proof.
  intros W b12 h c. apply rp_reply_nonces_nodup. exact (rp_at_most_once W b12 h).
Qed.

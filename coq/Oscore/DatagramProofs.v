(* Datagram level: the protected message of the reference, serialised for UDP and parsed again by
   the PDU codec (theorem of C01), verifies to the original message.  Needs that everything the
   reference produces consists of bytes. *)
From LibcoapV Require Import Base.Tactics Base.Bytes Base.BytesProofs Wire.OptCodec
  Wire.OptCodecProofs Wire.Pdu Wire.PduProofs Oscore.Aes128 Oscore.Ccm Oscore.CcmProofs
  Oscore.RangeProofs Oscore.Sha256 Oscore.Hkdf Oscore.Cbor Oscore.OscOption Oscore.OscOptionProofs
  Oscore.Protect Oscore.ProtectProofs.
Local Open Scope Z_scope.

(* ---- bytes everywhere ---- *)
Lemma osc_cbor_head_wfb mt v : 0 <= mt < 8 -> 0 <= v -> wfb (osc_cbor_head mt v).
Proof.
  intros Hm Hv. unfold osc_cbor_head, osc_cbor_be64.
  repeat case_if; unfold wfb, is_byte, be16, be32; cbn [app]; repeat constructor; lia.
Qed.

Lemma osc_cbor_bstr_wfb b : wfb b -> wfb (osc_cbor_bstr b).
Proof.
  intros H. unfold osc_cbor_bstr. apply wfb_app. split; [|exact H].
  apply osc_cbor_head_wfb; [lia|apply len_nonneg].
Qed.

Lemma osc_wfb_app2 a b : wfb a -> wfb b -> wfb (a ++ b).
Proof. intros. apply wfb_app. split; assumption. Qed.

Lemma osc_cbor_tstr_wfb b : wfb b -> wfb (osc_cbor_tstr b).
Proof.
  intros H. unfold osc_cbor_tstr. apply osc_wfb_app2; [|exact H].
  apply osc_cbor_head_wfb; [lia|apply len_nonneg].
Qed.

Lemma osc_external_aad_wfb kid piv : wfb kid -> wfb piv -> wfb (osc_external_aad OSC_ALG kid piv).
Proof.
  intros Hk Hp. unfold osc_external_aad, osc_cbor_array, osc_cbor_uint, osc_cbor_int, OSC_ALG.
  replace (10 <? 0) with false by reflexivity.
  apply osc_wfb_app2; [apply osc_cbor_head_wfb; lia|].
  apply osc_wfb_app2; [apply osc_cbor_head_wfb; lia|].
  apply osc_wfb_app2; [apply osc_cbor_head_wfb; lia|].
  apply osc_wfb_app2; [apply osc_cbor_head_wfb; lia|].
  apply osc_wfb_app2; [apply osc_cbor_bstr_wfb; exact Hk|].
  apply osc_wfb_app2; [apply osc_cbor_bstr_wfb; exact Hp|].
  apply osc_cbor_bstr_wfb. constructor.
Qed.

Lemma osc_aad_wfb kid piv : wfb kid -> wfb piv -> wfb (osc_aad OSC_ALG kid piv).
Proof.
  intros Hk Hp. unfold osc_aad, osc_cbor_array.
  apply osc_wfb_app2; [apply osc_cbor_head_wfb; lia|].
  apply osc_wfb_app2.
  { apply osc_cbor_tstr_wfb. unfold osc_str_encrypt0, wfb, is_byte. repeat constructor; lia. }
  apply osc_wfb_app2; [apply osc_cbor_bstr_wfb; constructor|].
  apply osc_cbor_bstr_wfb. apply osc_external_aad_wfb; assumption.
Qed.

Lemma osc_repeat0_wfb n : wfb (repeat 0 n).
Proof. induction n; cbn [repeat]; [constructor|]. apply wfb_cons. split; [unfold is_byte; lia|assumption]. Qed.

Lemma osc_nonce_wfb id piv iv :
  len id <= 255 -> wfb id -> wfb piv -> wfb iv -> wfb (osc_nonce id piv iv).
Proof.
  intros Hl Hi Hp Hv. unfold osc_nonce, osc_nonce_plain, osc_lpad. apply osc_xor_wfb; [|exact Hv].
  apply wfb_cons. split; [pose proof (len_nonneg id); unfold is_byte; lia|].
  repeat (apply wfb_app; split); try apply osc_repeat0_wfb; assumption.
Qed.

Lemma osc_opts_enc_wfb l : forall prev,
  0 <= prev -> ascending prev l -> Forall opt_wf l -> wfb (opts_enc prev l).
Proof.
  induction l as [|[n v] tl IH]; intros prev Hp Hasc Hwf; cbn [opts_enc]; [constructor|].
  cbn [ascending fst] in Hasc. destruct Hasc as [Hpn Hasc].
  inversion Hwf as [|? ? Ho Hwf']; subst. destruct Ho as (Hn & Hv & Hvb). cbn [fst snd] in *.
  apply wfb_app. split; [|apply IH; try assumption; lia].
  unfold opt_enc. apply wfb_app. split; [|exact Hvb].
  apply opt_hdr_wfb; [lia|]. pose proof (len_nonneg v). lia.
Qed.

Lemma osc_plaintext_wfb code inner payload :
  is_byte code -> ascending 0 inner -> Forall opt_wf inner -> wfb payload ->
  wfb (osc_plaintext code inner payload).
Proof.
  intros Hc Ha Hw Hp. unfold osc_plaintext. apply wfb_cons. split; [exact Hc|].
  apply wfb_app. split; [apply osc_opts_enc_wfb; try assumption; lia|].
  unfold payload_area. destruct payload; [constructor|].
  apply wfb_cons. split; [unfold is_byte, PAYLOAD_START; lia|exact Hp].
Qed.

Lemma osc_opt_encode_wfb piv kc kid :
  len piv <= 5 -> wfb piv ->
  match kc with Some c => wfb c /\ len c <= 255 | None => True end ->
  match kid with Some k => wfb k | None => True end ->
  wfb (osc_opt_encode piv kc kid).
Proof.
  intros Hl Hp Hc Hk. unfold osc_opt_encode. pose proof (len_nonneg piv).
  case_if; [constructor|]. apply wfb_cons. split.
  - unfold is_byte. destruct kc, kid; lia.
  - repeat (apply wfb_app; split); try assumption.
    + destruct kc as [c|]; [|constructor]. destruct Hc as [Hc1 Hc2].
      apply wfb_cons. split; [pose proof (len_nonneg c); unfold is_byte; lia|exact Hc1].
    + destruct kid; [exact Hk|constructor].
Qed.

Lemma osc_opt_encode_len piv kc kid :
  len (osc_opt_encode piv kc kid) <=
  1 + len piv + match kc with Some c => 1 + len c | None => 0 end
  + match kid with Some k => len k | None => 0 end.
Proof.
  unfold osc_opt_encode. pose proof (len_nonneg piv).
  destruct kc as [c|], kid as [k|]; try pose proof (len_nonneg c); try pose proof (len_nonneg k);
    case_if; rewrite ?len_cons, ?len_app, ?len_cons, ?len_nil; unfold len; cbn [length]; lia.
Qed.

(* ---- insertion keeps the list well formed ---- *)
Lemma osc_insert_ascending n v l : forall p,
  p <= n -> ascending p l -> ascending p (insert_opt n v l).
Proof.
  induction l as [|[k w] tl IH]; intros p Hp H; cbn [insert_opt].
  - cbn [ascending fst]. tauto.
  - cbn [ascending fst] in H. destruct H as [H1 H2]. destruct (k <=? n) eqn:E.
    + cbn [ascending fst]. split; [exact H1|]. apply IH; [lia|exact H2].
    + cbn [ascending fst]. repeat split; try lia. exact H2.
Qed.

Lemma osc_insert_forall (Q : opt -> Prop) n v l :
  Q (n, v) -> Forall Q l -> Forall Q (insert_opt n v l).
Proof.
  intros Hq H. induction l as [|[k w] tl IH]; cbn [insert_opt]; [repeat constructor; exact Hq|].
  inversion H; subst. destruct (k <=? n); constructor; auto.
Qed.

Lemma osc_forall_filter {A} (Q : A -> Prop) f l : Forall Q l -> Forall Q (filter f l).
Proof.
  intros H. apply Forall_forall. intros x Hx. apply filter_In in Hx. rewrite Forall_forall in H. apply H. tauto.
Qed.

Lemma osc_limits_base code code' l :
  code < 224 -> code' < 224 -> limits_ok code l = true -> limits_ok code' l = true.
Proof.
  intros H1 H2. unfold limits_ok, limit_ok.
  replace (224 <=? code) with false by lia. replace (224 <=? code') with false by lia. tauto.
Qed.

Lemma osc_limits_forall code l :
  limits_ok code l = true <-> Forall (fun o => limit_ok code (fst o) (len (snd o)) = true) l.
Proof. unfold limits_ok. rewrite forallb_forall, Forall_forall. tauto. Qed.

(* ---- the outer message of a protected request / response is a well-formed message ---- *)
Record osc_sec_bytes (c : osc_sec) : Prop := {
  sb_sid : wfb (sc_sid c) /\ len (sc_sid c) <= 7;
  sb_rid : wfb (sc_rid c) /\ len (sc_rid c) <= 7;
  sb_skey : wfb (sc_skey c);
  sb_iv : wfb (sc_iv c);
  sb_ctx : match sc_idctx c with Some x => wfb x /\ len x <= 240 | None => True end }.

Lemma osc_outer_wf (m : msg) code ov ct :
  msg_wf m -> m_code m < 224 -> 0 < code < 224 -> m_code m <> 0 ->
  wfb ov -> len ov <= 255 -> wfb ct ->
  msg_wf (mkMsg (m_type m) code (m_mid m) (m_token m)
            (insert_opt OSC_OPT ov (osc_outer_opts (m_opts m))) ct).
Proof.
  intros [Wt Wc Wm Wk [Wo Wa] Wl Wp We] Hc Hcode Hnz Hov Hol Hct.
  constructor; cbn [m_type m_code m_mid m_token m_opts m_payload]; try assumption; try lia.
  - split.
    + apply osc_insert_forall; [|apply osc_forall_filter; exact Wo].
      unfold opt_wf, OSC_OPT. cbn [fst snd]. repeat split; try lia. exact Hov.
    + apply osc_insert_ascending; [unfold OSC_OPT; lia|]. apply osc_ascending_filter. exact Wa.
  - apply osc_limits_forall. apply osc_insert_forall.
    + cbn [fst snd]. unfold limit_ok, OSC_OPT. replace (224 <=? code) with false by lia.
      unfold base_limit, in_range. pose proof (len_nonneg ov). lia.
    + apply osc_forall_filter. apply osc_limits_forall.
      apply (osc_limits_base (m_code m)); try lia. exact Wl.
Qed.

Theorem osc_request_datagram_roundtrip c s m seq :
  osc_paired c s -> osc_sec_bytes c -> msg_wf m -> osc_is_request (m_code m) = true ->
  osc_has OSC_OPT (m_opts m) = false -> osc_has 35 (m_opts m) = false ->
  0 <= seq < 1099511627776 ->
  exists o, osc_protect_req c m seq = Some o /\
            match parse UDP (serialize UDP o) with
            | Some o' => osc_unprotect_req s o'
            | None => None
            end = Some m.
Proof.
  intros Hpair [[Bs1 Bs2] [Br1 Br2] Bk Bi Bc] Hwf Hreq H9 H35 Hseq.
  assert (Hok : osc_msg_ok m).
  { destruct Hwf as [_ _ _ _ [Wo Wa] _ _ _]. repeat split; assumption. }
  assert (Hcok : osc_ctx_ok c).
  { unfold osc_ctx_ok. destruct (sc_idctx c); [destruct Bc; lia|exact I]. }
  destruct (osc_request_roundtrip c s m seq Hpair Hcok Hok Hseq) as (o & Hp & Hu).
  exists o. split; [exact Hp|].
  unfold osc_is_request in Hreq.
  assert (Hwo : msg_wf o).
  { unfold osc_protect_req in Hp. rewrite H9, H35 in Hp. cbn [orb] in Hp. inversion Hp. subst o. clear Hp.
    pose proof (osc_piv_bytes_len seq Hseq) as Lp. pose proof (osc_piv_bytes_wfb seq Hseq) as Wp.
    pose proof Hwf as Hwf2. destruct Hwf2 as [Wt Wc Wm Wk [Wo Wa] Wl Wpl We].
    apply (osc_outer_wf m _ _ _ Hwf); try lia.
    - destruct (osc_has OSC_OBSERVE (m_opts m)); lia.
    - apply osc_opt_encode_wfb; try assumption; try lia.
      destruct (sc_idctx c); [destruct Bc; split; [assumption|lia]|exact I].
    - pose proof (osc_opt_encode_len (osc_piv_bytes seq) (sc_idctx c) (Some (sc_sid c))) as L.
      destruct (sc_idctx c); [destruct Bc|]; lia.
    - destruct (osc_inner_wf true _ Wo Wa) as [Iw Ia].
      apply osc_ccm_enc_wfb; try assumption.
      + apply osc_nonce_wfb; try assumption. lia.
      + apply osc_aad_wfb; assumption.
      + apply osc_plaintext_wfb; try assumption. unfold is_byte. lia. }
  rewrite (parse_serialize UDP o Hwo). cbn [norm_fields]. exact Hu.
Qed.

Theorem osc_response_datagram_roundtrip c s m req_piv send_piv seq :
  osc_paired c s -> osc_sec_bytes s -> msg_wf m -> 64 <= m_code m < 224 ->
  osc_has OSC_OPT (m_opts m) = false -> osc_has 35 (m_opts m) = false ->
  wfb req_piv -> 0 <= seq < 1099511627776 ->
  exists o, osc_protect_resp s m req_piv send_piv seq = Some o /\
            match parse UDP (serialize UDP o) with
            | Some o' => osc_unprotect_resp c (m_token m) req_piv o'
            | None => None
            end = Some (osc_resp_view m (osc_resp_piv m send_piv seq)).
Proof.
  intros Hpair [[Bs1 Bs2] [Br1 Br2] Bk Bi Bc] Hwf Hcode H9 H35 Hrp Hseq.
  assert (Hok : osc_msg_ok m).
  { destruct Hwf as [_ _ _ _ [Wo Wa] _ _ _]. repeat split; assumption. }
  destruct (osc_response_roundtrip c s m req_piv send_piv seq Hpair Hok Hseq) as (o & Hp & Hu).
  exists o. split; [exact Hp|].
  assert (Hwo : msg_wf o).
  { unfold osc_protect_resp in Hp. rewrite H9, H35 in Hp. cbn [orb] in Hp. inversion Hp. subst o. clear Hp.
    pose proof (osc_piv_bytes_len seq Hseq) as Lp. pose proof (osc_piv_bytes_wfb seq Hseq) as Wp.
    pose proof Hwf as Hwf2. destruct Hwf2 as [Wt Wc Wm Wk [Wo Wa] Wl Wpl We].
    set (use := send_piv || osc_has OSC_OBSERVE (m_opts m)).
    assert (Wpiv : wfb (if use then osc_piv_bytes seq else []) /\ len (if use then osc_piv_bytes seq else []) <= 5).
    { destruct use; [split; [exact Wp|lia]|split; [constructor|unfold len; cbn [length]; lia]]. }
    destruct Wpiv as [Wpiv Lpiv].
    apply (osc_outer_wf m _ _ _ Hwf); try lia.
    - destruct (osc_has OSC_OBSERVE (m_opts m)); lia.
    - apply osc_opt_encode_wfb; try assumption; exact I.
    - pose proof (osc_opt_encode_len (if use then osc_piv_bytes seq else []) None None) as L. cbv beta iota in L.
      eapply Z.le_trans; [exact L|].
      match goal with |- 1 + ?t + 0 + 0 <= 255 => assert (t <= 5) by exact Lpiv end. lia.
    - destruct (osc_inner_wf false _ Wo Wa) as [Iw Ia].
      apply osc_ccm_enc_wfb; try assumption.
      + destruct use; apply osc_nonce_wfb; try assumption; lia.
      + apply osc_aad_wfb; assumption.
      + apply osc_plaintext_wfb; try assumption. unfold is_byte. lia. }
  rewrite (parse_serialize UDP o Hwo). cbn [norm_fields]. exact Hu.
Qed.

(* ---- derived contexts consist of bytes ---- *)
Lemma osc_sha256_wfb m : wfb (osc_sha256 m).
Proof.
  unfold osc_sha256, osc_st_bytes.
  destruct (fold_left osc_compress _ osc_h0) as [[[[[[[a b] c0] d] e] f] g] h].
  repeat (apply osc_wfb_app2; [apply osc_be32_wfb|]). apply osc_be32_wfb.
Qed.

Lemma osc_hmac_wfb k m : wfb (osc_hmac k m).
Proof. unfold osc_hmac. apply osc_sha256_wfb. Qed.

Lemma osc_hkdf_blocks_wfb n : forall prk info prev i, wfb (osc_hkdf_blocks n prk info prev i).
Proof.
  induction n as [|n IH]; intros; cbn [osc_hkdf_blocks]; [constructor|].
  apply osc_wfb_app2; [apply osc_hmac_wfb|apply IH].
Qed.

Lemma osc_hkdf_wfb salt ikm info l : wfb (osc_hkdf salt ikm info l).
Proof. unfold osc_hkdf, osc_hkdf_expand. apply wfb_take. apply osc_hkdf_blocks_wfb. Qed.

Theorem osc_derive_bytes secret salt idctx a b :
  wfb a -> len a <= 7 -> wfb b -> len b <= 7 ->
  match idctx with Some x => wfb x /\ len x <= 240 | None => True end ->
  osc_sec_bytes (osc_derive secret salt idctx a b).
Proof.
  intros Ha La Hb Lb Hc. unfold osc_derive.
  constructor; cbn [sc_sid sc_rid sc_skey sc_iv sc_idctx]; try (split; assumption);
    try apply osc_hkdf_wfb. exact Hc.
Qed.

(* non-vacuity of the hypotheses of the round-trip theorems: the RFC 8613 appendix C contexts and
   request meet all of them *)
From LibcoapV Require Import Oscore.Vectors.

Example osc_roundtrip_hypotheses_met :
  osc_paired osc_c1_client osc_c1_server /\ osc_ctx_ok osc_c3_client /\
  osc_sec_bytes osc_c3_client /\
  osc_msg_ok (osc_c_request 23839 [0; 0; 57; 116]) /\
  msg_wf (osc_c_request 23839 [0; 0; 57; 116]) /\
  osc_is_request (m_code (osc_c_request 23839 [0; 0; 57; 116])) = true.
Proof.
  split; [apply osc_derive_paired|].
  split; [unfold osc_ctx_ok; cbn; lia|].
  split.
  { apply osc_derive_bytes; try (unfold len; cbn; lia); try (unfold wfb, is_byte; repeat constructor; lia).
    split; [unfold wfb, is_byte, osc_c_idctx; repeat constructor; lia|unfold len; cbn; lia]. }
  assert (Hw : Forall opt_wf (m_opts (osc_c_request 23839 [0; 0; 57; 116]))).
  { cbn. repeat constructor; unfold len; cbn; try lia; unfold is_byte; lia. }
  assert (Ha : ascending 0 (m_opts (osc_c_request 23839 [0; 0; 57; 116]))) by (cbn; lia).
  split; [exact (conj Hw (conj Ha (conj eq_refl eq_refl)))|].
  split; [|reflexivity].
  constructor; cbn [osc_c_request m_type m_code m_mid m_token m_opts m_payload]; try lia.
  - split; [unfold len; cbn; lia|unfold wfb, is_byte; repeat constructor; lia].
  - split; assumption.
  - reflexivity.
  - constructor.
Qed.

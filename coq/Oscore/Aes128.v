(* AES-128 encryption (FIPS-197), written from the standard, over bytes = Z in [0,256).
   The state is the 16-byte list in input order (state[r][c] = in[r+4c]).
   The S-box is given as a table (a match on the byte value, generated from the FIPS-197
   definition: multiplicative inverse in GF(2^8) followed by the affine map); the FIPS-197
   appendix vectors are checked in Oscore/Vectors.v. *)
From Coq Require Import ZArith List.
From LibcoapV Require Import Base.Bytes.
Import ListNotations.
Local Open Scope Z_scope.

Definition osc_sbox (x : Z) : Z :=
  match x with
  | 0 => 99 | 1 => 124 | 2 => 119 | 3 => 123 | 4 => 242 | 5 => 107 | 6 => 111 | 7 => 197
  | 8 => 48 | 9 => 1 | 10 => 103 | 11 => 43 | 12 => 254 | 13 => 215 | 14 => 171 | 15 => 118
  | 16 => 202 | 17 => 130 | 18 => 201 | 19 => 125 | 20 => 250 | 21 => 89 | 22 => 71 | 23 => 240
  | 24 => 173 | 25 => 212 | 26 => 162 | 27 => 175 | 28 => 156 | 29 => 164 | 30 => 114 | 31 => 192
  | 32 => 183 | 33 => 253 | 34 => 147 | 35 => 38 | 36 => 54 | 37 => 63 | 38 => 247 | 39 => 204
  | 40 => 52 | 41 => 165 | 42 => 229 | 43 => 241 | 44 => 113 | 45 => 216 | 46 => 49 | 47 => 21
  | 48 => 4 | 49 => 199 | 50 => 35 | 51 => 195 | 52 => 24 | 53 => 150 | 54 => 5 | 55 => 154
  | 56 => 7 | 57 => 18 | 58 => 128 | 59 => 226 | 60 => 235 | 61 => 39 | 62 => 178 | 63 => 117
  | 64 => 9 | 65 => 131 | 66 => 44 | 67 => 26 | 68 => 27 | 69 => 110 | 70 => 90 | 71 => 160
  | 72 => 82 | 73 => 59 | 74 => 214 | 75 => 179 | 76 => 41 | 77 => 227 | 78 => 47 | 79 => 132
  | 80 => 83 | 81 => 209 | 82 => 0 | 83 => 237 | 84 => 32 | 85 => 252 | 86 => 177 | 87 => 91
  | 88 => 106 | 89 => 203 | 90 => 190 | 91 => 57 | 92 => 74 | 93 => 76 | 94 => 88 | 95 => 207
  | 96 => 208 | 97 => 239 | 98 => 170 | 99 => 251 | 100 => 67 | 101 => 77 | 102 => 51 | 103 => 133
  | 104 => 69 | 105 => 249 | 106 => 2 | 107 => 127 | 108 => 80 | 109 => 60 | 110 => 159 | 111 => 168
  | 112 => 81 | 113 => 163 | 114 => 64 | 115 => 143 | 116 => 146 | 117 => 157 | 118 => 56 | 119 => 245
  | 120 => 188 | 121 => 182 | 122 => 218 | 123 => 33 | 124 => 16 | 125 => 255 | 126 => 243 | 127 => 210
  | 128 => 205 | 129 => 12 | 130 => 19 | 131 => 236 | 132 => 95 | 133 => 151 | 134 => 68 | 135 => 23
  | 136 => 196 | 137 => 167 | 138 => 126 | 139 => 61 | 140 => 100 | 141 => 93 | 142 => 25 | 143 => 115
  | 144 => 96 | 145 => 129 | 146 => 79 | 147 => 220 | 148 => 34 | 149 => 42 | 150 => 144 | 151 => 136
  | 152 => 70 | 153 => 238 | 154 => 184 | 155 => 20 | 156 => 222 | 157 => 94 | 158 => 11 | 159 => 219
  | 160 => 224 | 161 => 50 | 162 => 58 | 163 => 10 | 164 => 73 | 165 => 6 | 166 => 36 | 167 => 92
  | 168 => 194 | 169 => 211 | 170 => 172 | 171 => 98 | 172 => 145 | 173 => 149 | 174 => 228 | 175 => 121
  | 176 => 231 | 177 => 200 | 178 => 55 | 179 => 109 | 180 => 141 | 181 => 213 | 182 => 78 | 183 => 169
  | 184 => 108 | 185 => 86 | 186 => 244 | 187 => 234 | 188 => 101 | 189 => 122 | 190 => 174 | 191 => 8
  | 192 => 186 | 193 => 120 | 194 => 37 | 195 => 46 | 196 => 28 | 197 => 166 | 198 => 180 | 199 => 198
  | 200 => 232 | 201 => 221 | 202 => 116 | 203 => 31 | 204 => 75 | 205 => 189 | 206 => 139 | 207 => 138
  | 208 => 112 | 209 => 62 | 210 => 181 | 211 => 102 | 212 => 72 | 213 => 3 | 214 => 246 | 215 => 14
  | 216 => 97 | 217 => 53 | 218 => 87 | 219 => 185 | 220 => 134 | 221 => 193 | 222 => 29 | 223 => 158
  | 224 => 225 | 225 => 248 | 226 => 152 | 227 => 17 | 228 => 105 | 229 => 217 | 230 => 142 | 231 => 148
  | 232 => 155 | 233 => 30 | 234 => 135 | 235 => 233 | 236 => 206 | 237 => 85 | 238 => 40 | 239 => 223
  | 240 => 140 | 241 => 161 | 242 => 137 | 243 => 13 | 244 => 191 | 245 => 230 | 246 => 66 | 247 => 104
  | 248 => 65 | 249 => 153 | 250 => 45 | 251 => 15 | 252 => 176 | 253 => 84 | 254 => 187 | 255 => 22
  | _ => 0
  end.

(* multiplication by x (02) in GF(2^8) modulo x^8+x^4+x^3+x+1 *)
Definition osc_xtime (x : Z) : Z :=
  if x <? 128 then 2 * x else Z.lxor (2 * x - 256) 27.

(* xor of two byte strings; the result has the length of the first, a shorter second argument
   counts as zero-extended (this is exactly the zero padding of CCM's last CBC-MAC block) *)
Fixpoint osc_xor (a b : bytes) : bytes :=
  match a with
  | [] => []
  | x :: a' =>
      match b with
      | [] => x :: osc_xor a' []
      | y :: b' => Z.lxor x y :: osc_xor a' b'
      end
  end.

Definition osc_sub_bytes (s : bytes) : bytes := map osc_sbox s.

(* row r is rotated left by r: new[r+4c] = old[r+4((c+r) mod 4)] *)
Definition osc_shift_idx : list nat :=
  [0; 5; 10; 15; 4; 9; 14; 3; 8; 13; 2; 7; 12; 1; 6; 11]%nat.
Definition osc_shift_rows (s : bytes) : bytes := map (fun i => nth i s 0) osc_shift_idx.

Fixpoint osc_mix_columns (s : bytes) : bytes :=
  match s with
  | a0 :: a1 :: a2 :: a3 :: tl =>
      let x0 := osc_xtime a0 in let x1 := osc_xtime a1 in
      let x2 := osc_xtime a2 in let x3 := osc_xtime a3 in
      Z.lxor (Z.lxor x0 (Z.lxor x1 a1)) (Z.lxor a2 a3)
      :: Z.lxor (Z.lxor a0 x1) (Z.lxor (Z.lxor x2 a2) a3)
      :: Z.lxor (Z.lxor a0 a1) (Z.lxor x2 (Z.lxor x3 a3))
      :: Z.lxor (Z.lxor (Z.lxor x0 a0) a1) (Z.lxor a2 x3)
      :: osc_mix_columns tl
  | _ => []
  end.

(* key expansion, one round key (16 bytes = words w[4i..4i+3]) from the previous one *)
Definition osc_next_rk (rk : bytes) (rcon : Z) : bytes :=
  match rk with
  | [k0; k1; k2; k3; k4; k5; k6; k7; k8; k9; k10; k11; k12; k13; k14; k15] =>
      let n0 := Z.lxor k0 (Z.lxor (osc_sbox k13) rcon) in
      let n1 := Z.lxor k1 (osc_sbox k14) in
      let n2 := Z.lxor k2 (osc_sbox k15) in
      let n3 := Z.lxor k3 (osc_sbox k12) in
      let n4 := Z.lxor k4 n0 in let n5 := Z.lxor k5 n1 in
      let n6 := Z.lxor k6 n2 in let n7 := Z.lxor k7 n3 in
      let n8 := Z.lxor k8 n4 in let n9 := Z.lxor k9 n5 in
      let n10 := Z.lxor k10 n6 in let n11 := Z.lxor k11 n7 in
      let n12 := Z.lxor k12 n8 in let n13 := Z.lxor k13 n9 in
      let n14 := Z.lxor k14 n10 in let n15 := Z.lxor k15 n11 in
      [n0; n1; n2; n3; n4; n5; n6; n7; n8; n9; n10; n11; n12; n13; n14; n15]
  | _ => rk
  end.

Definition osc_rcons : list Z := [1; 2; 4; 8; 16; 32; 64; 128; 27; 54].

(* round keys 1..10 following [rk] *)
Fixpoint osc_expand (rk : bytes) (rcons : list Z) : list bytes :=
  match rcons with
  | [] => []
  | rc :: tl => let nk := osc_next_rk rk rc in nk :: osc_expand nk tl
  end.

(* the 11 round keys *)
Definition osc_key_schedule (key : bytes) : list bytes := key :: osc_expand key osc_rcons.

(* rounds 1..Nr-1 use MixColumns, the last one does not; [rks] = remaining round keys *)
Fixpoint osc_rounds (s : bytes) (rks : list bytes) : bytes :=
  match rks with
  | [] => s
  | [rk] => osc_xor (osc_shift_rows (osc_sub_bytes s)) rk
  | rk :: tl => osc_rounds (osc_xor (osc_mix_columns (osc_shift_rows (osc_sub_bytes s))) rk) tl
  end.

(* cipher with a precomputed key schedule; the result always has 16 bytes
   (osc_shift_rows yields 16 values and osc_xor keeps the length of its first argument) *)
Definition osc_aes_rk (rks : list bytes) (blk : bytes) : bytes :=
  match rks with
  | [] => blk
  | rk0 :: tl => osc_rounds (osc_xor blk rk0) tl
  end.

Definition osc_aes128 (key blk : bytes) : bytes := osc_aes_rk (osc_key_schedule key) blk.

(* C15 - OSCORE sender sequence number and its persistence watermark.

   Transcribed from
     src/oscore/oscore_context.c  oscore_derive_ctx: next_seq = start - start % ssn_freq,
                                  seq = start (ssn_freq 0 is replaced by 1)
     src/coap_oscore.c            coap_oscore_new_pdu_encrypted_lkd: Partial IV = seq,
                                  oscore_increment_sender_seq, then
                                  if (seq > next_seq) { next_seq += ssn_freq; save(next_seq); }
     src/oscore/oscore.c          oscore_increment_sender_seq (seq++, fails above OSCORE_SEQ_MAX)

   Definitions only.  All global names carry the prefix ss_. *)
From Coq Require Import ZArith List Bool.
Import ListNotations.
Local Open Scope Z_scope.

Definition ss_seq_max : Z := 2 ^ 40 - 1.
Definition ss_two64 : Z := 2 ^ 64.     (* seq and next_seq are uint64_t *)

Record ss_state := { ss_seq : Z; ss_next : Z; ss_freq : Z }.

(* context creation with start_seq_num = start *)
Definition ss_init (freq start : Z) : ss_state :=
  let f := if freq >? 0 then freq else 1 in
  Build_ss_state start (start - start mod f) f.

(* what one call of coap_oscore_new_pdu_encrypted_lkd for a request does to the sender state:
   (Partial IV of the protected message if one is produced, value handed to the save callback
   if it is invoked, state afterwards) *)
Definition ss_protect (s : ss_state) : option Z * option Z * ss_state :=
  let piv := ss_seq s in
  let seq' := (ss_seq s + 1) mod ss_two64 in
  if seq' >? ss_seq_max then
    (* oscore_increment_sender_seq returns 0: goto error, nothing is sent.  (The Partial IV
       just used must be below OSCORE_SEQ_MAX, the bound of the recipient's check; since
       /repo 3381ec1 the last valid one, 2^40-2, is no longer refused.) *)
    (None, None, Build_ss_state seq' (ss_next s) (ss_freq s))
  else if seq' >? ss_next s then
    let n := (ss_next s + ss_freq s) mod ss_two64 in
    (Some piv, Some n, Build_ss_state seq' n (ss_freq s))
  else (Some piv, None, Build_ss_state seq' (ss_next s) (ss_freq s)).

(* a process: sender state + what the application has on stable storage (the last value
   handed to the save callback; the configured start value before the first call) *)
Record ss_sys := { ss_cur : ss_state; ss_saved : Z }.

(* protect a message, or crash and restart from storage (possibly with another ssn_freq) *)
Inductive ss_op := SsProtect | SsCrash (freq : Z).

Definition ss_boot (freq start : Z) : ss_sys := Build_ss_sys (ss_init freq start) start.

(* -> (PIV put on the wire, value saved, system afterwards) *)
Definition ss_step (y : ss_sys) (o : ss_op) : option Z * option Z * ss_sys :=
  match o with
  | SsProtect =>
    let '(piv, sv, s1) := ss_protect (ss_cur y) in
    (piv, sv, Build_ss_sys s1 (match sv with Some n => n | None => ss_saved y end))
  | SsCrash f => (None, None, ss_boot f (ss_saved y))
  end.

(* all Partial IVs put on the wire over a run, in order *)
Fixpoint ss_pivs (y : ss_sys) (ops : list ss_op) : list Z :=
  match ops with
  | [] => []
  | o :: t => let '(piv, _, y1) := ss_step y o in
              match piv with Some p => p :: ss_pivs y1 t | None => ss_pivs y1 t end
  end.

(* trace for the tie: per op "piv/saved" with -1 for none *)
Fixpoint ss_trace (y : ss_sys) (ops : list ss_op) : list (Z * Z) :=
  match ops with
  | [] => []
  | o :: t => let '(piv, sv, y1) := ss_step y o in
              (match piv with Some p => p | None => -1 end,
               match sv with Some n => n | None => -1 end) :: ss_trace y1 t
  end.

(* C08 - the bound under failing socket writes (NstartFail.v) *)
From LibcoapV Require Import Base.Tactics Nstart.Nstart Nstart.NstartProofs Nstart.NstartFail.
Local Open Scope Z_scope.

(* the part of the invariant that survives failing writes: the counter is exact and bounded
   (what is lost is quiescence: the flush loop stops at a failed write) *)
Record ns_winv (c : ns_cfg) (s : ns_st) : Prop := {
  wv_act : ns_act s = Z.of_nat (length (ns_sq s));
  wv_le : ns_act s <= ns_nstart c;
  wv_con : forallb ns_ncon (ns_sq s) = true;
  wv_est : ns_sq s <> [] -> ns_est s = true;
  wv_cnt : forallb ns_cnt0 (ns_dq s) = true;
  wv_closed : ns_open s = false -> ns_dq s = [] /\ ns_sq s = [] }.

Lemma ns_inv_winv c s : ns_inv c s -> ns_winv c s.
Proof. intros []. constructor; assumption. Qed.

Lemma ns_post_winv c s : ns_post c s 0 -> ns_winv c s.
Proof.
  intros ((Ho & Ha & Hl & Hc & Hd) & He & _).
  constructor; try assumption; try lia; intros; try assumption. congruence.
Qed.

Lemma ns_winv_pre c s : ns_winv c s -> ns_open s = true -> ns_pre c s 0.
Proof. intros [] Ho. unfold ns_pre. repeat split; try assumption; lia. Qed.

Lemma ns_winv_lg c o e a d q l l' :
  ns_winv c (ns_mkst o e a d q l) -> ns_winv c (ns_mkst o e a d q l').
Proof. intros []. constructor; assumption. Qed.

Lemma ns_remove_pre c s mid n q : ns_winv c s -> ns_open s = true ->
  ns_remove mid (ns_sq s) = Some (n, q) ->
  ns_pre c (ns_set_sq s q) 1 /\ ns_est s = true /\ ns_ncon n = true.
Proof.
  intros Hi Ho Hr. destruct (ns_remove_some _ _ _ _ Hr) as (L & _ & Hin & HP & _).
  destruct (HP ns_ncon (wv_con _ _ Hi)) as [Hn' Hq].
  split; [|split; [|exact Hn']].
  - destruct Hi. unfold ns_pre. ns_simp. repeat split; try assumption; lia.
  - apply (wv_est _ _ Hi). intro E. rewrite E in Hin. exact Hin.
Qed.

Lemma ns_remove_dec_winv c s mid n q : ns_wf c -> ns_winv c s -> ns_open s = true ->
  ns_remove mid (ns_sq s) = Some (n, q) ->
  ns_winv c (fst (ns_dec_drain c (ns_set_sq s q))).
Proof.
  intros Hwf Hi Ho Hr. destruct (ns_remove_pre c s mid n q Hi Ho Hr) as (Hp & He & _).
  apply ns_post_winv. apply ns_dec_drain_pre; [exact Hwf|exact Hp|exact He].
Qed.

(* the failure-free step keeps the weak invariant (it does not need quiescence) *)
Theorem ns_step_winv c s e : ns_wf c -> ns_winv c s -> ns_winv c (fst (ns_step c s e)).
Proof.
  intros Hwf Hi. pose proof Hwf as [Hfx Hn]. unfold ns_step.
  destruct (ns_open s) eqn:Ho; cbn [negb].
  2: { destruct e; exact Hi. }
  destruct e as [m|mid|mid|mid|tok| |r].
  - unfold ns_submit.
    destruct (negb (ns_est s) || ns_con m && (ns_nstart c <=? ns_act s)) eqn:Eh.
    + destruct (existsb _ (ns_dq s)); cbn [fst]; [exact Hi|].
      destruct Hi. constructor; ns_simp; try assumption; try congruence.
      rewrite forallb_app, wv_cnt0. reflexivity.
    + apply orb_false_iff in Eh. destruct Eh as [He Eh]. apply negb_false_iff in He.
      destruct (ns_con m) eqn:Ec; cbn [fst]; [|exact Hi].
      cbn [andb] in Eh. destruct Hi.
      assert (Hinc : ns_inc (ns_act s) = ns_act s + 1) by (apply ns_inc_small; lia).
      constructor; ns_simp; try assumption; try congruence.
      * rewrite Hinc, app_length. cbn [length]. lia.
      * lia.
      * rewrite forallb_app, wv_con0. unfold ns_ncon. cbn [forallb ns_nmsg]. rewrite Ec. reflexivity.
  - unfold ns_ack. destruct (ns_remove mid (ns_sq s)) as [[n q]|] eqn:Er; [|exact Hi].
    pose proof (ns_remove_dec_winv c s mid n q Hwf Hi Ho Er) as H.
    destruct (ns_dec_drain c (ns_set_sq s q)) as [s1 o]. cbn [fst] in *.
    destruct s1. eapply ns_winv_lg. exact H.
  - unfold ns_rst. rewrite Hfx.
    destruct (ns_remove mid (ns_sq s)) as [[n q]|] eqn:Er; [|exact Hi].
    destruct (ns_remove_pre c s mid n q Hi Ho Er) as (_ & _ & Hn'). rewrite Hn'.
    pose proof (ns_remove_dec_winv c s mid n q Hwf Hi Ho Er) as H.
    destruct (ns_dec_drain c (ns_set_sq s q)) as [s1 o]. exact H.
  - unfold ns_tick. destruct (ns_remove mid (ns_sq s)) as [[n q]|] eqn:Er; [|exact Hi].
    destruct (ns_remove_pre c s mid n q Hi Ho Er) as (_ & He & Hn').
    destruct (ns_remove_some _ _ _ _ Er) as (L & _).
    destruct (ns_cnt n <? ns_maxrt c).
    + rewrite He, Hn'. cbn [negb orb andb]. destruct Hi.
      destruct (ns_act s =? 0) eqn:E0; [lia|].
      destruct (ns_nstart c <=? ns_act s - 1) eqn:El; [lia|]. cbn [fst].
      destruct (ns_bump_props mid (ns_sq s)) as (B1 & B2 & B3).
      assert (Hinc : ns_inc (ns_act s - 1) = ns_act s) by (rewrite ns_inc_small; lia).
      rewrite Hinc. constructor; ns_simp; rewrite ?B1, ?B3; try assumption; try congruence;
        try (intros; reflexivity).
    + pose proof (ns_remove_dec_winv c s mid n q Hwf Hi Ho Er) as H.
      destruct (ns_dec_drain c (ns_set_sq s q)) as [s1 o]. exact H.
  - unfold ns_sep.
    set (p := fun n : ns_node => ns_tok (ns_nmsg n) =? tok).
    pose proof (ns_filter_split p (ns_sq s)) as Hlen.
    pose proof (ns_forallb_filter ns_ncon p (ns_sq s) (wv_con _ _ Hi)) as Hch.
    rewrite (ns_filter_all ns_ncon _ Hch).
    destruct (filter p (ns_sq s)) as [|h0 t0] eqn:Eh; unfold p in *; cbn beta in *.
    + cbn [length ns_dec_n fst]. cbn [length] in Hlen.
      destruct Hi. constructor; ns_simp; try assumption.
      * lia.
      * apply ns_forallb_filter. exact wv_con0.
      * intros Hne. apply wv_est0. intro E. rewrite E in Hne. apply Hne. reflexivity.
      * intros E. destruct (wv_closed0 E) as [A B]. rewrite B. split; [exact A|reflexivity].
    + assert (He : ns_est s = true).
      { apply (wv_est _ _ Hi). intro E. rewrite E in Eh. discriminate. }
      (* dec_n needs a post-state; build it by one explicit first round *)
      cbn [length ns_dec_n].
      assert (Hp : ns_pre c (ns_set_sq s (filter (fun n => negb (ns_tok (ns_nmsg n) =? tok)) (ns_sq s)))
                         (S (length t0))).
      { destruct Hi. unfold ns_pre. ns_simp. cbn [length] in Hlen.
        repeat split; try assumption; try lia. apply ns_forallb_filter. exact wv_con0. }
      pose proof (ns_dec_drain_pre c _ _ Hwf Hp He) as H1.
      destruct (ns_dec_drain c _) as [s1 o1]. cbn [fst] in H1.
      pose proof (ns_dec_n_pre c (length t0) Hwf s1 H1) as H2.
      destruct (ns_dec_n c (length t0) s1) as [s2 o2]. cbn [fst] in *.
      apply ns_post_winv. exact H2.
  - apply ns_post_winv. apply ns_connected_pre; [exact Hwf|]. apply ns_winv_pre; assumption.
  - unfold ns_fail. destruct (r =? ns_ICMP); cbn [fst]; [exact Hi|].
    constructor; cbn [ns_open ns_est ns_act ns_dq ns_sq length forallb]; try reflexivity;
      try lia; try tauto; try (intros H; exfalso; apply H; reflexivity).
Qed.

(* ---- the flush whose first write fails ---- *)
Lemma nsf_connected_pre c s k : ns_wf c -> ns_pre c s k ->
  ns_pre c (fst (fst (nsf_connected c s))) k /\ ns_est (fst (fst (nsf_connected c s))) = true.
Proof.
  intros [Hfx Hn] (Ho & Ha & Hl & Hc & Hd). unfold nsf_connected.
  destruct (ns_dq s) as [|q rest] eqn:Ed.
  - cbn [fst]. unfold ns_pre. ns_simp. repeat split; assumption.
  - cbn [forallb] in Hd. apply andb_true_iff in Hd. destruct Hd as [Hq Hr].
    destruct (ns_ncon q) eqn:Eq.
    + destruct (ns_nstart c <=? ns_act s) eqn:El; cbn [fst]; unfold ns_pre; ns_simp.
      * cbn [forallb]. rewrite Hq, Hr. repeat split; assumption.
      * assert (Hinc : ns_inc (ns_act s) = ns_act s + 1) by (apply ns_inc_small; lia).
        rewrite Hinc, app_length, forallb_app, Hc. cbn [length forallb]. rewrite Eq.
        repeat split; try assumption; try reflexivity; lia.
    + cbn [fst]. unfold ns_pre. ns_simp. repeat split; assumption.
Qed.

Lemma nsf_dec_drain_pre c s k : ns_wf c -> ns_pre c s (S k) -> ns_est s = true ->
  ns_pre c (fst (fst (nsf_dec_drain c s))) k /\ ns_est (fst (fst (nsf_dec_drain c s))) = true.
Proof.
  intros Hwf (Ho & Ha & Hl & Hc & Hd) He. unfold nsf_dec_drain.
  destruct (ns_act s =? 0) eqn:E0; [lia|]. ns_simp. rewrite He.
  apply nsf_connected_pre; [exact Hwf|].
  unfold ns_pre. ns_simp. repeat split; try assumption; lia.
Qed.

Lemma ns_pre_est_winv c s : ns_pre c s 0 -> ns_est s = true -> ns_winv c s.
Proof.
  intros (Ho & Ha & Hl & Hc & Hd) He.
  constructor; try assumption; try lia; intros; try assumption. congruence.
Qed.

Lemma nsf_dec_n_pre c k : ns_wf c -> forall s fl, ns_pre c s k -> ns_est s = true ->
  ns_pre c (fst (fst (nsf_dec_n c k s fl))) 0 /\ ns_est (fst (fst (nsf_dec_n c k s fl))) = true.
Proof.
  intros Hwf. induction k as [|k IH]; intros s fl Hp He; [split; assumption|].
  cbn [nsf_dec_n]. destruct fl.
  - pose proof (nsf_dec_drain_pre c s k Hwf Hp He) as [H1 H2].
    destruct (nsf_dec_drain c s) as [[s1 o1] used]. cbn [fst] in *.
    specialize (IH s1 (negb used) H1 H2).
    destruct (nsf_dec_n c k s1 (negb used)) as [[s2 o2] fl2]. exact IH.
  - pose proof (ns_dec_drain_pre c s k Hwf Hp He) as (H1 & H2 & _).
    destruct (ns_dec_drain c s) as [s1 o1]. cbn [fst] in *.
    specialize (IH s1 false H1 H2).
    destruct (nsf_dec_n c k s1 false) as [[s2 o2] fl2]. exact IH.
Qed.

Lemma nsf_remove_dec_winv c s mid n q : ns_wf c -> ns_winv c s -> ns_open s = true ->
  ns_remove mid (ns_sq s) = Some (n, q) ->
  ns_winv c (fst (fst (nsf_dec_drain c (ns_set_sq s q)))).
Proof.
  intros Hwf Hi Ho Hr. destruct (ns_remove_pre c s mid n q Hi Ho Hr) as (Hp & He & _).
  destruct (nsf_dec_drain_pre c _ 0 Hwf Hp He) as [H1 H2].
  apply ns_pre_est_winv; assumption.
Qed.

Theorem nsf_step_fail_winv c s e : ns_wf c -> ns_winv c s ->
  ns_winv c (fst (fst (nsf_step_fail c s e))).
Proof.
  intros Hwf Hi. pose proof Hwf as [Hfx Hn]. unfold nsf_step_fail.
  destruct (ns_open s) eqn:Ho; cbn [negb].
  2: { destruct e; exact Hi. }
  destruct e as [m|mid|mid|mid|tok| |r].
  - destruct (negb (ns_est s) || ns_con m && (ns_nstart c <=? ns_act s)) eqn:Eh; [|exact Hi].
    pose proof (ns_step_winv c s (NsSubmit m) Hwf Hi) as H.
    unfold ns_step in H. rewrite Ho in H. cbn [negb] in H.
    destruct (ns_submit c s m) as [s' o]. exact H.
  - destruct (ns_remove mid (ns_sq s)) as [[n q]|] eqn:Er; [|exact Hi].
    pose proof (nsf_remove_dec_winv c s mid n q Hwf Hi Ho Er) as H.
    destruct (nsf_dec_drain c (ns_set_sq s q)) as [[s1 o] used]. cbn [fst] in *.
    destruct s1. eapply ns_winv_lg. exact H.
  - rewrite Hfx. destruct (ns_remove mid (ns_sq s)) as [[n q]|] eqn:Er; [|exact Hi].
    destruct (ns_remove_pre c s mid n q Hi Ho Er) as (_ & _ & Hn'). rewrite Hn'.
    pose proof (nsf_remove_dec_winv c s mid n q Hwf Hi Ho Er) as H.
    destruct (nsf_dec_drain c (ns_set_sq s q)) as [[s1 o] used]. exact H.
  - destruct (ns_remove mid (ns_sq s)) as [[n q]|] eqn:Er; [|exact Hi].
    destruct (ns_remove_pre c s mid n q Hi Ho Er) as (_ & He & Hn').
    destruct (ns_remove_some _ _ _ _ Er) as (L & _).
    destruct (ns_cnt n <? ns_maxrt c).
    + rewrite He, Hn', Hfx. cbn [negb orb andb]. destruct Hi.
      destruct (ns_act s =? 0) eqn:E0; [lia|].
      destruct (ns_nstart c <=? ns_act s - 1) eqn:El; [lia|]. cbn [fst negb].
      destruct (ns_bump_props mid (ns_sq s)) as (B1 & B2 & B3).
      replace (ns_act s - 1 + 1) with (ns_act s) by lia.
      constructor; ns_simp; rewrite ?B1, ?B3; try assumption; try congruence;
        try (intros; reflexivity).
    + pose proof (nsf_remove_dec_winv c s mid n q Hwf Hi Ho Er) as H.
      destruct (nsf_dec_drain c (ns_set_sq s q)) as [[s1 o] used]. exact H.
  - set (p := fun n : ns_node => ns_tok (ns_nmsg n) =? tok).
    pose proof (ns_filter_split p (ns_sq s)) as Hlen.
    pose proof (ns_forallb_filter ns_ncon p (ns_sq s) (wv_con _ _ Hi)) as Hch.
    rewrite (ns_filter_all ns_ncon _ Hch).
    destruct (filter p (ns_sq s)) as [|h0 t0] eqn:Eh; unfold p in *; cbn beta in *.
    + cbn [length nsf_dec_n fst]. cbn [length] in Hlen.
      destruct Hi. constructor; ns_simp; try assumption.
      * lia.
      * apply ns_forallb_filter. exact wv_con0.
      * intros Hne. apply wv_est0. intro E. rewrite E in Hne. apply Hne. reflexivity.
      * intros E. destruct (wv_closed0 E) as [A B]. rewrite B. split; [exact A|reflexivity].
    + assert (He : ns_est s = true).
      { apply (wv_est _ _ Hi). intro E. rewrite E in Eh. discriminate. }
      match goal with |- context [nsf_dec_n c ?k ?st true] =>
        assert (Hp : ns_pre c st k) end.
      { destruct Hi. unfold ns_pre. ns_simp. repeat split; try assumption; try lia.
        apply ns_forallb_filter. exact wv_con0. }
      destruct (nsf_dec_n_pre c _ Hwf _ true Hp He) as [H1 H2].
      apply ns_pre_est_winv; assumption.
  - pose proof (nsf_connected_pre c s 0 Hwf (ns_winv_pre c s Hi Ho)) as [H1 H2].
    destruct (nsf_connected c s) as [[s' o] used]. cbn [fst] in *.
    apply ns_pre_est_winv; assumption.
  - pose proof (ns_step_winv c s (NsFail r) Hwf Hi) as H.
    unfold ns_step in H. rewrite Ho in H. cbn [negb] in H.
    destruct (ns_fail c s r) as [s' o]. exact H.
Qed.

Theorem nsf_step_winv c x ev : ns_wf c -> ns_winv c (nsf_s x) ->
  ns_winv c (nsf_s (fst (nsf_step c x ev))).
Proof.
  intros Hwf Hi. unfold nsf_step. destruct ev as [e|]; [|exact Hi].
  destruct (nsf_wfail x).
  - pose proof (nsf_step_fail_winv c (nsf_s x) e Hwf Hi) as H.
    destruct (nsf_step_fail c (nsf_s x) e) as [[s' o] fl]. exact H.
  - pose proof (ns_step_winv c (nsf_s x) e Hwf Hi) as H.
    destruct (ns_step c (nsf_s x) e) as [s' o]. exact H.
Qed.

(* the bound holds whatever socket writes fail *)
Theorem nsf_bound c est0 evs : ns_wf c ->
  let s := nsf_s (nsf_run c (nsf_init est0) evs) in
  ns_act s = Z.of_nat (length (ns_sq s)) /\ forallb ns_ncon (ns_sq s) = true /\
  Z.of_nat (length (ns_sq s)) <= ns_nstart c /\ forallb ns_cnt0 (ns_dq s) = true.
Proof.
  intros Hwf. cbn zeta.
  assert (H : forall evs x, ns_winv c (nsf_s x) -> ns_winv c (nsf_s (nsf_run c x evs))).
  { induction evs0 as [|e r IH]; intros x Hx; [exact Hx|]. cbn [nsf_run]. apply IH.
    apply nsf_step_winv; assumption. }
  pose proof (H evs (nsf_init est0) (ns_inv_winv c _ (ns_init_inv c est0 Hwf))) as Hi.
  destruct Hi. repeat split; try assumption. lia.
Qed.

(* without failing writes the extension is the session machine itself, so every theorem about
   ns_run / ns_trace is a theorem about this machine *)
Theorem nsf_no_err c : forall evs x, nsf_wfail x = false ->
  nsf_s (nsf_run c x (map NsfEv evs)) = ns_run c (nsf_s x) evs /\
  map snd (nsf_trace c x (map NsfEv evs)) = map snd (ns_trace c (nsf_s x) evs).
Proof.
  induction evs as [|e r IH]; intros x Hx; [split; reflexivity|].
  cbn [map nsf_run nsf_trace ns_run ns_trace].
  assert (E : nsf_step c x (NsfEv e) =
              (nsf_mk (fst (ns_step c (nsf_s x) e)) false, snd (ns_step c (nsf_s x) e))).
  { unfold nsf_step. rewrite Hx. destruct (ns_step c (nsf_s x) e); reflexivity. }
  rewrite E. cbn [fst].
  destruct (ns_step c (nsf_s x) e) as [s' o]. cbn [fst snd].
  destruct (IH (nsf_mk s' false) eq_refl) as [A B]. cbn [nsf_s] in *.
  split; [exact A|]. cbn [map snd]. rewrite B. reflexivity.
Qed.

(* the code as found: a retransmission whose write fails gives its slot away although it stays
   in the send queue - two CONs in flight with NSTART = 1 *)
Definition nsf_witness : list nsf_ev :=
  [NsfEv (NsSubmit (ns_mkmsg true 1 11)); NsfErr; NsfEv (NsTick 1);
   NsfEv (NsSubmit (ns_mkmsg true 2 12))].

Lemma nsf_bound_refuted_found :
  exists evs,
    let x := nsf_run ns_cfg_found (nsf_init true) evs in
    let t := nsf_trace ns_cfg_found (nsf_init true) evs in
    map ns_nmid (ns_sq (nsf_s x)) = [1; 2] /\ forallb ns_ncon (ns_sq (nsf_s x)) = true /\
    ns_act (nsf_s x) = 1 /\
    Z.of_nat (length (ns_sq (nsf_s x))) > ns_nstart ns_cfg_found /\
    nsb_run ns_cfg_found (nsb_mk true true []) t 0 = Some 3.
Proof. exists nsf_witness. vm_compute. repeat split. Qed.

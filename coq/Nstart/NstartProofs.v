(* C08 - proofs about the session machine of Nstart.v *)
From LibcoapV Require Import Base.Tactics Nstart.Nstart.
Local Open Scope Z_scope.

(* ---------------------------------------------------------------- the code as found *)
Definition ns_cfg_found : ns_cfg := ns_mkcfg 1 4 true false true.
Definition ns_witness : list ns_ev :=
  [NsSubmit (ns_mkmsg true 1 11); NsSubmit (ns_mkmsg false 2 12); NsSubmit (ns_mkmsg true 3 13);
   NsRst 2].

(* Reset of a NON that the peer received: two CONs in flight with NSTART = 1 *)
Lemma ns_bound_refuted_found :
  exists evs,
    let t := ns_trace ns_cfg_found (ns_init true) evs in
    let s := ns_run ns_cfg_found (ns_init true) evs in
    ns_peer_ok [] t = true /\ NoDup (ns_sub_mids evs) /\
    ns_accepts ns_cfg_found true t = false /\
    map ns_nmid (ns_sq s) = [1; 3] /\ forallb ns_ncon (ns_sq s) = true /\
    map ns_mid (ns_txs (flat_map snd t)) = [1; 2; 3] /\
    Z.of_nat (length (ns_sq s)) > ns_nstart ns_cfg_found.
Proof.
  exists ns_witness. vm_compute. repeat split; try reflexivity.
  repeat constructor; simpl; intuition discriminate.
Qed.

(* A delayed multicast response (server side) is sent by coap_retransmit(): as found it did
   "if (con_active) con_active--" for that node too, then coap_session_connected().  The node is
   never a CON, nothing took the slot again. *)
Definition ns_mcast_found (c : ns_cfg) (s : ns_st) : ns_st * list ns_out :=
  ns_connected c (ns_set_act s (if ns_act s =? 0 then 0 else ns_act s - 1)).

Lemma ns_mcast_refuted_found :
  let c := ns_mkcfg 1 4 true false false in
  let s := ns_run c (ns_init true) [NsSubmit (ns_mkmsg true 1 11); NsSubmit (ns_mkmsg true 2 12)] in
  map ns_nmid (ns_sq s) = [1] /\ map ns_nmid (ns_dq s) = [2] /\
  snd (ns_mcast_found c s) = [NsTx (ns_mkmsg true 2 12)] /\
  map ns_nmid (ns_sq (fst (ns_mcast_found c s))) = [1; 2] /\
  Z.of_nat (length (ns_sq (fst (ns_mcast_found c s)))) > ns_nstart c /\
  (* repaired: the event is the flush of an established session and does nothing here *)
  ns_step (ns_mkcfg 1 4 true true false) s NsUp = (s, []).
Proof. vm_compute. repeat split. Qed.

(* ---------------------------------------------------------------- the repaired code *)
Definition ns_wf (c : ns_cfg) : Prop := ns_fixed c = true /\ 0 <= ns_nstart c <= 255.

Definition ns_quiet (c : ns_cfg) (act : Z) (dq : list ns_node) : Prop :=
  match dq with
  | [] => True
  | q :: _ => ns_ncon q = true /\ act = ns_nstart c
  end.

Definition ns_cnt0 (q : ns_node) : bool := ns_cnt q =? 0.

Record ns_inv (c : ns_cfg) (s : ns_st) : Prop := {
  iv_act : ns_act s = Z.of_nat (length (ns_sq s));
  iv_le : ns_act s <= ns_nstart c;
  iv_con : forallb ns_ncon (ns_sq s) = true;
  iv_est : ns_sq s <> [] -> ns_est s = true;
  iv_cnt : forallb ns_cnt0 (ns_dq s) = true;
  iv_qui : ns_est s = true -> ns_quiet c (ns_act s) (ns_dq s);
  iv_closed : ns_open s = false -> ns_dq s = [] /\ ns_sq s = [] }.

Lemma ns_inc_small a : 0 <= a < 255 -> ns_inc a = a + 1.
Proof. intros. unfold ns_inc. apply Z.mod_small. lia. Qed.

(* what one run of the drain loop does *)
Lemma ns_drain_spec c : ns_wf c -> forall dq act a r snt o,
  0 <= act <= ns_nstart c -> forallb ns_cnt0 dq = true ->
  ns_drain c act dq = (a, r, snt, o) ->
  a = act + Z.of_nat (length snt) /\ a <= ns_nstart c /\
  forallb ns_ncon snt = true /\ forallb ns_cnt0 r = true /\ ns_quiet c a r /\
  map ns_nmsg dq = ns_txs o ++ map ns_nmsg r /\
  o = map NsTx (ns_txs o) /\
  map ns_nmsg snt = filter ns_con (ns_txs o).
Proof.
  intros [Hfx Hn]. induction dq as [|q rest IH]; intros act a r snt o Ha Hc H.
  - cbn in H. inversion H; subst. cbn. repeat split; try reflexivity; lia.
  - cbn [ns_drain] in H. cbn [forallb] in Hc. apply andb_true_iff in Hc. destruct Hc as [Hq Hr].
    destruct (ns_ncon q) eqn:Eq.
    + destruct (ns_nstart c <=? act) eqn:El.
      * inversion H; subst. cbn [length ns_txs flat_map app map filter forallb ns_quiet].
        rewrite Hq, Hr, Eq.
        repeat split; try reflexivity; lia.
      * destruct (ns_drain c (ns_inc act) rest) as [[[a' r'] s'] o'] eqn:Ed.
        unfold ns_cnt0 in Hq. rewrite Hq in H. inversion H; subst. clear H.
        assert (Hi : ns_inc act = act + 1) by (apply ns_inc_small; lia).
        rewrite Hi in Ed.
        destruct (IH (act + 1) a r s' o' ltac:(lia) Hr Ed) as (A1 & A2 & A3 & A4 & A5 & A6 & A7 & A8).
        cbn [length ns_txs flat_map app map filter forallb].
        fold (ns_txs o'). rewrite Eq. unfold ns_ncon in Eq. rewrite Eq. cbn [filter map andb].
        rewrite A6, <- A7, <- A8.
        repeat split; try reflexivity; try assumption; lia.
    + destruct (ns_drain c act rest) as [[[a' r'] s'] o'] eqn:Ed.
      inversion H; subst. clear H.
      destruct (IH act a r snt o' Ha Hr Ed) as (A1 & A2 & A3 & A4 & A5 & A6 & A7 & A8).
      cbn [length ns_txs flat_map app map filter].
      fold (ns_txs o'). unfold ns_ncon in Eq. rewrite Eq.
      rewrite A6, <- A7, <- A8.
      repeat split; try reflexivity; try assumption.
Qed.

(* ---- list helpers ---- *)
Lemma ns_remove_some mid l n l' :
  ns_remove mid l = Some (n, l') ->
  length l = S (length l') /\ ns_nmid n = mid /\ In n l /\
  (forall P, forallb P l = true -> P n = true /\ forallb P l' = true) /\
  map ns_nmsg l' = ns_rm_mid mid (map ns_nmsg l) /\
  (forall x, In x l' -> In x l).
Proof.
  revert n l'. induction l as [|h t IH]; intros n l' H; [discriminate|].
  cbn [ns_remove] in H. destruct (ns_nmid h =? mid) eqn:E.
  - inversion H; subst. cbn [length map ns_rm_mid]. pose proof E as E'. unfold ns_nmid in E'.
    rewrite E'.
    split; [reflexivity|]. split; [lia|]. split; [left; reflexivity|].
    split; [|split; [reflexivity|intros x Hx; right; exact Hx]].
    intros P HP. cbn [forallb] in HP. apply andb_true_iff in HP. exact HP.
  - destruct (ns_remove mid t) as [[x r']|] eqn:Er; [|discriminate].
    inversion H; subst. destruct (IH n r' eq_refl) as (A1 & A2 & A3 & A4 & A5 & A6).
    cbn [length map ns_rm_mid]. pose proof E as E'. unfold ns_nmid in E'. rewrite E'.
    split; [lia|]. split; [exact A2|]. split; [right; exact A3|].
    split; [|split; [rewrite A5; reflexivity|]].
    + intros P HP. cbn [forallb] in HP. apply andb_true_iff in HP. destruct HP as [H1 H2].
      destruct (A4 P H2) as [B1 B2]. split; [exact B1|]. cbn [forallb]. rewrite H1, B2. reflexivity.
    + intros y [Hy|Hy]; [left; exact Hy|right; apply A6; exact Hy].
Qed.

Lemma ns_remove_none mid l :
  ns_remove mid l = None ->
  ns_rm_mid mid (map ns_nmsg l) = map ns_nmsg l /\ (forall n, In n l -> ns_nmid n <> mid).
Proof.
  induction l as [|h t IH]; intros H; [split; [reflexivity|intros n []]|].
  cbn [ns_remove] in H. destruct (ns_nmid h =? mid) eqn:E; [discriminate|].
  destruct (ns_remove mid t) as [[x r']|] eqn:Er; [discriminate|].
  destruct (IH eq_refl) as [A1 A2]. cbn [map ns_rm_mid]. unfold ns_nmid in E. rewrite E, A1.
  split; [reflexivity|]. intros n [Hn|Hn]; [subst; unfold ns_nmid; lia|apply A2; exact Hn].
Qed.

Lemma ns_bump_props mid l :
  length (ns_bump mid l) = length l /\ map ns_nmsg (ns_bump mid l) = map ns_nmsg l /\
  forallb ns_ncon (ns_bump mid l) = forallb ns_ncon l.
Proof.
  induction l as [|h t (A1 & A2 & A3)]; [repeat split|].
  cbn [ns_bump]. destruct (ns_nmid h =? mid); cbn [length map forallb ns_nmsg].
  - repeat split.
  - rewrite A1, A2. unfold ns_ncon in *. cbn [ns_nmsg]. rewrite A3. repeat split.
Qed.

Lemma ns_filter_split {A} (p : A -> bool) l :
  (length (filter p l) + length (filter (fun x => negb (p x)) l))%nat = length l.
Proof.
  induction l as [|h t IH]; [reflexivity|]. cbn [filter]. destruct (p h); cbn [negb length]; lia.
Qed.

Lemma ns_forallb_filter {A} (p q : A -> bool) l :
  forallb p l = true -> forallb p (filter q l) = true.
Proof.
  induction l as [|h t IH]; [reflexivity|]. cbn [forallb filter]. intros H.
  apply andb_true_iff in H. destruct H as [H1 H2]. destruct (q h); cbn [forallb];
  [rewrite H1|]; auto.
Qed.

Lemma ns_filter_all {A} (p : A -> bool) l : forallb p l = true -> filter p l = l.
Proof.
  induction l as [|h t IH]; [reflexivity|]. cbn [forallb filter]. intros H.
  apply andb_true_iff in H. destruct H as [H1 H2]. rewrite H1, IH; auto.
Qed.

Ltac ns_simp := cbn [ns_set_act ns_set_sq ns_open ns_est ns_act ns_dq ns_sq ns_lg fst snd] in *.

(* ---- the invariant is kept by every event ---- *)
Definition ns_pre (c : ns_cfg) (s : ns_st) (k : nat) : Prop :=
  ns_open s = true /\ ns_act s = Z.of_nat (length (ns_sq s)) + Z.of_nat k /\
  ns_act s <= ns_nstart c /\ forallb ns_ncon (ns_sq s) = true /\
  forallb ns_cnt0 (ns_dq s) = true.

Definition ns_post (c : ns_cfg) (s : ns_st) (k : nat) : Prop :=
  ns_pre c s k /\ ns_est s = true /\ ns_quiet c (ns_act s) (ns_dq s).

Lemma ns_connected_pre c s k : ns_wf c -> ns_pre c s k ->
  ns_post c (fst (ns_connected c s)) k.
Proof.
  intros Hwf (Ho & Ha & Hl & Hc & Hd). unfold ns_connected.
  destruct (ns_drain c (ns_act s) (ns_dq s)) as [[[a r] snt] o] eqn:E. cbn [fst].
  assert (Hr : 0 <= ns_act s <= ns_nstart c) by lia.
  destruct (ns_drain_spec c Hwf _ _ _ _ _ _ Hr Hd E) as (A1 & A2 & A3 & A4 & A5 & _).
  unfold ns_post, ns_pre. cbn [ns_open ns_act ns_sq ns_dq ns_est].
  rewrite app_length, forallb_app, Hc, A3. repeat split; try assumption; try reflexivity; lia.
Qed.

Lemma ns_dec_drain_pre c s k : ns_wf c -> ns_pre c s (S k) -> ns_est s = true ->
  ns_post c (fst (ns_dec_drain c s)) k.
Proof.
  intros Hwf (Ho & Ha & Hl & Hc & Hd) He. unfold ns_dec_drain.
  destruct (ns_act s =? 0) eqn:E0; [lia|].
  cbn [ns_set_act ns_est]. rewrite He.
  apply ns_connected_pre; [exact Hwf|].
  unfold ns_pre. ns_simp. repeat split; try assumption; lia.
Qed.

Lemma ns_dec_n_pre c k : ns_wf c -> forall s, ns_post c s k -> ns_post c (fst (ns_dec_n c k s)) 0.
Proof.
  intros Hwf. induction k as [|k IH]; intros s H; [exact H|].
  cbn [ns_dec_n]. destruct H as (Hp & He & _).
  pose proof (ns_dec_drain_pre c s k Hwf Hp He) as H1.
  destruct (ns_dec_drain c s) as [s1 o1]. cbn [fst] in H1.
  specialize (IH s1 H1). destruct (ns_dec_n c k s1) as [s2 o2]. exact IH.
Qed.

Lemma ns_post_inv c s : ns_wf c -> ns_post c s 0 -> ns_inv c s.
Proof.
  intros Hwf ((Ho & Ha & Hl & Hc & Hd) & He & Hq).
  constructor; try assumption; try lia; intros; try assumption. congruence.
Qed.

Lemma ns_inv_pre c s : ns_inv c s -> ns_open s = true -> ns_pre c s 0.
Proof.
  intros [] Ho. unfold ns_pre. repeat split; try assumption; lia.
Qed.

Lemma ns_inv_lg c o e a d q l l' :
  ns_inv c (ns_mkst o e a d q l) -> ns_inv c (ns_mkst o e a d q l').
Proof. intros []. constructor; assumption. Qed.

Lemma ns_inv_act_pos c s : ns_inv c s -> 0 <= ns_act s.
Proof. intros []. lia. Qed.

Lemma ns_remove_dec_inv c s mid n q : ns_wf c -> ns_inv c s -> ns_open s = true ->
  ns_remove mid (ns_sq s) = Some (n, q) ->
  ns_inv c (fst (ns_dec_drain c (ns_set_sq s q))).
Proof.
  intros Hwf Hi Ho Hr. destruct (ns_remove_some _ _ _ _ Hr) as (L & _ & Hin & HP & _).
  apply ns_post_inv; [exact Hwf|]. apply ns_dec_drain_pre; [exact Hwf| |].
  - destruct Hi. unfold ns_pre. cbn [ns_set_sq ns_open ns_act ns_sq ns_dq].
    repeat split; try assumption; try lia. apply (HP ns_ncon iv_con0).
  - cbn [ns_set_sq ns_est]. apply (iv_est _ _ Hi). intro E. rewrite E in Hin. exact Hin.
Qed.

Theorem ns_step_inv c s e : ns_wf c -> ns_inv c s -> ns_inv c (fst (ns_step c s e)).
Proof.
  intros Hwf Hi. pose proof Hwf as [Hfx Hn]. unfold ns_step.
  destruct (ns_open s) eqn:Ho; cbn [negb].
  2: { destruct e; exact Hi. }
  destruct e as [m|mid|mid|mid|tok| |r].
  - (* submit *)
    unfold ns_submit.
    destruct (negb (ns_est s) || ns_con m && (ns_nstart c <=? ns_act s)) eqn:Eh.
    + destruct (existsb _ (ns_dq s)); cbn [fst]; [exact Hi|].
      destruct Hi. constructor; cbn [ns_open ns_est ns_act ns_dq ns_sq]; try assumption.
      * rewrite forallb_app, iv_cnt0. reflexivity.
      * intros He. specialize (iv_qui0 He). rewrite He in Eh. cbn [negb orb] in Eh.
        destruct (ns_dq s) as [|q0 t]; cbn [app ns_quiet] in *; [|exact iv_qui0].
        unfold ns_ncon. cbn [ns_nmsg]. split; [|lia]. destruct (ns_con m); [reflexivity|discriminate].
      * congruence.
    + apply orb_false_iff in Eh. destruct Eh as [He Eh]. apply negb_false_iff in He.
      destruct (ns_con m) eqn:Ec; cbn [fst]; [|exact Hi].
      cbn [andb] in Eh. destruct Hi.
      assert (Hinc : ns_inc (ns_act s) = ns_act s + 1) by (apply ns_inc_small; lia).
      constructor; cbn [ns_open ns_est ns_act ns_dq ns_sq]; try assumption; try congruence.
      * rewrite Hinc, app_length. cbn [length]. lia.
      * lia.
      * rewrite forallb_app, iv_con0. unfold ns_ncon. cbn [forallb ns_nmsg]. rewrite Ec. reflexivity.
      * intros _. specialize (iv_qui0 He). destruct (ns_dq s); cbn [ns_quiet] in *; [exact I|lia].
  - (* ack *)
    unfold ns_ack. destruct (ns_remove mid (ns_sq s)) as [[n q]|] eqn:Er; [|exact Hi].
    pose proof (ns_remove_dec_inv c s mid n q Hwf Hi Ho Er) as H.
    destruct (ns_dec_drain c (ns_set_sq s q)) as [s1 o]. cbn [fst] in *.
    destruct s1. eapply ns_inv_lg. exact H.
  - (* rst *)
    unfold ns_rst. rewrite Hfx.
    destruct (ns_remove mid (ns_sq s)) as [[n q]|] eqn:Er; [|exact Hi].
    destruct (ns_remove_some _ _ _ _ Er) as (_ & _ & _ & HP & _).
    destruct (HP ns_ncon (iv_con _ _ Hi)) as [Hn' _]. rewrite Hn'.
    pose proof (ns_remove_dec_inv c s mid n q Hwf Hi Ho Er) as H.
    destruct (ns_dec_drain c (ns_set_sq s q)) as [s1 o]. exact H.
  - (* tick *)
    unfold ns_tick. destruct (ns_remove mid (ns_sq s)) as [[n q]|] eqn:Er; [|exact Hi].
    destruct (ns_remove_some _ _ _ _ Er) as (L & _ & Hin & HP & _).
    destruct (HP ns_ncon (iv_con _ _ Hi)) as [Hn' _].
    assert (He : ns_est s = true).
    { apply (iv_est _ _ Hi). intro E. rewrite E in Hin. exact Hin. }
    destruct (ns_cnt n <? ns_maxrt c).
    + rewrite He, Hn'. cbn [negb orb andb].
      destruct Hi.
      assert (Ha : ns_act s >= 1) by lia.
      destruct (ns_act s =? 0) eqn:E0; [lia|].
      destruct (ns_nstart c <=? ns_act s - 1) eqn:El; [lia|]. cbn [fst].
      destruct (ns_bump_props mid (ns_sq s)) as (B1 & B2 & B3).
      assert (Hinc : ns_inc (ns_act s - 1) = ns_act s) by (rewrite ns_inc_small; lia).
      rewrite Hinc. constructor; ns_simp; rewrite ?B1, ?B3; try assumption; try congruence;
        try (intros; reflexivity). intros _. apply iv_qui0. exact He.
    + pose proof (ns_remove_dec_inv c s mid n q Hwf Hi Ho Er) as H.
      destruct (ns_dec_drain c (ns_set_sq s q)) as [s1 o]. exact H.
  - (* separate response: cancel by token *)
    unfold ns_sep.
    set (p := fun n : ns_node => ns_tok (ns_nmsg n) =? tok).
    pose proof (ns_filter_split p (ns_sq s)) as Hlen.
    pose proof (ns_forallb_filter ns_ncon p (ns_sq s) (iv_con _ _ Hi)) as Hch.
    rewrite (ns_filter_all ns_ncon _ Hch).
    destruct (filter p (ns_sq s)) as [|h0 t0] eqn:Eh; unfold p in *; cbn beta in *.
    + cbn [length ns_dec_n fst]. cbn [length] in Hlen.
      destruct Hi. constructor; cbn [ns_set_sq ns_open ns_est ns_act ns_dq ns_sq]; try assumption.
      * lia.
      * apply ns_forallb_filter. exact iv_con0.
      * intros Hne. apply iv_est0. intro E. rewrite E in Hne. apply Hne. reflexivity.
      * intros E. destruct (iv_closed0 E) as [A B]. rewrite B. split; [exact A|reflexivity].
    + apply ns_post_inv; [exact Hwf|]. apply ns_dec_n_pre; [exact Hwf|].
      assert (He : ns_est s = true).
      { apply (iv_est _ _ Hi). intro E. rewrite E in Eh. discriminate. }
      destruct Hi. unfold ns_post, ns_pre. cbn [ns_set_sq ns_open ns_est ns_act ns_dq ns_sq].
      repeat split; try assumption; try lia.
      * apply ns_forallb_filter. exact iv_con0.
      * apply iv_qui0. exact He.
  - (* up *)
    apply ns_post_inv; [exact Hwf|]. apply ns_connected_pre; [exact Hwf|].
    apply ns_inv_pre; assumption.
  - (* fail *)
    unfold ns_fail. destruct (r =? ns_ICMP); cbn [fst]; [exact Hi|].
    constructor; cbn [ns_open ns_est ns_act ns_dq ns_sq length forallb ns_quiet]; try reflexivity;
      try lia; try tauto; try (intros H; exfalso; apply H; reflexivity).
Qed.

Lemma ns_init_inv c e : ns_wf c -> ns_inv c (ns_init e).
Proof.
  intros [_ Hn]. constructor; cbn; try reflexivity; try lia; try tauto; try discriminate;
    try (intros H; exfalso; apply H; reflexivity).
Qed.

Theorem ns_run_inv c : ns_wf c -> forall evs s, ns_inv c s -> ns_inv c (ns_run c s evs).
Proof.
  intros Hwf. induction evs as [|e r IH]; intros s Hi; [exact Hi|].
  cbn [ns_run]. apply IH. apply ns_step_inv; assumption.
Qed.

(* ---------------------------------------------------------------- FIFO, exactly once *)
(* messages accepted by coap_send() but not transmitted inside that call, in submission order *)
Definition ns_held (t : list (ns_ev * list ns_out)) : list ns_msg :=
  flat_map (fun eo => match fst eo with
                      | NsSubmit m =>
                        if ns_accepted (snd eo) && (match ns_txs (snd eo) with [] => true | _ => false end)
                        then [m] else []
                      | _ => []
                      end) t.

(* messages leaving the delay queue (first transmission, or discarded by a disconnect) *)
Definition ns_reltx (o : list ns_out) : list ns_msg :=
  flat_map (fun x => match x with NsTx m => [m] | NsDrop m => [m] | _ => [] end) o.

Definition ns_released (t : list (ns_ev * list ns_out)) : list ns_msg :=
  flat_map (fun eo => match fst eo with NsSubmit _ => [] | _ => ns_reltx (snd eo) end) t.

Lemma ns_reltx_app a b : ns_reltx (a ++ b) = ns_reltx a ++ ns_reltx b.
Proof. unfold ns_reltx. apply flat_map_app. Qed.

Lemma ns_txs_app a b : ns_txs (a ++ b) = ns_txs a ++ ns_txs b.
Proof. unfold ns_txs. apply flat_map_app. Qed.

Lemma ns_reltx_maptx l : ns_reltx (map NsTx l) = l.
Proof. induction l as [|h t IH]; [reflexivity|]. cbn. f_equal. exact IH. Qed.

Lemma ns_txs_maptx l : ns_txs (map NsTx l) = l.
Proof. induction l as [|h t IH]; [reflexivity|]. cbn. f_equal. exact IH. Qed.

Lemma ns_connected_rel c s k : ns_wf c -> ns_pre c s k ->
  ns_reltx (snd (ns_connected c s)) ++ map ns_nmsg (ns_dq (fst (ns_connected c s))) =
  map ns_nmsg (ns_dq s).
Proof.
  intros Hwf (Ho & Ha & Hl & Hc & Hd). unfold ns_connected.
  destruct (ns_drain c (ns_act s) (ns_dq s)) as [[[a r] snt] o] eqn:E. ns_simp.
  assert (Hr : 0 <= ns_act s <= ns_nstart c) by lia.
  destruct (ns_drain_spec c Hwf _ _ _ _ _ _ Hr Hd E) as (_ & _ & _ & _ & _ & A6 & A7 & _).
  rewrite A7, ns_reltx_maptx. symmetry. exact A6.
Qed.

Lemma ns_dec_drain_rel c s k : ns_wf c -> ns_pre c s (S k) ->
  ns_reltx (snd (ns_dec_drain c s)) ++ map ns_nmsg (ns_dq (fst (ns_dec_drain c s))) =
  map ns_nmsg (ns_dq s).
Proof.
  intros Hwf (Ho & Ha & Hl & Hc & Hd). unfold ns_dec_drain.
  destruct (ns_act s =? 0); [reflexivity|]. ns_simp.
  destruct (ns_est s); [|reflexivity].
  rewrite (ns_connected_rel c _ k Hwf); [reflexivity|].
  unfold ns_pre. ns_simp. repeat split; try assumption; lia.
Qed.

Lemma ns_dec_n_rel c k : ns_wf c -> forall s, ns_post c s k ->
  ns_reltx (snd (ns_dec_n c k s)) ++ map ns_nmsg (ns_dq (fst (ns_dec_n c k s))) =
  map ns_nmsg (ns_dq s).
Proof.
  intros Hwf. induction k as [|k IH]; intros s H; [reflexivity|].
  cbn [ns_dec_n]. destruct H as (Hp & He & _).
  pose proof (ns_dec_drain_pre c s k Hwf Hp He) as H1.
  pose proof (ns_dec_drain_rel c s k Hwf Hp) as H2.
  destruct (ns_dec_drain c s) as [s1 o1]. ns_simp.
  specialize (IH s1 H1). destruct (ns_dec_n c k s1) as [s2 o2]. ns_simp.
  rewrite ns_reltx_app, <- app_assoc, IH. exact H2.
Qed.

Lemma ns_nacks_reltx r l : ns_reltx (ns_nacks r l) = [].
Proof.
  induction l as [|h t IH]; [reflexivity|]. unfold ns_nacks in *. cbn [flat_map].
  rewrite ns_reltx_app, IH. destruct (ns_ncon h); reflexivity.
Qed.

Lemma ns_drops_reltx r l : ns_reltx (ns_drops r l) = map ns_nmsg l.
Proof.
  induction l as [|h t IH]; [reflexivity|]. unfold ns_drops in *. cbn [flat_map map].
  rewrite ns_reltx_app, IH. destruct (ns_ncon h); reflexivity.
Qed.

(* one event: what left the delay queue, followed by what is still in it, is what was in it -
   plus the message just submitted if it was held *)
Lemma ns_step_rel c s e : ns_wf c -> ns_inv c s ->
  match e with
  | NsSubmit m =>
    map ns_nmsg (ns_dq (fst (ns_step c s e))) =
    map ns_nmsg (ns_dq s) ++ ns_held [(e, snd (ns_step c s e))]
  | _ =>
    ns_reltx (snd (ns_step c s e)) ++ map ns_nmsg (ns_dq (fst (ns_step c s e))) =
    map ns_nmsg (ns_dq s)
  end.
Proof.
  intros Hwf Hi. pose proof Hwf as [Hfx Hn]. unfold ns_step.
  destruct (ns_open s) eqn:Ho; cbn [negb].
  2: { destruct e; ns_simp; try reflexivity. cbn. rewrite app_nil_r. reflexivity. }
  destruct e as [m|mid|mid|mid|tok| |r].
  - unfold ns_submit, ns_held.
    destruct (negb (ns_est s) || ns_con m && (ns_nstart c <=? ns_act s)).
    + destruct (existsb _ (ns_dq s)); ns_simp; cbn; rewrite ?app_nil_r; try reflexivity.
      rewrite map_app. reflexivity.
    + destruct (ns_con m); ns_simp; cbn; rewrite app_nil_r; reflexivity.
  - unfold ns_ack. destruct (ns_remove mid (ns_sq s)) as [[n q]|] eqn:Er; [|reflexivity].
    destruct (ns_remove_some _ _ _ _ Er) as (L & _ & _ & HP & _).
    assert (Hp : ns_pre c (ns_set_sq s q) 1).
    { destruct Hi. unfold ns_pre. ns_simp. repeat split; try assumption; try lia.
      apply (HP ns_ncon iv_con0). }
    pose proof (ns_dec_drain_rel c _ 0 Hwf Hp) as H.
    destruct (ns_dec_drain c (ns_set_sq s q)) as [s1 o]. ns_simp. exact H.
  - unfold ns_rst. rewrite Hfx.
    destruct (ns_remove mid (ns_sq s)) as [[n q]|] eqn:Er; [|reflexivity].
    destruct (ns_remove_some _ _ _ _ Er) as (L & _ & _ & HP & _).
    destruct (HP ns_ncon (iv_con _ _ Hi)) as [Hn' Hq]. rewrite Hn'.
    assert (Hp : ns_pre c (ns_set_sq s q) 1).
    { destruct Hi. unfold ns_pre. ns_simp. repeat split; try assumption; lia. }
    pose proof (ns_dec_drain_rel c _ 0 Hwf Hp) as H.
    destruct (ns_dec_drain c (ns_set_sq s q)) as [s1 o]. ns_simp.
    rewrite ns_reltx_app. cbn [ns_reltx flat_map]. rewrite app_nil_r. exact H.
  - unfold ns_tick. destruct (ns_remove mid (ns_sq s)) as [[n q]|] eqn:Er; [|reflexivity].
    destruct (ns_remove_some _ _ _ _ Er) as (L & _ & Hin & HP & _).
    destruct (HP ns_ncon (iv_con _ _ Hi)) as [Hn' Hq].
    assert (He : ns_est s = true).
    { apply (iv_est _ _ Hi). intro E. rewrite E in Hin. exact Hin. }
    destruct (ns_cnt n <? ns_maxrt c).
    + rewrite He, Hn'. cbn [negb orb andb]. destruct Hi.
      destruct (ns_act s =? 0) eqn:E0; [lia|].
      destruct (ns_nstart c <=? ns_act s - 1) eqn:El; [lia|]. reflexivity.
    + assert (Hp : ns_pre c (ns_set_sq s q) 1).
      { destruct Hi. unfold ns_pre. ns_simp. repeat split; try assumption; lia. }
      pose proof (ns_dec_drain_rel c _ 0 Hwf Hp) as H.
      destruct (ns_dec_drain c (ns_set_sq s q)) as [s1 o]. ns_simp. rewrite Hn'.
      rewrite ns_reltx_app. cbn [ns_reltx flat_map]. rewrite app_nil_r. exact H.
  - unfold ns_sep.
    set (p := fun n : ns_node => ns_tok (ns_nmsg n) =? tok).
    pose proof (ns_filter_split p (ns_sq s)) as Hlen.
    pose proof (ns_forallb_filter ns_ncon p (ns_sq s) (iv_con _ _ Hi)) as Hch.
    rewrite (ns_filter_all ns_ncon _ Hch).
    destruct (filter p (ns_sq s)) as [|h0 t0] eqn:Eh; unfold p in *; cbn beta in *; [reflexivity|].
    assert (He : ns_est s = true).
    { apply (iv_est _ _ Hi). intro E. rewrite E in Eh. discriminate. }
    match goal with |- context [ns_dec_n c ?k ?st] =>
      assert (Hpost : ns_post c st k) end.
    { destruct Hi. unfold ns_post, ns_pre. ns_simp.
      repeat split; try assumption; try lia.
      + apply ns_forallb_filter. exact iv_con0.
      + apply iv_qui0. exact He. }
    pose proof (ns_dec_n_rel c _ Hwf _ Hpost) as H. ns_simp. exact H.
  - apply (ns_connected_rel c s 0 Hwf). apply ns_inv_pre; assumption.
  - unfold ns_fail. destruct (r =? ns_ICMP); ns_simp.
    + destruct (ns_sq s); [destruct (ns_lg s)|]; reflexivity.
    + rewrite !ns_reltx_app, ns_drops_reltx, ns_nacks_reltx.
      destruct (ns_sq s) as [|n0 t0]; [|destruct (negb (ns_ncon n0))];
      cbn [ns_reltx flat_map app map orb]; rewrite ?app_nil_r;
      destruct (filter ns_ncon (ns_dq s)); destruct (ns_lg s); cbn; rewrite ?app_nil_r; reflexivity.
Qed.

Lemma ns_trace_cons c s e r :
  ns_trace c s (e :: r) = (e, snd (ns_step c s e)) :: ns_trace c (fst (ns_step c s e)) r.
Proof. cbn [ns_trace]. destruct (ns_step c s e). reflexivity. Qed.

Theorem ns_fifo_once c : ns_wf c -> forall evs s, ns_inv c s ->
  ns_released (ns_trace c s evs) ++ map ns_nmsg (ns_dq (ns_run c s evs)) =
  map ns_nmsg (ns_dq s) ++ ns_held (ns_trace c s evs).
Proof.
  intros Hwf. induction evs as [|e r IH]; intros s Hi.
  - cbn. rewrite app_nil_r. reflexivity.
  - rewrite ns_trace_cons. cbn [ns_run]. unfold ns_released, ns_held in *. cbn [flat_map fst snd].
    pose proof (ns_step_rel c s e Hwf Hi) as H.
    pose proof (ns_step_inv c s e Hwf Hi) as Hi'.
    specialize (IH _ Hi').
    destruct e; rewrite <- ?app_assoc, IH;
      try (rewrite app_assoc, H; reflexivity).
    cbn [app]. rewrite H. unfold ns_held. cbn [flat_map fst snd]. rewrite app_nil_r, <- app_assoc.
    reflexivity.
Qed.

(* ---------------------------------------------------------------- each message at most once *)
Definition ns_cm (x : Z) (l : list ns_msg) : nat := count_occ Z.eq_dec (map ns_mid l) x.

Lemma ns_cm_app x a b : ns_cm x (a ++ b) = (ns_cm x a + ns_cm x b)%nat.
Proof. unfold ns_cm. rewrite map_app. apply count_occ_app. Qed.

Lemma ns_cm_txs_reltx x o : (ns_cm x (ns_txs o) <= ns_cm x (ns_reltx o))%nat.
Proof.
  induction o as [|h t IH]; [apply le_n|].
  replace (ns_txs (h :: t)) with (ns_txs [h] ++ ns_txs t) by (cbn; rewrite app_nil_r; reflexivity).
  replace (ns_reltx (h :: t)) with (ns_reltx [h] ++ ns_reltx t)
    by (cbn; rewrite app_nil_r; reflexivity).
  rewrite !ns_cm_app. destruct h; cbn [ns_txs ns_reltx flat_map app]; try lia.
  unfold ns_cm at 1. cbn [map count_occ]. lia.
Qed.

Lemma ns_submit_budget c s m x :
  (ns_cm x (ns_txs (snd (ns_step c s (NsSubmit m)))) +
   ns_cm x (ns_held [(NsSubmit m, snd (ns_step c s (NsSubmit m)))])
   <= (if Z.eq_dec (ns_mid m) x then 1 else 0))%nat.
Proof.
  unfold ns_step, ns_submit, ns_held.
  destruct (ns_open s); cbn [negb].
  2: { cbn. destruct (Z.eq_dec (ns_mid m) x); lia. }
  destruct (negb (ns_est s) || ns_con m && (ns_nstart c <=? ns_act s)).
  - destruct (existsb _ (ns_dq s)); cbn; unfold ns_cm; cbn [map count_occ];
      destruct (Z.eq_dec (ns_mid m) x); lia.
  - destruct (ns_con m); cbn; unfold ns_cm; cbn [map count_occ];
      destruct (Z.eq_dec (ns_mid m) x); lia.
Qed.

Lemma ns_flat_snd_cons {A B} (e : A) (o : list B) t :
  flat_map snd ((e, o) :: t) = o ++ flat_map snd t.
Proof. reflexivity. Qed.

Theorem ns_tx_budget c : ns_wf c -> forall x evs s, ns_inv c s ->
  (ns_cm x (ns_txs (flat_map snd (ns_trace c s evs))) +
   ns_cm x (map ns_nmsg (ns_dq (ns_run c s evs)))
   <= ns_cm x (map ns_nmsg (ns_dq s)) + count_occ Z.eq_dec (ns_sub_mids evs) x)%nat.
Proof.
  intros Hwf x. induction evs as [|e r IH]; intros s Hi.
  - cbn. lia.
  - rewrite ns_trace_cons, ns_flat_snd_cons, ns_txs_app, ns_cm_app. cbn [ns_run].
    pose proof (ns_step_rel c s e Hwf Hi) as H.
    pose proof (ns_step_inv c s e Hwf Hi) as Hi'.
    specialize (IH _ Hi').
    destruct e as [m|mid|mid|mid|tok| |rr];
      try (cbn [ns_sub_mids];
           match goal with |- context [snd (ns_step ?c ?s ?e)] =>
             pose proof (ns_cm_txs_reltx x (snd (ns_step c s e))) as Hle end;
           apply (f_equal (ns_cm x)) in H; rewrite ns_cm_app in H; lia).
    cbn [ns_sub_mids count_occ].
    pose proof (ns_submit_budget c s m x) as Hb.
    apply (f_equal (ns_cm x)) in H. rewrite ns_cm_app in H.
    destruct (Z.eq_dec (ns_mid m) x); lia.
Qed.

Theorem ns_tx_once c : ns_wf c -> forall est0 evs,
  NoDup (ns_sub_mids evs) ->
  NoDup (map ns_mid (ns_txs (flat_map snd (ns_trace c (ns_init est0) evs)))).
Proof.
  intros Hwf est0 evs Hnd. apply (NoDup_count_occ Z.eq_dec). intros x.
  pose proof (ns_tx_budget c Hwf x evs (ns_init est0) (ns_init_inv c est0 Hwf)) as H.
  rewrite (NoDup_count_occ Z.eq_dec) in Hnd. specialize (Hnd x).
  unfold ns_cm in H. cbn [ns_init ns_dq map count_occ] in H. lia.
Qed.

(* ---------------------------------------------------------------- exact shape of a release *)
(* [ns_rel s s' base txs]: the messages [txs] left the head of the delay queue in order, the
   CONs among them joined the send queue (whose other entries are [base]) *)
Definition ns_rel (s s' : ns_st) (base : list ns_node) (txs : list ns_msg) : Prop :=
  ns_open s' = ns_open s /\
  map ns_nmsg (ns_dq s) = txs ++ map ns_nmsg (ns_dq s') /\
  map ns_nmsg (ns_sq s') = map ns_nmsg base ++ filter ns_con txs.

Lemma ns_connected_char c s k : ns_wf c -> ns_pre c s k ->
  exists txs, snd (ns_connected c s) = map NsTx txs /\
              ns_rel s (fst (ns_connected c s)) (ns_sq s) txs.
Proof.
  intros Hwf (Ho & Ha & Hl & Hc & Hd). unfold ns_connected.
  destruct (ns_drain c (ns_act s) (ns_dq s)) as [[[a r] snt] o] eqn:E. ns_simp.
  assert (Hr : 0 <= ns_act s <= ns_nstart c) by lia.
  destruct (ns_drain_spec c Hwf _ _ _ _ _ _ Hr Hd E) as (_ & _ & _ & _ & _ & A6 & A7 & A8).
  exists (ns_txs o). unfold ns_rel. ns_simp. rewrite map_app, A8.
  repeat split; try assumption; reflexivity.
Qed.

Lemma ns_dec_drain_char c s k : ns_wf c -> ns_pre c s (S k) -> ns_est s = true ->
  exists txs, snd (ns_dec_drain c s) = map NsTx txs /\
              ns_rel s (fst (ns_dec_drain c s)) (ns_sq s) txs.
Proof.
  intros Hwf (Ho & Ha & Hl & Hc & Hd) He. unfold ns_dec_drain.
  destruct (ns_act s =? 0) eqn:E0; [lia|]. ns_simp. rewrite He.
  assert (Hp : ns_pre c (ns_set_act s (ns_act s - 1)) k).
  { unfold ns_pre. ns_simp. repeat split; try assumption; lia. }
  destruct (ns_connected_char c _ k Hwf Hp) as (txs & A1 & A2).
  exists txs. split; [exact A1|]. unfold ns_rel in *. ns_simp. exact A2.
Qed.

Lemma ns_rel_trans s s1 s2 base t1 t2 :
  ns_rel s s1 base t1 -> ns_rel s1 s2 (ns_sq s1) t2 -> ns_rel s s2 base (t1 ++ t2).
Proof.
  intros (A1 & A2 & A3) (B1 & B2 & B3). unfold ns_rel.
  rewrite B1, A1, A2, B2, B3, A3, filter_app, <- !app_assoc. repeat split.
Qed.

Lemma ns_dec_n_char c k : ns_wf c -> forall s, ns_post c s k ->
  exists txs, snd (ns_dec_n c k s) = map NsTx txs /\
              ns_rel s (fst (ns_dec_n c k s)) (ns_sq s) txs.
Proof.
  intros Hwf. induction k as [|k IH]; intros s H.
  - exists []. split; [reflexivity|]. unfold ns_rel. cbn. rewrite app_nil_r. repeat split.
  - cbn [ns_dec_n]. destruct H as (Hp & He & _).
    pose proof (ns_dec_drain_pre c s k Hwf Hp He) as H1.
    destruct (ns_dec_drain_char c s k Hwf Hp He) as (t1 & A1 & A2).
    destruct (ns_dec_drain c s) as [s1 o1]. ns_simp.
    destruct (IH s1 H1) as (t2 & B1 & B2). destruct (ns_dec_n c k s1) as [s2 o2]. ns_simp.
    exists (t1 ++ t2). rewrite A1, B1, map_app. split; [reflexivity|].
    eapply ns_rel_trans; eassumption.
Qed.

(* removal of one node, slot released, queue flushed: ACK, RST, give-up *)
Lemma ns_remove_dec_char c s mid n q : ns_wf c -> ns_inv c s -> ns_open s = true ->
  ns_remove mid (ns_sq s) = Some (n, q) ->
  exists txs, snd (ns_dec_drain c (ns_set_sq s q)) = map NsTx txs /\
              ns_rel s (fst (ns_dec_drain c (ns_set_sq s q))) q txs.
Proof.
  intros Hwf Hi Ho Hr. destruct (ns_remove_some _ _ _ _ Hr) as (L & _ & Hin & HP & _).
  assert (Hp : ns_pre c (ns_set_sq s q) 1).
  { destruct Hi. unfold ns_pre. ns_simp. repeat split; try assumption; try lia.
    apply (HP ns_ncon iv_con0). }
  assert (He : ns_est (ns_set_sq s q) = true).
  { ns_simp. apply (iv_est _ _ Hi). intro E. rewrite E in Hin. exact Hin. }
  destruct (ns_dec_drain_char c _ 0 Hwf Hp He) as (txs & A1 & A2).
  exists txs. split; [exact A1|]. unfold ns_rel in *. ns_simp. exact A2.
Qed.

Lemma ns_remove_dec_est c s mid n q : ns_wf c -> ns_inv c s -> ns_open s = true ->
  ns_remove mid (ns_sq s) = Some (n, q) ->
  ns_est (fst (ns_dec_drain c (ns_set_sq s q))) = true /\ ns_est s = true /\ ns_ncon n = true.
Proof.
  intros Hwf Hi Ho Hr. destruct (ns_remove_some _ _ _ _ Hr) as (L & _ & Hin & HP & _).
  destruct (HP ns_ncon (iv_con _ _ Hi)) as [Hn' Hq].
  assert (He : ns_est s = true).
  { apply (iv_est _ _ Hi). intro E. rewrite E in Hin. exact Hin. }
  split; [|split; assumption].
  assert (Hp : ns_pre c (ns_set_sq s q) 1).
  { destruct Hi. unfold ns_pre. ns_simp. repeat split; try assumption; lia. }
  destruct (ns_dec_drain_pre c _ 0 Hwf Hp He) as (_ & E & _). exact E.
Qed.

(* every event of an open session, described at the level of messages *)
Lemma ns_step_char c s e : ns_wf c -> ns_inv c s -> ns_open s = true ->
  let s' := fst (ns_step c s e) in
  let o := snd (ns_step c s e) in
  match e with
  | NsSubmit _ => True
  | NsAck mid =>
    match ns_remove mid (ns_sq s) with
    | None => s' = s /\ o = []
    | Some (n, q) => exists txs, o = map NsTx txs /\ ns_rel s s' q txs /\ ns_est s' = ns_est s
    end
  | NsRst mid =>
    match ns_remove mid (ns_sq s) with
    | None => s' = s /\ o = [NsNack ns_RST mid false]
    | Some (n, q) => exists txs, o = map NsTx txs ++ [NsNack ns_RST mid true] /\
                                 ns_rel s s' q txs /\ ns_est s' = ns_est s
    end
  | NsTick mid =>
    match ns_remove mid (ns_sq s) with
    | None => s' = s /\ o = []
    | Some (n, q) =>
      (o = [NsRe (ns_nmsg n)] /\ ns_rel s s' (ns_sq s) [] /\ ns_est s' = ns_est s) \/
      (exists txs, o = map NsTx txs ++ [NsNack ns_TOO_MANY mid true] /\
                   ns_rel s s' q txs /\ ns_est s' = ns_est s)
    end
  | NsSep tok =>
    exists txs, o = map NsTx txs /\
                ns_rel s s' (filter (fun n => negb (ns_tok (ns_nmsg n) =? tok)) (ns_sq s)) txs /\
                ns_est s' = ns_est s
  | NsUp => exists txs, o = map NsTx txs /\ ns_rel s s' (ns_sq s) txs /\ ns_est s' = true
  | NsFail _ => True
  end.
Proof.
  intros Hwf Hi Ho. pose proof Hwf as [Hfx Hn]. unfold ns_step. rewrite Ho. cbn [negb].
  destruct e as [m|mid|mid|mid|tok| |r]; cbn zeta; try exact I.
  - unfold ns_ack. destruct (ns_remove mid (ns_sq s)) as [[n q]|] eqn:Er; [|split; reflexivity].
    destruct (ns_remove_dec_char c s mid n q Hwf Hi Ho Er) as (txs & A1 & A2).
    destruct (ns_remove_dec_est c s mid n q Hwf Hi Ho Er) as (E1 & E2 & _).
    destruct (ns_dec_drain c (ns_set_sq s q)) as [s1 o]. ns_simp.
    exists txs. split; [exact A1|]. split; [|congruence].
    unfold ns_rel in *. ns_simp. exact A2.
  - unfold ns_rst. rewrite Hfx.
    destruct (ns_remove mid (ns_sq s)) as [[n q]|] eqn:Er; [|split; reflexivity].
    destruct (ns_remove_dec_char c s mid n q Hwf Hi Ho Er) as (txs & A1 & A2).
    destruct (ns_remove_dec_est c s mid n q Hwf Hi Ho Er) as (E1 & E2 & E3). rewrite E3.
    destruct (ns_dec_drain c (ns_set_sq s q)) as [s1 o]. ns_simp.
    exists txs. rewrite A1. split; [reflexivity|]. split; [exact A2|congruence].
  - unfold ns_tick. destruct (ns_remove mid (ns_sq s)) as [[n q]|] eqn:Er; [|split; reflexivity].
    destruct (ns_remove_dec_est c s mid n q Hwf Hi Ho Er) as (E1 & E2 & E3).
    destruct (ns_cnt n <? ns_maxrt c).
    + left. rewrite E2, E3. cbn [negb orb andb]. destruct Hi.
      destruct (ns_remove_some _ _ _ _ Er) as (L & _).
      destruct (ns_act s =? 0) eqn:E0; [lia|].
      destruct (ns_nstart c <=? ns_act s - 1) eqn:El; [lia|]. ns_simp.
      destruct (ns_bump_props mid (ns_sq s)) as (B1 & B2 & B3).
      split; [reflexivity|]. split; [|reflexivity]. unfold ns_rel. ns_simp.
      rewrite B2, app_nil_r. repeat split.
    + right.
      destruct (ns_remove_dec_char c s mid n q Hwf Hi Ho Er) as (txs & A1 & A2). rewrite E3.
      destruct (ns_dec_drain c (ns_set_sq s q)) as [s1 o]. ns_simp.
      exists txs. rewrite A1. split; [reflexivity|]. split; [exact A2|congruence].
  - unfold ns_sep.
    set (p := fun n : ns_node => ns_tok (ns_nmsg n) =? tok).
    pose proof (ns_filter_split p (ns_sq s)) as Hlen.
    pose proof (ns_forallb_filter ns_ncon p (ns_sq s) (iv_con _ _ Hi)) as Hch.
    rewrite (ns_filter_all ns_ncon _ Hch).
    destruct (filter p (ns_sq s)) as [|h0 t0] eqn:Eh; unfold p in *; cbn beta in *.
    + exists []. cbn [length ns_dec_n fst snd map]. split; [reflexivity|]. split; [|reflexivity].
      unfold ns_rel. ns_simp. cbn [app filter]. rewrite app_nil_r. repeat split.
    + assert (He : ns_est s = true).
      { apply (iv_est _ _ Hi). intro E. rewrite E in Eh. discriminate. }
      match goal with |- context [ns_dec_n c ?k ?st] =>
        assert (Hpost : ns_post c st k) end.
      { destruct Hi. unfold ns_post, ns_pre. ns_simp.
        repeat split; try assumption; try lia.
        + apply ns_forallb_filter. exact iv_con0.
        + apply iv_qui0. exact He. }
      destruct (ns_dec_n_char c _ Hwf _ Hpost) as (txs & A1 & A2).
      destruct (ns_dec_n_pre c _ Hwf _ Hpost) as (_ & E & _).
      exists txs. split; [exact A1|]. split; [|congruence].
      unfold ns_rel in *. ns_simp. exact A2.
  - destruct (ns_connected_char c s 0 Hwf (ns_inv_pre c s Hi Ho)) as (txs & A1 & A2).
    destruct (ns_connected_pre c s 0 Hwf (ns_inv_pre c s Hi Ho)) as (_ & E & _).
    exists txs. split; [exact A1|]. split; [exact A2|exact E].
Qed.

(* ---------------------------------------------------------------- message ids stay distinct *)
Definition ns_cmn (x : Z) (l : list ns_node) : nat := ns_cm x (map ns_nmsg l).

Definition ns_budget (s : ns_st) (evs : list ns_ev) : Prop :=
  forall x, (ns_cmn x (ns_dq s) + ns_cmn x (ns_sq s) + count_occ Z.eq_dec (ns_sub_mids evs) x <= 1)%nat.

Lemma ns_cm_filter x p l : (ns_cm x (filter p l) <= ns_cm x l)%nat.
Proof.
  induction l as [|h t IH]; [apply le_n|]. cbn [filter].
  replace (h :: t) with ([h] ++ t) by reflexivity. rewrite ns_cm_app.
  destruct (p h); [replace (h :: filter p t) with ([h] ++ filter p t) by reflexivity;
                   rewrite ns_cm_app|]; lia.
Qed.

Lemma ns_cm_rm x mid l : (ns_cm x (ns_rm_mid mid l) <= ns_cm x l)%nat.
Proof.
  induction l as [|h t IH]; [apply le_n|]. cbn [ns_rm_mid].
  replace (h :: t) with ([h] ++ t) by reflexivity. rewrite ns_cm_app.
  destruct (ns_mid h =? mid); [lia|].
  replace (h :: ns_rm_mid mid t) with ([h] ++ ns_rm_mid mid t) by reflexivity.
  rewrite ns_cm_app. lia.
Qed.

Lemma ns_cmn_filter x p l : (ns_cmn x (filter p l) <= ns_cmn x l)%nat.
Proof.
  unfold ns_cmn. induction l as [|h t IH]; [apply le_n|]. cbn [filter map].
  replace (ns_nmsg h :: map ns_nmsg t) with ([ns_nmsg h] ++ map ns_nmsg t) by reflexivity.
  rewrite ns_cm_app. destruct (p h); cbn [map]; [|lia].
  replace (ns_nmsg h :: map ns_nmsg (filter p t)) with ([ns_nmsg h] ++ map ns_nmsg (filter p t))
    by reflexivity.
  rewrite ns_cm_app. lia.
Qed.

Lemma ns_rel_budget x s s' base txs : ns_rel s s' base txs ->
  (ns_cmn x base <= ns_cmn x (ns_sq s))%nat ->
  (ns_cmn x (ns_dq s') + ns_cmn x (ns_sq s') <= ns_cmn x (ns_dq s) + ns_cmn x (ns_sq s))%nat.
Proof.
  intros (_ & A2 & A3) Hb. unfold ns_cmn in *. rewrite A2, A3, !ns_cm_app.
  pose proof (ns_cm_filter x ns_con txs). lia.
Qed.

Lemma ns_sub_mids_count e r x :
  (count_occ Z.eq_dec (ns_sub_mids r) x <= count_occ Z.eq_dec (ns_sub_mids (e :: r)) x)%nat.
Proof. destruct e; cbn [ns_sub_mids count_occ]; try lia. destruct (Z.eq_dec (ns_mid m) x); lia. Qed.

Lemma ns_step_budget c s e r : ns_wf c -> ns_inv c s ->
  ns_budget s (e :: r) -> ns_budget (fst (ns_step c s e)) r.
Proof.
  intros Hwf Hi Hb x. specialize (Hb x). pose proof (ns_sub_mids_count e r x) as Hc.
  destruct (ns_open s) eqn:Ho.
  2: { unfold ns_step. rewrite Ho. cbn [negb]. destruct e; ns_simp; lia. }
  pose proof (ns_step_char c s e Hwf Hi Ho) as H. cbn zeta in H.
  destruct e as [m|mid|mid|mid|tok| |rr].
  - clear H Hc. unfold ns_step. rewrite Ho. cbn [negb]. unfold ns_submit.
    cbn [ns_sub_mids count_occ] in Hb.
    destruct (negb (ns_est s) || ns_con m && (ns_nstart c <=? ns_act s)).
    + destruct (existsb _ (ns_dq s)); ns_simp.
      * destruct (Z.eq_dec (ns_mid m) x); lia.
      * unfold ns_cmn in *. rewrite map_app, ns_cm_app. unfold ns_cm at 2.
        cbn [map ns_nmsg count_occ]. destruct (Z.eq_dec (ns_mid m) x); lia.
    + destruct (ns_con m); ns_simp.
      * unfold ns_cmn in *. rewrite map_app, ns_cm_app. unfold ns_cm at 3.
        cbn [map ns_nmsg count_occ]. destruct (Z.eq_dec (ns_mid m) x); lia.
      * destruct (Z.eq_dec (ns_mid m) x); lia.
  - destruct (ns_remove mid (ns_sq s)) as [[n q]|] eqn:Er.
    + destruct H as (txs & _ & Hr & _).
      pose proof (ns_rel_budget x _ _ _ _ Hr) as Hrb.
      destruct (ns_remove_some _ _ _ _ Er) as (_ & _ & _ & _ & A5 & _).
      unfold ns_cmn in Hrb at 1. rewrite A5 in Hrb.
      pose proof (ns_cm_rm x mid (map ns_nmsg (ns_sq s))). unfold ns_cmn in *. lia.
    + destruct H as [E _]. rewrite E. lia.
  - destruct (ns_remove mid (ns_sq s)) as [[n q]|] eqn:Er.
    + destruct H as (txs & _ & Hr & _).
      pose proof (ns_rel_budget x _ _ _ _ Hr) as Hrb.
      destruct (ns_remove_some _ _ _ _ Er) as (_ & _ & _ & _ & A5 & _).
      unfold ns_cmn in Hrb at 1. rewrite A5 in Hrb.
      pose proof (ns_cm_rm x mid (map ns_nmsg (ns_sq s))). unfold ns_cmn in *. lia.
    + destruct H as [E _]. rewrite E. lia.
  - destruct (ns_remove mid (ns_sq s)) as [[n q]|] eqn:Er.
    + destruct H as [(_ & Hr & _)|(txs & _ & Hr & _)].
      * pose proof (ns_rel_budget x _ _ _ _ Hr (le_n _)). lia.
      * pose proof (ns_rel_budget x _ _ _ _ Hr) as Hrb.
        destruct (ns_remove_some _ _ _ _ Er) as (_ & _ & _ & _ & A5 & _).
        unfold ns_cmn in Hrb at 1. rewrite A5 in Hrb.
        pose proof (ns_cm_rm x mid (map ns_nmsg (ns_sq s))). unfold ns_cmn in *. lia.
    + destruct H as [E _]. rewrite E. lia.
  - destruct H as (txs & _ & Hr & _).
    pose proof (ns_rel_budget x _ _ _ _ Hr (ns_cmn_filter x _ _)). lia.
  - destruct H as (txs & _ & Hr & _).
    pose proof (ns_rel_budget x _ _ _ _ Hr (le_n _)). lia.
  - unfold ns_step. rewrite Ho. cbn [negb]. unfold ns_fail.
    destruct (rr =? ns_ICMP); ns_simp; [lia|]. unfold ns_cmn, ns_cm. cbn [map count_occ]. lia.
Qed.

Lemma ns_init_budget e evs : NoDup (ns_sub_mids evs) -> ns_budget (ns_init e) evs.
Proof.
  intros H x. rewrite (NoDup_count_occ Z.eq_dec) in H. specialize (H x).
  unfold ns_cmn, ns_cm. cbn. lia.
Qed.

(* ---------------------------------------------------------------- the checker accepts the model *)
Definition ns_abs (s : ns_st) : ns_mon :=
  ns_mkmon (ns_open s) (ns_est s) (map ns_nmsg (ns_sq s)) (map ns_nmsg (ns_dq s)).

Lemma ns_msg_eqb_refl x : ns_msg_eqb x x = true.
Proof. unfold ns_msg_eqb. rewrite eqb_reflx, !Z.eqb_refl. reflexivity. Qed.

Lemma ns_mon_txs_ok nstart : forall txs infl rest,
  Z.of_nat (length (infl ++ filter ns_con txs)) <= nstart ->
  ns_mon_txs nstart infl (txs ++ rest) txs = Some (infl ++ filter ns_con txs, rest).
Proof.
  induction txs as [|x r IH]; intros infl rest H.
  - cbn [app filter]. rewrite app_nil_r. destruct rest; reflexivity.
  - cbn [app ns_mon_txs]. rewrite ns_msg_eqb_refl. cbn [filter] in *.
    rewrite app_length in H.
    destruct (ns_con x).
    + cbn [length] in H. rewrite app_length. cbn [length].
      destruct (Z.of_nat (length infl + 1) <=? nstart) eqn:E; [|lia].
      rewrite IH; [rewrite <- app_assoc; reflexivity|].
      rewrite <- app_assoc, app_length. cbn [app length]. lia.
    + destruct (Z.of_nat (length infl) <=? nstart) eqn:E; [|lia].
      apply IH. rewrite app_length. exact H.
Qed.

Lemma ns_quiescent_inv c s : ns_inv c s ->
  ns_quiescent (ns_nstart c) (ns_est s) (map ns_nmsg (ns_sq s)) (map ns_nmsg (ns_dq s)) = true.
Proof.
  intros Hi. unfold ns_quiescent. destruct (ns_est s) eqn:He; [|reflexivity].
  pose proof (iv_qui _ _ Hi He) as Hq. destruct (ns_dq s) as [|q t]; [reflexivity|].
  cbn [map ns_quiet] in *. destruct Hq as [Hq1 Hq2]. unfold ns_ncon in Hq1. rewrite Hq1.
  rewrite map_length, <- (iv_act _ _ Hi), Hq2, Z.eqb_refl. reflexivity.
Qed.

Lemma ns_mon_finish_ok c s s' base txs o : ns_inv c s' -> ns_rel s s' base txs ->
  ns_open s' = true -> ns_txs o = txs ->
  ns_mon_finish c (ns_est s') (map ns_nmsg base) (map ns_nmsg (ns_dq s)) o = Some (ns_abs s').
Proof.
  intros Hi (A1 & A2 & A3) Ho Ht. unfold ns_mon_finish. rewrite Ht, A2.
  rewrite ns_mon_txs_ok.
  - rewrite <- A3. rewrite (ns_quiescent_inv c s' Hi). unfold ns_abs. rewrite Ho. reflexivity.
  - rewrite <- A3, map_length, <- (iv_act _ _ Hi). exact (iv_le _ _ Hi).
Qed.

Lemma ns_gaveup_app a b : ns_gaveup (a ++ b) = ns_gaveup a ++ ns_gaveup b.
Proof. unfold ns_gaveup. apply flat_map_app. Qed.
Lemma ns_res_app a b : ns_res (a ++ b) = ns_res a ++ ns_res b.
Proof. unfold ns_res. apply flat_map_app. Qed.
Lemma ns_gaveup_maptx l : ns_gaveup (map NsTx l) = [].
Proof. induction l as [|h t IH]; [reflexivity|]. cbn. exact IH. Qed.
Lemma ns_res_maptx l : ns_res (map NsTx l) = [].
Proof. induction l as [|h t IH]; [reflexivity|]. cbn. exact IH. Qed.

Lemma ns_existsb_mid_map mid l :
  existsb (fun p => ns_mid p =? mid) (map ns_nmsg l) = existsb (fun q => ns_nmid q =? mid) l.
Proof. induction l as [|h t IH]; [reflexivity|]. cbn [map existsb]. rewrite IH. reflexivity. Qed.

Lemma ns_existsb_mid_in mid l n : In n l -> ns_nmid n = mid ->
  existsb (fun q => ns_nmid q =? mid) l = true.
Proof.
  intros Hin E. apply existsb_exists. exists n. split; [exact Hin|]. rewrite E. apply Z.eqb_refl.
Qed.

Lemma ns_existsb_mid_none mid l : (forall n, In n l -> ns_nmid n <> mid) ->
  existsb (fun q => ns_nmid q =? mid) l = false.
Proof.
  intros H. destruct (existsb _ l) eqn:E; [|reflexivity].
  apply existsb_exists in E. destruct E as (n & Hin & E). specialize (H n Hin). lia.
Qed.

(* nack counting for the disconnect *)
Lemma ns_nack_count_app x a b : ns_nack_count x (a ++ b) = (ns_nack_count x a + ns_nack_count x b)%nat.
Proof. unfold ns_nack_count. rewrite filter_app, app_length. reflexivity. Qed.

Lemma ns_nack_count_nacks x r l : (ns_nack_count x (ns_nacks r l) <= ns_cmn x l)%nat.
Proof.
  unfold ns_cmn. induction l as [|h t IH]; [apply le_n|].
  unfold ns_nacks in *. cbn [flat_map map].
  replace (ns_nmsg h :: map ns_nmsg t) with ([ns_nmsg h] ++ map ns_nmsg t) by reflexivity.
  rewrite ns_nack_count_app, ns_cm_app.
  assert ((ns_nack_count x (if ns_ncon h then [NsNack r (ns_nmid h) true] else [])
           <= ns_cm x [ns_nmsg h])%nat); [|lia].
  unfold ns_cm, ns_nack_count. cbn [map count_occ]. unfold ns_nmid.
  destruct (ns_ncon h); cbn [filter length]; [|lia].
  destruct (Z.eq_dec (ns_mid (ns_nmsg h)) x) as [E|E].
  - rewrite E, Z.eqb_refl. cbn. lia.
  - destruct (ns_mid (ns_nmsg h) =? x) eqn:E'; [lia|]. cbn. lia.
Qed.

Lemma ns_nack_count_drops x r l :
  (ns_nack_count x (ns_drops r l) <= ns_cmn x l)%nat /\
  (forall q, In q l -> ns_ncon q = true -> ns_nmid q = x -> (1 <= ns_nack_count x (ns_drops r l))%nat).
Proof.
  unfold ns_cmn. induction l as [|h t [IH1 IH2]]; [split; [apply le_n|intros q []]|].
  unfold ns_drops in *. cbn [flat_map map].
  replace (ns_nmsg h :: map ns_nmsg t) with ([ns_nmsg h] ++ map ns_nmsg t) by reflexivity.
  rewrite ns_nack_count_app, ns_cm_app.
  set (hd := NsDrop (ns_nmsg h) :: (if ns_ncon h then [NsNack r (ns_nmid h) true] else [])).
  assert (H1 : (ns_nack_count x hd <= ns_cm x [ns_nmsg h])%nat).
  { unfold hd, ns_cm, ns_nack_count. cbn [map count_occ filter]. unfold ns_nmid.
    destruct (ns_ncon h); cbn [filter length]; [|lia].
    destruct (Z.eq_dec (ns_mid (ns_nmsg h)) x) as [E|E].
    - rewrite E, Z.eqb_refl. cbn. lia.
    - destruct (ns_mid (ns_nmsg h) =? x) eqn:E'; [lia|]. cbn. lia. }
  split; [lia|]. intros q [Hq|Hq] Hc Hm.
  - subst q. assert ((1 <= ns_nack_count x hd)%nat); [|lia].
    unfold hd, ns_nack_count. rewrite Hc. cbn [filter]. rewrite Hm, Z.eqb_refl. cbn. lia.
  - specialize (IH2 q Hq Hc Hm). lia.
Qed.

Lemma ns_txs_nacks r l : ns_txs (ns_nacks r l) = [].
Proof.
  induction l as [|h t IH]; [reflexivity|]. unfold ns_nacks in *. cbn [flat_map].
  rewrite ns_txs_app, IH. destruct (ns_ncon h); reflexivity.
Qed.
Lemma ns_txs_drops r l : ns_txs (ns_drops r l) = [].
Proof.
  induction l as [|h t IH]; [reflexivity|]. unfold ns_drops in *. cbn [flat_map].
  rewrite ns_txs_app, IH. destruct (ns_ncon h); reflexivity.
Qed.
Lemma ns_res_nacks r l : ns_res (ns_nacks r l) = [].
Proof.
  induction l as [|h t IH]; [reflexivity|]. unfold ns_nacks in *. cbn [flat_map].
  rewrite ns_res_app, IH. destruct (ns_ncon h); reflexivity.
Qed.
Lemma ns_res_drops r l : ns_res (ns_drops r l) = [].
Proof.
  induction l as [|h t IH]; [reflexivity|]. unfold ns_drops in *. cbn [flat_map].
  rewrite ns_res_app, IH. destruct (ns_ncon h); reflexivity.
Qed.

Ltac ns_mon_open Ho :=
  unfold ns_mon_step; cbn [ns_abs ns_mopen ns_mest ns_minfl ns_mpend]; rewrite Ho; cbn [negb].

Lemma ns_mon_step_submit c s m : ns_wf c -> ns_inv c s -> ns_open s = true ->
  ns_mon_step c (ns_abs s) (NsSubmit m) (snd (ns_step c s (NsSubmit m))) =
  Some (ns_abs (fst (ns_step c s (NsSubmit m)))).
Proof.
  intros Hwf Hi Ho. pose proof (ns_step_inv c s (NsSubmit m) Hwf Hi) as Hi'.
  revert Hi'. unfold ns_step. rewrite Ho. cbn [negb]. unfold ns_submit.
  destruct (negb (ns_est s) || ns_con m && (ns_nstart c <=? ns_act s)) eqn:Eh.
  - destruct (existsb (fun q => ns_nmid q =? ns_mid m) (ns_dq s)) eqn:Ex; ns_simp; intros Hi'.
    + ns_mon_open Ho. cbn. rewrite ns_existsb_mid_map, Ex. unfold ns_abs. rewrite ?Ho. reflexivity.
    + ns_mon_open Ho. simpl ns_gaveup; simpl ns_res; simpl ns_accepted; simpl ns_txs;
        cbn [fold_left forallb negb].
      assert (E1 : ns_est s && negb (ns_con m) = false).
      { destruct (ns_est s); [|reflexivity]. cbn [negb orb] in Eh.
        destruct (ns_con m); [reflexivity|discriminate]. }
      rewrite E1.
      pose proof (ns_quiescent_inv c _ Hi') as Hq. ns_simp. rewrite map_app in Hq. cbn [map ns_nmsg] in Hq.
      rewrite Hq. unfold ns_abs. ns_simp. rewrite ?Ho, map_app. reflexivity.
  - apply orb_false_iff in Eh. destruct Eh as [He Eh]. apply negb_false_iff in He.
    destruct (ns_con m) eqn:Ec; ns_simp; intros Hi'.
    + ns_mon_open Ho. simpl ns_gaveup; simpl ns_res; simpl ns_accepted; simpl ns_txs;
        cbn [fold_left forallb negb].
      rewrite ns_msg_eqb_refl, He, Ec. cbn [andb].
      pose proof (iv_le _ _ Hi') as Hle. pose proof (iv_act _ _ Hi') as Hact. ns_simp.
      rewrite Hact in Hle. rewrite app_length, map_length. rewrite app_length in Hle.
      cbn [length] in *.
      destruct (Z.of_nat (length (ns_sq s) + 1) <=? ns_nstart c) eqn:El; [|lia].
      unfold ns_abs. ns_simp. rewrite ?Ho, ?He, map_app. reflexivity.
    + ns_mon_open Ho. simpl ns_gaveup; simpl ns_res; simpl ns_accepted; simpl ns_txs;
        cbn [fold_left forallb negb].
      rewrite ns_msg_eqb_refl, He, Ec. cbn [andb].
      pose proof (iv_le _ _ Hi') as Hle. pose proof (iv_act _ _ Hi') as Hact.
      rewrite Hact in Hle. rewrite map_length.
      destruct (Z.of_nat (length (ns_sq s)) <=? ns_nstart c) eqn:El; [|lia].
      unfold ns_abs. rewrite ?Ho, ?He. reflexivity.
Qed.

Lemma ns_rel_open s s' b t : ns_rel s s' b t -> ns_open s = true -> ns_open s' = true.
Proof. intros (A & _) H. congruence. Qed.

(* the pieces of a disconnect's output *)
Definition ns_ffirst (s : ns_st) (r : Z) : list ns_out :=
  match ns_sq s with
  | n :: _ => if (r =? ns_ICMP) || negb (ns_ncon n) then [NsNack r (ns_nmid n) true] else []
  | [] => []
  end.
Definition ns_ffb (s : ns_st) (r : Z) : list ns_out :=
  match ns_lg s with m :: _ => [NsNack r m true] | [] => [NsNack r 0 false] end.
Definition ns_fmid (s : ns_st) (r : Z) : list ns_out :=
  if match ns_sq s, filter ns_ncon (ns_dq s) with [], [] => false | _, _ => true end
  then [] else ns_ffb s r.

Lemma ns_fail_shape c s r : (r =? ns_ICMP) = false ->
  ns_fail c s r = (ns_mkst (negb (ns_client c)) (ns_udp c) 0 [] [] [],
                   ns_ffirst s r ++ ns_drops r (ns_dq s) ++ ns_fmid s r ++ ns_nacks r (ns_sq s)).
Proof. intros E. unfold ns_fail, ns_ffirst, ns_fmid, ns_ffb. rewrite E. reflexivity. Qed.

Lemma ns_fail_shape_icmp c s r : (r =? ns_ICMP) = true ->
  ns_fail c s r = (s, match ns_sq s with [] => ns_ffb s r | _ :: _ => ns_ffirst s r end).
Proof. intros E. unfold ns_fail, ns_ffirst, ns_ffb. rewrite E. reflexivity. Qed.

Lemma ns_ffirst_props s r :
  ns_txs (ns_ffirst s r) = [] /\ ns_res (ns_ffirst s r) = [] /\
  (forall x, (ns_nack_count x (ns_ffirst s r) <= ns_cmn x (ns_sq s))%nat).
Proof.
  unfold ns_ffirst. destruct (ns_sq s) as [|n t]; [repeat split; intros; apply Nat.le_0_l|].
  destruct ((r =? ns_ICMP) || negb (ns_ncon n)); [|repeat split; intros; apply Nat.le_0_l].
  repeat split. intros x. unfold ns_nack_count, ns_cmn, ns_cm. cbn [filter map count_occ].
  unfold ns_nmid. destruct (Z.eq_dec (ns_mid (ns_nmsg n)) x) as [E|E].
  - rewrite E, Z.eqb_refl. cbn [length]. lia.
  - destruct (ns_mid (ns_nmsg n) =? x) eqn:E'; [lia|]. cbn [length]. lia.
Qed.

Lemma ns_ffb_props s r : ns_txs (ns_ffb s r) = [] /\ ns_res (ns_ffb s r) = [].
Proof. unfold ns_ffb. destruct (ns_lg s); split; reflexivity. Qed.

Lemma ns_fmid_props s r :
  ns_txs (ns_fmid s r) = [] /\ ns_res (ns_fmid s r) = [] /\
  (forall q, In q (ns_dq s) -> ns_ncon q = true -> ns_fmid s r = []).
Proof.
  unfold ns_fmid. destruct (ns_ffb_props s r) as [B1 B2].
  destruct (ns_sq s); destruct (filter ns_ncon (ns_dq s)) eqn:Ef; repeat split; try assumption;
    try reflexivity.
  intros q Hin Hc. exfalso.
  assert (In q (filter ns_ncon (ns_dq s))) by (apply filter_In; split; assumption).
  rewrite Ef in H. exact H.
Qed.

Lemma ns_fail_count c s r : ns_inv c s -> ns_budget s [] -> (r =? ns_ICMP) = false ->
  forall q, In q (ns_dq s) -> ns_ncon q = true ->
  ns_nack_count (ns_nmid q) (snd (ns_fail c s r)) = 1%nat.
Proof.
  intros Hi Hb Er q Hin Ec. rewrite (ns_fail_shape c s r Er). cbn [snd].
  specialize (Hb (ns_nmid q)).
  destruct (ns_nack_count_drops (ns_nmid q) r (ns_dq s)) as [D1 D2].
  specialize (D2 q Hin Ec eq_refl).
  pose proof (ns_nack_count_nacks (ns_nmid q) r (ns_sq s)) as N1.
  destruct (ns_ffirst_props s r) as (_ & _ & F).
  specialize (F (ns_nmid q)).
  destruct (ns_fmid_props s r) as (_ & _ & M). rewrite (M q Hin Ec).
  rewrite !ns_nack_count_app. cbn [ns_nack_count filter length] in *.
  cbn [count_occ] in Hb. lia.
Qed.

Lemma ns_mon_step_fail c s r evs : ns_wf c -> ns_inv c s -> ns_open s = true ->
  ns_budget s evs ->
  ns_mon_step c (ns_abs s) (NsFail r) (snd (ns_step c s (NsFail r))) =
  Some (ns_abs (fst (ns_step c s (NsFail r)))).
Proof.
  intros Hwf Hi Ho Hb. unfold ns_step. rewrite Ho. cbn [negb].
  destruct (r =? ns_ICMP) eqn:Er.
  - rewrite (ns_fail_shape_icmp c s r Er). ns_simp.
    ns_mon_open Ho. rewrite Er.
    set (o := match ns_sq s with [] => ns_ffb s r | _ :: _ => ns_ffirst s r end).
    assert (E : ns_txs o = [] /\ ns_res o = [] /\ ns_gaveup o = []).
    { destruct (ns_ffirst_props s r) as (F1 & F2 & _). destruct (ns_ffb_props s r) as [B1 B2].
      apply Z.eqb_eq in Er. subst r. unfold o, ns_ffirst, ns_ffb.
      destruct (ns_sq s); [destruct (ns_lg s)|]; repeat split. }
    destruct E as (E1 & E2 & E3). rewrite E1, E2, E3. cbn [forallb negb fold_left].
    unfold ns_abs. rewrite Ho. reflexivity.
  - rewrite (ns_fail_shape c s r Er). ns_simp. ns_mon_open Ho. rewrite Er.
    set (o := ns_ffirst s r ++ ns_drops r (ns_dq s) ++ ns_fmid s r ++ ns_nacks r (ns_sq s)).
    destruct (ns_ffirst_props s r) as (F1 & F2 & _).
    destruct (ns_fmid_props s r) as (M1 & M2 & _).
    assert (Otx : ns_txs o = []).
    { unfold o. rewrite !ns_txs_app, F1, ns_txs_drops, M1, ns_txs_nacks. reflexivity. }
    assert (Ore : ns_res o = []).
    { unfold o. rewrite !ns_res_app, F2, ns_res_drops, M2, ns_res_nacks. reflexivity. }
    rewrite Otx, Ore. cbn [forallb negb].
    match goal with |- (if ?b then _ else _) = _ => assert (Hall : b = true) end.
    2: { rewrite Hall. reflexivity. }
    rewrite forallb_forall. intros p Hp. apply in_map_iff in Hp. destruct Hp as (q & Hq & Hin).
    subst p. destruct (ns_con (ns_nmsg q)) eqn:Ec; [|reflexivity]. cbn [negb orb].
    apply Nat.eqb_eq.
    assert (Hb0 : ns_budget s []).
    { intros x. specialize (Hb x). cbn [ns_sub_mids count_occ]. lia. }
    pose proof (ns_fail_count c s r Hi Hb0 Er q Hin Ec) as Hc.
    rewrite (ns_fail_shape c s r Er) in Hc. exact Hc.
Qed.

Lemma ns_fold_rm_nil (l : list ns_msg) :
  fold_left (fun l0 mid => ns_rm_mid mid l0) [] l = l.
Proof. reflexivity. Qed.

Lemma ns_gaveup_rst mid b : ns_gaveup [NsNack ns_RST mid b] = [].
Proof. reflexivity. Qed.
Lemma ns_gaveup_tm mid b : ns_gaveup [NsNack ns_TOO_MANY mid b] = [mid].
Proof. reflexivity. Qed.
Lemma ns_res_nack r mid b : ns_res [NsNack r mid b] = [].
Proof. reflexivity. Qed.
Lemma ns_txs_nack r mid b : ns_txs [NsNack r mid b] = [].
Proof. reflexivity. Qed.

Lemma ns_filter_tok_map tok l :
  filter (fun y => negb (ns_tok y =? tok)) (map ns_nmsg l) =
  map ns_nmsg (filter (fun n => negb (ns_tok (ns_nmsg n) =? tok)) l).
Proof.
  induction l as [|h t IH]; [reflexivity|]. cbn [map filter].
  destruct (negb (ns_tok (ns_nmsg h) =? tok)); cbn [map]; rewrite IH; reflexivity.
Qed.

Theorem ns_mon_step_ok c s e r : ns_wf c -> ns_inv c s -> ns_budget s (e :: r) ->
  ns_mon_step c (ns_abs s) e (snd (ns_step c s e)) = Some (ns_abs (fst (ns_step c s e))).
Proof.
  intros Hwf Hi Hb. pose proof (ns_step_inv c s e Hwf Hi) as Hi'.
  destruct (ns_open s) eqn:Ho.
  2: { unfold ns_mon_step, ns_step. cbn [ns_abs ns_mopen]. rewrite Ho. cbn [negb].
       destruct e; reflexivity. }
  pose proof (ns_step_char c s e Hwf Hi Ho) as H. cbn zeta in H.
  destruct e as [m|mid|mid|mid|tok| |rr].
  - apply ns_mon_step_submit; assumption.
  - (* ack *)
    destruct (ns_remove mid (ns_sq s)) as [[n q]|] eqn:Er.
    + destruct H as (txs & Eo & Hr & He).
      destruct (ns_remove_some _ _ _ _ Er) as (_ & _ & _ & _ & A5 & _).
      ns_mon_open Ho. rewrite Eo, ns_gaveup_maptx, ns_res_maptx. cbn [fold_left forallb negb].
      rewrite <- A5, <- He, <- Eo.
      apply (ns_mon_finish_ok c s _ q txs); try assumption.
      * eapply ns_rel_open; eassumption.
      * rewrite Eo. apply ns_txs_maptx.
    + destruct H as [Es Eo]. destruct (ns_remove_none _ _ Er) as [A1 _].
      ns_mon_open Ho. rewrite Eo, Es. cbn [ns_gaveup ns_res flat_map fold_left forallb negb].
      rewrite A1. apply (ns_mon_finish_ok c s s (ns_sq s) []); try assumption; try reflexivity.
      unfold ns_rel. cbn [app filter]. rewrite app_nil_r. repeat split.
  - (* rst *)
    destruct (ns_remove mid (ns_sq s)) as [[n q]|] eqn:Er.
    + destruct H as (txs & Eo & Hr & He).
      destruct (ns_remove_some _ _ _ _ Er) as (_ & _ & _ & _ & A5 & _).
      ns_mon_open Ho. rewrite Eo, ns_gaveup_app, ns_res_app, ns_gaveup_maptx, ns_res_maptx,
        ns_gaveup_rst, ns_res_nack.
      cbn [app fold_left forallb negb].
      rewrite <- A5, <- He, <- Eo.
      apply (ns_mon_finish_ok c s _ q txs); try assumption.
      * eapply ns_rel_open; eassumption.
      * rewrite Eo, ns_txs_app, ns_txs_maptx, ns_txs_nack. apply app_nil_r.
    + destruct H as [Es Eo]. destruct (ns_remove_none _ _ Er) as [A1 _].
      ns_mon_open Ho. rewrite Eo, Es, ns_gaveup_rst, ns_res_nack.
      cbn [fold_left forallb negb].
      rewrite A1. apply (ns_mon_finish_ok c s s (ns_sq s) []); try assumption; try reflexivity.
      unfold ns_rel. cbn [app filter]. rewrite app_nil_r. repeat split.
  - (* tick *)
    destruct (ns_remove mid (ns_sq s)) as [[n q]|] eqn:Er.
    + destruct (ns_remove_some _ _ _ _ Er) as (_ & Hm & Hin & _ & A5 & _).
      assert (Hex : existsb (fun y => ns_mid y =? mid) (map ns_nmsg (ns_sq s)) = true).
      { rewrite ns_existsb_mid_map. eapply ns_existsb_mid_in; eassumption. }
      destruct H as [(Eo & Hr & He)|(txs & Eo & Hr & He)].
      * ns_mon_open Ho. rewrite Eo. cbn [ns_gaveup ns_res flat_map fold_left forallb app existsb].
        unfold ns_nmid in Hm. rewrite Hm, Hex, Z.eqb_refl. cbn [negb orb andb].
        rewrite <- He, <- Eo.
        apply (ns_mon_finish_ok c s _ (ns_sq s) []); try assumption.
        -- eapply ns_rel_open; eassumption.
        -- rewrite Eo. reflexivity.
      * ns_mon_open Ho. rewrite Eo, ns_gaveup_app, ns_res_app, ns_gaveup_maptx, ns_res_maptx.
        rewrite ns_gaveup_tm, ns_res_nack.
        cbn [app fold_left forallb negb existsb].
        rewrite Hex, Z.eqb_refl. cbn [orb negb andb].
        rewrite <- A5, <- He, <- Eo.
        apply (ns_mon_finish_ok c s _ q txs); try assumption.
        -- eapply ns_rel_open; eassumption.
        -- rewrite Eo, ns_txs_app, ns_txs_maptx, ns_txs_nack. apply app_nil_r.
    + destruct H as [Es Eo]. destruct (ns_remove_none _ _ Er) as [A1 A2].
      ns_mon_open Ho. rewrite Eo, Es. cbn [ns_gaveup ns_res flat_map fold_left forallb negb].
      rewrite ns_existsb_mid_map, (ns_existsb_mid_none _ _ A2). cbn [andb].
      apply (ns_mon_finish_ok c s s (ns_sq s) []); try assumption; try reflexivity.
      unfold ns_rel. cbn [app filter]. rewrite app_nil_r. repeat split.
  - (* separate response *)
    destruct H as (txs & Eo & Hr & He).
    ns_mon_open Ho. rewrite Eo, ns_gaveup_maptx, ns_res_maptx. cbn [fold_left forallb negb].
    rewrite <- He, <- Eo.
    pose proof (ns_filter_tok_map tok (ns_sq s)) as Hf.
    rewrite Hf.
    apply (ns_mon_finish_ok c s _ _ txs); try assumption.
    + eapply ns_rel_open; eassumption.
    + rewrite Eo. apply ns_txs_maptx.
  - (* up *)
    destruct H as (txs & Eo & Hr & He).
    ns_mon_open Ho. rewrite Eo, ns_gaveup_maptx, ns_res_maptx. cbn [fold_left forallb negb].
    rewrite <- He, <- Eo.
    apply (ns_mon_finish_ok c s _ (ns_sq s) txs); try assumption.
    + eapply ns_rel_open; eassumption.
    + rewrite Eo. apply ns_txs_maptx.
  - eapply ns_mon_step_fail; eassumption.
Qed.

Theorem ns_mon_run_ok c : ns_wf c -> forall evs s, ns_inv c s -> ns_budget s evs ->
  ns_mon_run c (ns_abs s) (ns_trace c s evs) = Some (ns_abs (ns_run c s evs)).
Proof.
  intros Hwf. induction evs as [|e r IH]; intros s Hi Hb; [reflexivity|].
  rewrite ns_trace_cons. cbn [ns_mon_run ns_run].
  rewrite (ns_mon_step_ok c s e r Hwf Hi Hb).
  apply IH; [apply ns_step_inv; assumption|apply ns_step_budget; assumption].
Qed.

(* the history checker accepts every history of the repaired session machine *)
Theorem ns_accepts_all c est0 evs : ns_wf c -> NoDup (ns_sub_mids evs) ->
  ns_accepts c est0 (ns_trace c (ns_init est0) evs) = true.
Proof.
  intros Hwf Hnd. unfold ns_accepts.
  change (ns_mkmon true est0 [] []) with (ns_abs (ns_init est0)).
  rewrite (ns_mon_run_ok c Hwf evs _ (ns_init_inv c est0 Hwf) (ns_init_budget est0 evs Hnd)).
  reflexivity.
Qed.

(* ---------------------------------------------------------------- statements for Properties_C08 *)
Lemma ns_run_budget c : ns_wf c -> forall evs s, ns_inv c s -> ns_budget s evs ->
  ns_budget (ns_run c s evs) [].
Proof.
  intros Hwf. induction evs as [|e r IH]; intros s Hi Hb; [exact Hb|].
  cbn [ns_run]. apply IH; [apply ns_step_inv; assumption|apply ns_step_budget; assumption].
Qed.

(* bound, on the state and on the trace: the in-flight set that the checker computes from the
   wire alone is the set of this session's CON nodes in the send queue, con_active is its size *)
Theorem ns_bound c est0 evs : ns_wf c -> NoDup (ns_sub_mids evs) ->
  let s := ns_run c (ns_init est0) evs in
  ns_act s = Z.of_nat (length (ns_sq s)) /\
  forallb ns_ncon (ns_sq s) = true /\
  Z.of_nat (length (ns_sq s)) <= ns_nstart c /\
  forallb ns_cnt0 (ns_dq s) = true /\
  exists m, ns_mon_run c (ns_mkmon true est0 [] []) (ns_trace c (ns_init est0) evs) = Some m /\
            ns_minfl m = map ns_nmsg (ns_sq s) /\ ns_mpend m = map ns_nmsg (ns_dq s) /\
            Z.of_nat (length (ns_minfl m)) <= ns_nstart c.
Proof.
  intros Hwf Hnd s.
  pose proof (ns_run_inv c Hwf evs _ (ns_init_inv c est0 Hwf)) as Hi. fold s in Hi.
  pose proof (iv_act _ _ Hi) as Ha. pose proof (iv_le _ _ Hi) as Hl.
  split; [exact Ha|]. split; [exact (iv_con _ _ Hi)|]. split; [lia|]. split; [exact (iv_cnt _ _ Hi)|].
  exists (ns_abs s). split.
  - change (ns_mkmon true est0 [] []) with (ns_abs (ns_init est0)).
    apply ns_mon_run_ok; [exact Hwf|apply ns_init_inv; exact Hwf|apply ns_init_budget; exact Hnd].
  - cbn [ns_abs ns_minfl ns_mpend]. rewrite map_length. repeat split. lia.
Qed.

(* nothing waits without a reason *)
Theorem ns_no_needless_hold c est0 evs : ns_wf c ->
  let s := ns_run c (ns_init est0) evs in
  ns_est s = true ->
  match ns_dq s with
  | [] => True
  | q :: _ => ns_ncon q = true /\ Z.of_nat (length (ns_sq s)) = ns_nstart c
  end.
Proof.
  intros Hwf s He.
  pose proof (ns_run_inv c Hwf evs _ (ns_init_inv c est0 Hwf)) as Hi. fold s in Hi.
  pose proof (iv_qui _ _ Hi He) as Hq. pose proof (iv_act _ _ Hi) as Ha.
  destruct (ns_dq s); [exact I|]. cbn [ns_quiet] in Hq. destruct Hq. split; [assumption|lia].
Qed.

(* a NON on an established session goes out inside coap_send(), whatever is waiting *)
Theorem ns_non_not_delayed c s m :
  ns_open s = true -> ns_est s = true -> ns_con m = false ->
  ns_step c s (NsSubmit m) = (s, [NsAcc; NsTx m]).
Proof.
  intros Ho He Hc. unfold ns_step, ns_submit. rewrite Ho, He, Hc. reflexivity.
Qed.

Lemma ns_closed_silent c : forall evs s, ns_open s = false ->
  ns_txs (flat_map snd (ns_trace c s evs)) = [] /\ ns_res (flat_map snd (ns_trace c s evs)) = [].
Proof.
  induction evs as [|e r IH]; intros s Ho; [split; reflexivity|].
  rewrite ns_trace_cons, ns_flat_snd_cons, ns_txs_app, ns_res_app.
  assert (E : fst (ns_step c s e) = s /\ ns_txs (snd (ns_step c s e)) = [] /\
              ns_res (snd (ns_step c s e)) = []).
  { unfold ns_step. rewrite Ho. cbn [negb]. destruct e; repeat split. }
  destruct E as (E1 & E2 & E3). rewrite E1, E2, E3. apply IH. exact Ho.
Qed.

(* the session fails: every held CON gets exactly one NACK, nothing held is transmitted, then
   or ever after *)
Theorem ns_fail_nacks c est0 evs r : ns_wf c -> NoDup (ns_sub_mids evs) -> r <> ns_ICMP ->
  let s := ns_run c (ns_init est0) evs in
  ns_open s = true ->
  let s' := fst (ns_step c s (NsFail r)) in
  let o := snd (ns_step c s (NsFail r)) in
  ns_dq s' = [] /\ ns_sq s' = [] /\ ns_txs o = [] /\ ns_res o = [] /\
  (forall q, In q (ns_dq s) -> ns_ncon q = true -> ns_nack_count (ns_nmid q) o = 1%nat) /\
  (forall evs' x, ~ In x (ns_sub_mids evs') ->
                  ~ In x (map ns_mid (ns_txs (flat_map snd (ns_trace c s' evs'))))) /\
  (ns_client c = true ->
   forall evs', ns_txs (flat_map snd (ns_trace c s' evs')) = [] /\
                ns_res (flat_map snd (ns_trace c s' evs')) = []).
Proof.
  intros Hwf Hnd Hr s Ho s' o.
  pose proof (ns_run_inv c Hwf evs _ (ns_init_inv c est0 Hwf)) as Hi. fold s in Hi.
  pose proof (ns_run_budget c Hwf evs _ (ns_init_inv c est0 Hwf) (ns_init_budget est0 evs Hnd)) as Hb.
  fold s in Hb.
  assert (Er : (r =? ns_ICMP) = false) by (apply Z.eqb_neq; exact Hr).
  assert (E : ns_step c s (NsFail r) = ns_fail c s r) by (unfold ns_step; rewrite Ho; reflexivity).
  unfold s', o. rewrite E.
  split; [unfold ns_fail; rewrite Er; reflexivity|].
  split; [unfold ns_fail; rewrite Er; reflexivity|].
  assert (T : ns_txs (snd (ns_fail c s r)) = [] /\ ns_res (snd (ns_fail c s r)) = []).
  { rewrite (ns_fail_shape c s r Er). cbn [snd].
    destruct (ns_ffirst_props s r) as (F1 & F2 & _).
    destruct (ns_fmid_props s r) as (M1 & M2 & _).
    rewrite !ns_txs_app, !ns_res_app, F1, F2, M1, M2, ns_txs_drops, ns_txs_nacks, ns_res_drops,
      ns_res_nacks. split; reflexivity. }
  destruct T as [T1 T2]. split; [exact T1|]. split; [exact T2|].
  split; [intros q Hq Hc; apply ns_fail_count; assumption|].
  split.
  - intros evs' x Hx.
    assert (Hi' : ns_inv c (fst (ns_fail c s r))).
    { rewrite <- E. apply ns_step_inv; assumption. }
    pose proof (ns_tx_budget c Hwf x evs' _ Hi') as Hbud.
    rewrite (ns_fail_shape c s r Er) in Hbud. cbn [fst ns_dq map] in Hbud.
    apply (count_occ_not_In Z.eq_dec) in Hx.
    rewrite (ns_fail_shape c s r Er). cbn [fst].
    apply (count_occ_not_In Z.eq_dec). unfold ns_cm in Hbud. cbn [map count_occ] in Hbud. lia.
  - intros Hcl evs'. apply ns_closed_silent. rewrite (ns_fail_shape c s r Er). cbn [fst ns_open].
    rewrite Hcl. reflexivity.
Qed.

(* soundness of the checker by itself: in any accepted history (of any implementation) the
   number of CONs in flight - transmitted and not acknowledged, reset, given up, cancelled -
   never exceeds NSTART *)
Lemma ns_rm_mid_len mid l : (length (ns_rm_mid mid l) <= length l)%nat.
Proof.
  induction l as [|h t IH]; [apply le_n|]. cbn [ns_rm_mid].
  destruct (ns_mid h =? mid); cbn [length]; lia.
Qed.

Lemma ns_fold_rm_len g l :
  (length (fold_left (fun l0 mid => ns_rm_mid mid l0) g l) <= length l)%nat.
Proof.
  revert l. induction g as [|x g IH]; intros l; [apply le_n|]. cbn [fold_left].
  pose proof (IH (ns_rm_mid x l)). pose proof (ns_rm_mid_len x l). lia.
Qed.

Lemma ns_mon_txs_bound nstart : forall txs infl pend infl' pend',
  Z.of_nat (length infl) <= nstart ->
  ns_mon_txs nstart infl pend txs = Some (infl', pend') -> Z.of_nat (length infl') <= nstart.
Proof.
  induction txs as [|x r IH]; intros infl pend infl' pend' Hl H.
  - destruct pend; cbn in H; inversion H; subst; exact Hl.
  - destruct pend as [|p pr]; [discriminate|]. cbn [ns_mon_txs] in H.
    destruct (ns_msg_eqb x p); [|discriminate].
    destruct (Z.of_nat (length (if ns_con x then infl ++ [x] else infl)) <=? nstart) eqn:E;
      [|discriminate].
    eapply IH; [|exact H]. lia.
Qed.

Lemma ns_mon_finish_bound c est infl pend o m :
  Z.of_nat (length infl) <= ns_nstart c ->
  ns_mon_finish c est infl pend o = Some m -> Z.of_nat (length (ns_minfl m)) <= ns_nstart c.
Proof.
  intros Hl H. unfold ns_mon_finish in H.
  destruct (ns_mon_txs (ns_nstart c) infl pend (ns_txs o)) as [[i' p']|] eqn:E; [|discriminate].
  destruct (ns_quiescent (ns_nstart c) est i' p'); [|discriminate].
  inversion H; subst. cbn [ns_minfl]. eapply ns_mon_txs_bound; eassumption.
Qed.

Theorem ns_mon_step_bound c m e o m' : 0 <= ns_nstart c ->
  Z.of_nat (length (ns_minfl m)) <= ns_nstart c ->
  ns_mon_step c m e o = Some m' -> Z.of_nat (length (ns_minfl m')) <= ns_nstart c.
Proof.
  intros Hn Hl H. unfold ns_mon_step in H.
  destruct (ns_mopen m).
  2: { cbn [negb] in H. destruct e; destruct o as [|[] [|]]; inversion H; subst; assumption. }
  cbn [negb] in H.
  set (infl0 := fold_left (fun l mid => ns_rm_mid mid l) (ns_gaveup o) (ns_minfl m)) in *.
  assert (H0 : Z.of_nat (length infl0) <= ns_nstart c).
  { pose proof (ns_fold_rm_len (ns_gaveup o) (ns_minfl m)). unfold infl0. lia. }
  destruct (negb (forallb _ (ns_res o))); [discriminate|].
  destruct e as [x|mid|mid|mid|tok| |r].
  - destruct (ns_accepted o).
    + destruct (ns_txs o) as [|y [|]]; [| |discriminate].
      * destruct (ns_mest m && negb (ns_con x)); [discriminate|].
        destruct (ns_quiescent _ _ _ _); inversion H; subst; exact H0.
      * destruct (ns_msg_eqb y x && ns_mest m); [|discriminate].
        destruct (Z.of_nat (length (if ns_con x then infl0 ++ [x] else infl0)) <=? ns_nstart c) eqn:E;
          inversion H; subst. cbn [ns_minfl]. lia.
    + destruct (ns_txs o); [|discriminate].
      destruct (existsb _ (ns_mpend m)); inversion H; subst; exact H0.
  - eapply ns_mon_finish_bound; [|exact H]. pose proof (ns_rm_mid_len mid infl0). lia.
  - eapply ns_mon_finish_bound; [|exact H]. pose proof (ns_rm_mid_len mid infl0). lia.
  - destruct (existsb _ (ns_minfl m) && _); [discriminate|].
    eapply ns_mon_finish_bound; [|exact H]. exact H0.
  - eapply ns_mon_finish_bound; [|exact H].
    pose proof (ns_filter_split (fun y => ns_tok y =? tok) infl0). cbn beta in *. lia.
  - eapply ns_mon_finish_bound; [|exact H]. exact H0.
  - destruct (r =? ns_ICMP).
    + destruct (ns_txs o); inversion H; subst; exact H0.
    + destruct (ns_txs o); [|discriminate].
      destruct (forallb _ (ns_mpend m)); inversion H; subst. cbn. exact Hn.
Qed.

Theorem ns_accepts_bound c : 0 <= ns_nstart c -> forall t m m',
  Z.of_nat (length (ns_minfl m)) <= ns_nstart c ->
  ns_mon_run c m t = Some m' -> Z.of_nat (length (ns_minfl m')) <= ns_nstart c.
Proof.
  intros Hn. induction t as [|[e o] r IH]; intros m m' Hl H.
  - inversion H; subst; exact Hl.
  - cbn [ns_mon_run] in H. destruct (ns_mon_step c m e o) as [m1|] eqn:E; [|discriminate].
    eapply IH; [|exact H]. eapply ns_mon_step_bound; eassumption.
Qed.

(* ---------------------------------------------------------------- non-vacuity *)
Definition ns_cfg_ex : ns_cfg := ns_mkcfg 2 1 true true true.
Definition ns_evs_ex : list ns_ev :=
  [NsSubmit (ns_mkmsg true 1 101); NsSubmit (ns_mkmsg false 2 102); NsSubmit (ns_mkmsg true 3 103);
   NsSubmit (ns_mkmsg true 4 104); NsUp; NsSubmit (ns_mkmsg true 5 105); NsSubmit (ns_mkmsg false 6 106);
   NsRst 2; NsAck 1; NsTick 3; NsTick 3; NsSep 104; NsSubmit (ns_mkmsg true 7 107);
   NsSubmit (ns_mkmsg true 8 108); NsFail 1].

(* a history that starts before the handshake is over, holds CONs and NONs, releases them on
   Up / ACK / give-up / cancel and ends in a disconnect with one CON still held *)
Lemma ns_example :
  ns_wf ns_cfg_ex /\ NoDup (ns_sub_mids ns_evs_ex) /\
  map ns_mid (ns_held (ns_trace ns_cfg_ex (ns_init false) ns_evs_ex)) = [1; 2; 3; 4; 5; 8] /\
  map ns_mid (ns_released (ns_trace ns_cfg_ex (ns_init false) ns_evs_ex)) = [1; 2; 3; 4; 5; 8] /\
  map ns_mid (ns_txs (flat_map snd (ns_trace ns_cfg_ex (ns_init false) ns_evs_ex))) = [1; 2; 3; 6; 4; 5; 7] /\
  ns_accepts ns_cfg_ex false (ns_trace ns_cfg_ex (ns_init false) ns_evs_ex) = true /\
  ns_nack_count 8 (flat_map snd (ns_trace ns_cfg_ex (ns_init false) ns_evs_ex)) = 1%nat.
Proof.
  split; [split; [reflexivity|cbn; lia]|].
  split; [cbn; repeat constructor; cbn; intuition discriminate|].
  vm_compute. repeat split.
Qed.

(* ---------------------------------------------------------------- soundness of the checker: FIFO *)
(* In any accepted history (of any implementation) the messages that are transmitted for the
   first time outside their own coap_send leave in the order in which they were held, none is
   skipped and none is transmitted twice: per event, what was pending before plus what the event
   holds = what the event releases plus what is pending after it. *)
Lemma ns_msg_eqb_eq a b : ns_msg_eqb a b = true -> a = b.
Proof.
  unfold ns_msg_eqb. intros H. apply andb_true_iff in H. destruct H as [H H3].
  apply andb_true_iff in H. destruct H as [H1 H2].
  apply eqb_prop in H1. apply Z.eqb_eq in H2. apply Z.eqb_eq in H3.
  destruct a, b. cbn in *. subst. reflexivity.
Qed.

Lemma ns_mon_txs_fifo nstart : forall txs infl pend infl' pend',
  ns_mon_txs nstart infl pend txs = Some (infl', pend') -> pend = txs ++ pend'.
Proof.
  induction txs as [|x r IH]; intros infl pend infl' pend' H.
  - destruct pend; cbn in H; inversion H; reflexivity.
  - destruct pend as [|p pr]; [discriminate|]. cbn [ns_mon_txs] in H.
    destruct (ns_msg_eqb x p) eqn:E; [|discriminate]. apply ns_msg_eqb_eq in E. subst p.
    destruct (Z.of_nat (length (if ns_con x then infl ++ [x] else infl)) <=? nstart); [|discriminate].
    cbn [app]. f_equal. eapply IH. exact H.
Qed.

Lemma ns_mon_finish_fifo c est infl pend o m :
  ns_mon_finish c est infl pend o = Some m -> pend = ns_txs o ++ ns_mpend m.
Proof.
  unfold ns_mon_finish. intros H.
  destruct (ns_mon_txs (ns_nstart c) infl pend (ns_txs o)) as [[i' p']|] eqn:E; [|discriminate].
  destruct (ns_quiescent (ns_nstart c) est i' p'); [|discriminate].
  inversion H; subst. cbn [ns_mpend]. eapply ns_mon_txs_fifo. exact E.
Qed.

(* first transmissions of an event that are not the event's own submission *)
Definition ns_rel_tx (eo : ns_ev * list ns_out) : list ns_msg :=
  match fst eo with NsSubmit _ => [] | _ => ns_txs (snd eo) end.

Theorem ns_mon_step_fifo c m e o m' : ns_mopen m = true ->
  ns_mon_step c m e o = Some m' ->
  match e with
  | NsFail r => if r =? ns_ICMP then ns_mpend m' = ns_mpend m else ns_mpend m' = []
  | _ => ns_mpend m ++ ns_held [(e, o)] = ns_rel_tx (e, o) ++ ns_mpend m'
  end.
Proof.
  intros Ho H. unfold ns_mon_step in H. rewrite Ho in H. cbn [negb] in H.
  set (infl0 := fold_left (fun l mid => ns_rm_mid mid l) (ns_gaveup o) (ns_minfl m)) in *.
  destruct (negb (forallb _ (ns_res o))); [discriminate|].
  unfold ns_rel_tx, ns_held. cbn [fst snd flat_map].
  destruct e as [x|mid|mid|mid|tok| |r]; rewrite ?app_nil_r.
  - destruct (ns_accepted o).
    + destruct (ns_txs o) as [|y [|]]; [| |discriminate]; cbn [andb].
      * destruct (ns_mest m && negb (ns_con x)); [discriminate|].
        destruct (ns_quiescent _ _ _ _); inversion H; subst. reflexivity.
      * destruct (ns_msg_eqb y x && ns_mest m); [|discriminate].
        destruct (Z.of_nat (length (if ns_con x then infl0 ++ [x] else infl0)) <=? ns_nstart c);
          inversion H; subst. cbn. rewrite app_nil_r. reflexivity.
    + cbn [andb]. destruct (ns_txs o); [|discriminate].
      destruct (existsb _ (ns_mpend m)); inversion H; subst. cbn. rewrite app_nil_r. reflexivity.
  - apply ns_mon_finish_fifo in H. exact H.
  - apply ns_mon_finish_fifo in H. exact H.
  - destruct (existsb _ (ns_minfl m) && _); [discriminate|]. apply ns_mon_finish_fifo in H. exact H.
  - apply ns_mon_finish_fifo in H. exact H.
  - apply ns_mon_finish_fifo in H. exact H.
  - destruct (r =? ns_ICMP).
    + destruct (ns_txs o); inversion H; subst. reflexivity.
    + destruct (ns_txs o); [|discriminate].
      destruct (forallb _ (ns_mpend m)); inversion H; subst. reflexivity.
Qed.

Definition ns_no_disconnect (t : list (ns_ev * list ns_out)) : Prop :=
  Forall (fun eo => match fst eo with NsFail r => r = ns_ICMP | _ => True end) t.

Theorem ns_accepts_fifo c : forall t m m', ns_mopen m = true -> ns_no_disconnect t ->
  ns_mon_run c m t = Some m' ->
  ns_mpend m ++ ns_held t = flat_map ns_rel_tx t ++ ns_mpend m' /\ ns_mopen m' = true.
Proof.
  induction t as [|[e o] r IH]; intros m m' Ho Hnd H.
  - inversion H; subst. cbn. rewrite app_nil_r. split; [reflexivity|exact Ho].
  - cbn [ns_mon_run] in H. destruct (ns_mon_step c m e o) as [m1|] eqn:E; [|discriminate].
    inversion Hnd as [|? ? Hd Hr]; subst.
    pose proof (ns_mon_step_fifo c m e o m1 Ho E) as Hs.
    assert (Ho1 : ns_mopen m1 = true).
    { unfold ns_mon_step in E. rewrite Ho in E. cbn [negb] in E.
      destruct (negb (forallb _ (ns_res o))); [discriminate|].
      destruct e as [x|mid|mid|mid|tok| |rr].
      - destruct (ns_accepted o).
        + destruct (ns_txs o) as [|y [|]]; [| |discriminate].
          * destruct (ns_mest m && negb (ns_con x)); [discriminate|].
            destruct (ns_quiescent _ _ _ _); inversion E; reflexivity.
          * destruct (ns_msg_eqb y x && ns_mest m); [|discriminate].
            destruct (Z.of_nat _ <=? ns_nstart c); inversion E; reflexivity.
        + destruct (ns_txs o); [|discriminate].
          destruct (existsb _ (ns_mpend m)); inversion E; reflexivity.
      - unfold ns_mon_finish in E. destruct (ns_mon_txs _ _ _ _) as [[? ?]|]; [|discriminate].
        destruct (ns_quiescent _ _ _ _); inversion E; reflexivity.
      - unfold ns_mon_finish in E. destruct (ns_mon_txs _ _ _ _) as [[? ?]|]; [|discriminate].
        destruct (ns_quiescent _ _ _ _); inversion E; reflexivity.
      - destruct (existsb _ (ns_minfl m) && _); [discriminate|].
        unfold ns_mon_finish in E. destruct (ns_mon_txs _ _ _ _) as [[? ?]|]; [|discriminate].
        destruct (ns_quiescent _ _ _ _); inversion E; reflexivity.
      - unfold ns_mon_finish in E. destruct (ns_mon_txs _ _ _ _) as [[? ?]|]; [|discriminate].
        destruct (ns_quiescent _ _ _ _); inversion E; reflexivity.
      - unfold ns_mon_finish in E. destruct (ns_mon_txs _ _ _ _) as [[? ?]|]; [|discriminate].
        destruct (ns_quiescent _ _ _ _); inversion E; reflexivity.
      - cbn [fst] in Hd. subst rr. rewrite Z.eqb_refl in E.
        destruct (ns_txs o); inversion E; reflexivity. }
    destruct (IH m1 m' Ho1 Hr H) as [A B]. split; [|exact B].
    assert (Hh : forall t0, ns_held ((e, o) :: t0) = ns_held [(e, o)] ++ ns_held t0).
    { intros t0. unfold ns_held. cbn [flat_map]. rewrite app_nil_r. reflexivity. }
    rewrite Hh. cbn [flat_map].
    destruct e as [x|mid|mid|mid|tok| |rr];
      try (rewrite app_assoc, Hs, <- !app_assoc; f_equal; exact A).
    cbn [fst] in Hd. subst rr. rewrite Z.eqb_refl in Hs.
    assert (Ht : ns_txs o = []).
    { unfold ns_mon_step in E. rewrite Ho in E. cbn [negb] in E.
      destruct (negb (forallb _ (ns_res o))); [discriminate|]. rewrite Z.eqb_refl in E.
      destruct (ns_txs o); [reflexivity|discriminate]. }
    unfold ns_rel_tx at 1. cbn [fst snd]. rewrite Ht. unfold ns_held at 1. cbn [flat_map fst app].
    rewrite <- Hs. exact A.
Qed.

(* none lost, the progress side: once every in-flight exchange of an established session has
   finished, nothing is left waiting (NSTART >= 1) *)
Theorem ns_drained_when_idle c est0 evs : ns_wf c -> 1 <= ns_nstart c ->
  let s := ns_run c (ns_init est0) evs in
  ns_est s = true -> ns_sq s = [] -> ns_dq s = [].
Proof.
  intros Hwf Hn s He Hs.
  pose proof (ns_no_needless_hold c est0 evs Hwf) as H. cbn zeta in H. fold s in H.
  specialize (H He). destruct (ns_dq s) as [|q t]; [reflexivity|].
  destruct H as [_ H]. rewrite Hs in H. cbn [length] in H. lia.
Qed.

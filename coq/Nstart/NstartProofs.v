(* C08 - proofs about the session machine of Nstart.v *)
From LibcoapV Require Import Base.Tactics Nstart.Nstart.
Local Open Scope Z_scope.

(* ---------------------------------------------------------------- the code as found *)
Definition ns_cfg_found : ns_cfg := ns_mkcfg 1 4 true false.
Definition ns_witness : list ns_ev :=
  [NsSubmit (ns_mkmsg true 1 11); NsSubmit (ns_mkmsg false 2 12); NsSubmit (ns_mkmsg true 3 13);
   NsRst 2].

(* Reset of a NON that the peer received: two CONs in flight with NSTART = 1 *)
Lemma ns_bound_refuted_found :
  exists evs,
    let t := ns_trace ns_cfg_found (ns_init true) evs in
    let s := ns_run ns_cfg_found (ns_init true) evs in
    ns_peer_ok [] t = true /\ NoDup (ns_sub_mids evs) /\
    ns_accepts ns_cfg_found true t = false /\
    map ns_nmid (ns_sq s) = [1; 3] /\ forallb ns_ncon (ns_sq s) = true /\
    map ns_mid (ns_txs (flat_map snd t)) = [1; 2; 3] /\
    Z.of_nat (length (ns_sq s)) > ns_nstart ns_cfg_found.
Proof.
  exists ns_witness. vm_compute. repeat split; try reflexivity.
  repeat constructor; simpl; intuition discriminate.
Qed.

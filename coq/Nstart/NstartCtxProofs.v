(* C08 - a session of a context with a shared send queue is the single-session machine *)
From LibcoapV Require Import Base.Tactics Nstart.Nstart Nstart.NstartProofs Nstart.NstartCtx.
Local Open Scope Z_scope.

(* ---- views of the shared queue ---- *)
Lemma nsc_view_app sid a b : nsc_view sid (a ++ b) = nsc_view sid a ++ nsc_view sid b.
Proof. unfold nsc_view. rewrite filter_app, map_app. reflexivity. Qed.

Lemma nsc_view_tag_same sid l : nsc_view sid (nsc_tag sid l) = l.
Proof.
  unfold nsc_view, nsc_tag. induction l as [|h t IH]; [reflexivity|].
  cbn [map filter]. unfold nsc_mine at 1. cbn [nsc_sid]. rewrite Z.eqb_refl. cbn [map nsc_nd].
  f_equal. exact IH.
Qed.

Lemma nsc_view_tag_other sid sid' l : sid' <> sid -> nsc_view sid' (nsc_tag sid l) = [].
Proof.
  intros H. unfold nsc_view, nsc_tag. induction l as [|h t IH]; [reflexivity|].
  cbn [map filter]. unfold nsc_mine at 1. cbn [nsc_sid].
  destruct (sid =? sid') eqn:E; [lia|]. exact IH.
Qed.

Lemma nsc_view_cons sid h t :
  nsc_view sid (h :: t) = if nsc_mine sid h then nsc_nd h :: nsc_view sid t else nsc_view sid t.
Proof. unfold nsc_view. cbn [filter]. destruct (nsc_mine sid h); reflexivity. Qed.

Lemma nsc_mine_other sid sid' h : nsc_mine sid h = true -> sid' <> sid -> nsc_mine sid' h = false.
Proof. unfold nsc_mine. intros. lia. Qed.

Lemma nsc_remove_none sid mid q : nsc_remove sid mid q = None ->
  ns_remove mid (nsc_view sid q) = None.
Proof.
  induction q as [|h t IH]; intros H; [reflexivity|]. cbn [nsc_remove] in H.
  rewrite nsc_view_cons.
  destruct (nsc_mine sid h) eqn:Em; cbn [andb] in H.
  - cbn [ns_remove]. destruct (ns_nmid (nsc_nd h) =? mid) eqn:E; [discriminate|].
    destruct (nsc_remove sid mid t) as [[x r']|]; [discriminate|]. rewrite (IH eq_refl). reflexivity.
  - destruct (nsc_remove sid mid t) as [[x r']|]; [discriminate|]. exact (IH eq_refl).
Qed.

Lemma nsc_remove_some sid mid q n q' : nsc_remove sid mid q = Some (n, q') ->
  ns_remove mid (nsc_view sid q) = Some (nsc_nd n, nsc_view sid q') /\
  (forall sid', sid' <> sid -> nsc_view sid' q' = nsc_view sid' q).
Proof.
  revert n q'. induction q as [|h t IH]; intros n q' H; [discriminate|]. cbn [nsc_remove] in H.
  rewrite nsc_view_cons.
  destruct (nsc_mine sid h) eqn:Em; cbn [andb] in H.
  - cbn [ns_remove]. destruct (ns_nmid (nsc_nd h) =? mid) eqn:E.
    + inversion H; subst. split; [reflexivity|]. intros sid' Hne.
      rewrite nsc_view_cons, (nsc_mine_other _ _ _ Em Hne). reflexivity.
    + destruct (nsc_remove sid mid t) as [[x r']|] eqn:Er; [|discriminate].
      inversion H; subst. destruct (IH n r' eq_refl) as [A B]. rewrite A.
      rewrite nsc_view_cons, Em. split; [reflexivity|].
      intros sid' Hne. rewrite !nsc_view_cons, (B sid' Hne). reflexivity.
  - destruct (nsc_remove sid mid t) as [[x r']|] eqn:Er; [|discriminate].
    inversion H; subst. destruct (IH n r' eq_refl) as [A B].
    rewrite nsc_view_cons, Em. split; [exact A|].
    intros sid' Hne. rewrite !nsc_view_cons, (B sid' Hne). reflexivity.
Qed.

Lemma nsc_bump_view sid mid q :
  nsc_view sid (nsc_bump sid mid q) = ns_bump mid (nsc_view sid q) /\
  (forall sid', sid' <> sid -> nsc_view sid' (nsc_bump sid mid q) = nsc_view sid' q).
Proof.
  induction q as [|h t [IH1 IH2]]; [split; [reflexivity|intros; reflexivity]|].
  cbn [nsc_bump]. rewrite (nsc_view_cons sid h t).
  destruct (nsc_mine sid h) eqn:Em; cbn [andb].
  - cbn [ns_bump]. destruct (ns_nmid (nsc_nd h) =? mid) eqn:E.
    + split.
      * rewrite nsc_view_cons. unfold nsc_mine in *. cbn [nsc_sid nsc_nd]. rewrite Em. reflexivity.
      * intros sid' Hne. rewrite !nsc_view_cons. unfold nsc_mine in *. cbn [nsc_sid].
        destruct (nsc_sid h =? sid') eqn:E2; [lia|]. reflexivity.
    + rewrite nsc_view_cons, Em, IH1. split; [reflexivity|].
      intros sid' Hne. rewrite !nsc_view_cons, (IH2 sid' Hne). reflexivity.
  - rewrite nsc_view_cons, Em. split; [exact IH1|].
    intros sid' Hne. rewrite !nsc_view_cons, (IH2 sid' Hne). reflexivity.
Qed.

Lemma nsc_hit_view sid tok q :
  nsc_view sid (filter (fun n => negb (nsc_hit sid tok n)) q) =
    filter (fun n => negb (ns_tok (ns_nmsg n) =? tok)) (nsc_view sid q) /\
  map nsc_nd (filter (nsc_hit sid tok) q) =
    filter (fun n => ns_tok (ns_nmsg n) =? tok) (nsc_view sid q) /\
  (forall sid', sid' <> sid ->
     nsc_view sid' (filter (fun n => negb (nsc_hit sid tok n)) q) = nsc_view sid' q).
Proof.
  induction q as [|h t (IH1 & IH2 & IH3)]; [repeat split|].
  cbn [filter]. rewrite (nsc_view_cons sid h t).
  assert (Hh : nsc_hit sid tok h = nsc_mine sid h && (ns_tok (ns_nmsg (nsc_nd h)) =? tok))
    by reflexivity.
  rewrite Hh. clear Hh.
  destruct (nsc_mine sid h) eqn:Em; cbn [andb].
  - cbn [filter]. destruct (ns_tok (ns_nmsg (nsc_nd h)) =? tok) eqn:E; cbn [negb map].
    + rewrite IH1, IH2. repeat split. intros sid' Hne.
      rewrite nsc_view_cons, (nsc_mine_other _ _ _ Em Hne). apply IH3. exact Hne.
    + rewrite nsc_view_cons, Em, IH1, IH2. repeat split. intros sid' Hne.
      rewrite !nsc_view_cons, (IH3 sid' Hne). reflexivity.
  - cbn [negb]. rewrite nsc_view_cons, Em, IH1, IH2. repeat split. intros sid' Hne.
    rewrite !nsc_view_cons, (IH3 sid' Hne). reflexivity.
Qed.

Lemma nsc_clear_view sid q :
  nsc_view sid (filter (fun n => negb (nsc_mine sid n)) q) = [] /\
  (forall sid', sid' <> sid ->
     nsc_view sid' (filter (fun n => negb (nsc_mine sid n)) q) = nsc_view sid' q).
Proof.
  induction q as [|h t [IH1 IH2]]; [split; [reflexivity|intros; reflexivity]|].
  cbn [filter].
  destruct (nsc_mine sid h) eqn:Em; cbn [negb].
  - split; [exact IH1|]. intros sid' Hne.
    rewrite nsc_view_cons, (nsc_mine_other _ _ _ Em Hne). apply IH2. exact Hne.
  - rewrite nsc_view_cons, Em. split; [exact IH1|].
    intros sid' Hne. rewrite !nsc_view_cons, (IH2 sid' Hne). reflexivity.
Qed.

(* ---- simulation of the helpers ---- *)
Definition nsc_sim (sid : Z) (q : list nsc_node)
  (r : ns_st * list nsc_node * list ns_out) (r1 : ns_st * list ns_out) : Prop :=
  ns_set_sq (fst (fst r)) (nsc_view sid (snd (fst r))) = fst r1 /\ snd r = snd r1 /\
  (forall sid', sid' <> sid -> nsc_view sid' (snd (fst r)) = nsc_view sid' q).

Lemma nsc_connected_sim c sid s q :
  nsc_sim sid q (nsc_connected c sid s q) (ns_connected c (ns_set_sq s (nsc_view sid q))).
Proof.
  unfold nsc_connected, ns_connected. ns_simp.
  destruct (ns_drain c (ns_act s) (ns_dq s)) as [[[a r] snt] o].
  unfold nsc_sim. ns_simp. rewrite nsc_view_app, nsc_view_tag_same.
  repeat split. intros sid' Hne. rewrite nsc_view_app, (nsc_view_tag_other sid sid' snt Hne).
  apply app_nil_r.
Qed.

Lemma nsc_dec_drain_sim c sid s q :
  nsc_sim sid q (nsc_dec_drain c sid s q) (ns_dec_drain c (ns_set_sq s (nsc_view sid q))).
Proof.
  unfold nsc_dec_drain, ns_dec_drain. ns_simp.
  destruct (ns_act s =? 0); [unfold nsc_sim; ns_simp; repeat split|].
  destruct (ns_est s).
  - exact (nsc_connected_sim c sid (ns_set_act s (ns_act s - 1)) q).
  - unfold nsc_sim. ns_simp. repeat split.
Qed.

Lemma nsc_dec_n_sim c sid k : forall s q,
  nsc_sim sid q (nsc_dec_n c sid k s q) (ns_dec_n c k (ns_set_sq s (nsc_view sid q))).
Proof.
  induction k as [|k IH]; intros s q; [unfold nsc_sim; cbn; repeat split|].
  cbn [nsc_dec_n ns_dec_n].
  pose proof (nsc_dec_drain_sim c sid s q) as (A1 & A2 & A3).
  destruct (nsc_dec_drain c sid s q) as [[s1 q1] o1].
  destruct (ns_dec_drain c (ns_set_sq s (nsc_view sid q))) as [t1 p1]. ns_simp. subst t1 p1.
  pose proof (IH s1 q1) as (B1 & B2 & B3).
  destruct (nsc_dec_n c sid k s1 q1) as [[s2 q2] o2].
  destruct (ns_dec_n c k (ns_set_sq s1 (nsc_view sid q1))) as [t2 p2]. ns_simp. subst t2 p2.
  unfold nsc_sim. ns_simp. repeat split. intros sid' Hne. rewrite (B3 sid' Hne). apply A3. exact Hne.
Qed.

(* ---- one event ---- *)
Lemma nsc_filter_con_map l :
  length (filter (fun n => ns_ncon (nsc_nd n)) l) = length (filter ns_ncon (map nsc_nd l)).
Proof.
  induction l as [|h t IH]; [reflexivity|]. cbn [filter map].
  destruct (ns_ncon (nsc_nd h)); cbn [length]; rewrite IH; reflexivity.
Qed.

Theorem nsc_step_proj cf x sid e :
  nsc_proj (fst (nsc_step cf x sid e)) sid = fst (ns_step (cf sid) (nsc_proj x sid) e) /\
  snd (nsc_step cf x sid e) = snd (ns_step (cf sid) (nsc_proj x sid) e) /\
  (forall sid', sid' <> sid -> nsc_proj (fst (nsc_step cf x sid e)) sid' = nsc_proj x sid').
Proof.
  unfold nsc_step, nsc_proj.
  set (c := cf sid). set (s := nsc_ss x sid). set (q := nsc_q x).
  assert (G : forall r r1, nsc_sim sid q r r1 ->
    ns_set_sq (nsc_ss (fst (let '(s', q', o) := r in
                 (nsc_mk (fun k => if k =? sid then s' else nsc_ss x k) q', o))) sid)
              (nsc_view sid (nsc_q (fst (let '(s', q', o) := r in
                 (nsc_mk (fun k => if k =? sid then s' else nsc_ss x k) q', o))))) = fst r1 /\
    snd (let '(s', q', o) := r in
         (nsc_mk (fun k => if k =? sid then s' else nsc_ss x k) q', o)) = snd r1 /\
    (forall sid', sid' <> sid ->
      ns_set_sq (nsc_ss (fst (let '(s', q', o) := r in
                   (nsc_mk (fun k => if k =? sid then s' else nsc_ss x k) q', o))) sid')
                (nsc_view sid' (nsc_q (fst (let '(s', q', o) := r in
                   (nsc_mk (fun k => if k =? sid then s' else nsc_ss x k) q', o))))) =
      ns_set_sq (nsc_ss x sid') (nsc_view sid' q))).
  { intros [[s' q'] o] r1 (A1 & A2 & A3). cbn [fst snd nsc_ss nsc_q] in *.
    rewrite Z.eqb_refl. split; [exact A1|]. split; [exact A2|].
    intros sid' Hne. destruct (sid' =? sid) eqn:E; [lia|]. rewrite (A3 sid' Hne). reflexivity. }
  apply G. clear G.
  unfold ns_step. ns_simp. fold s.
  destruct (ns_open s) eqn:Ho; cbn [negb].
  2: { destruct e; unfold nsc_sim; ns_simp; repeat split. }
  destruct e as [m|mid|mid|mid|tok| |rr].
  - unfold nsc_submit, ns_submit. ns_simp.
    destruct (negb (ns_est s) || ns_con m && (ns_nstart c <=? ns_act s)).
    + destruct (existsb _ (ns_dq s)); unfold nsc_sim; ns_simp; repeat split.
    + destruct (ns_con m); unfold nsc_sim; ns_simp; [|repeat split].
      change [nsc_mknode sid (ns_mknode m 0)] with (nsc_tag sid [ns_mknode m 0]).
      rewrite nsc_view_app, nsc_view_tag_same. repeat split.
      intros sid' Hne. rewrite nsc_view_app, (nsc_view_tag_other sid sid' _ Hne). apply app_nil_r.
  - unfold nsc_ack, ns_ack. ns_simp.
    destruct (nsc_remove sid mid q) as [[n q']|] eqn:Er.
    + destruct (nsc_remove_some _ _ _ _ _ Er) as [R1 R2]. rewrite R1.
      pose proof (nsc_dec_drain_sim c sid s q') as (A1 & A2 & A3).
      destruct (nsc_dec_drain c sid s q') as [[s1 q1] o1].
      change (ns_set_sq (ns_set_sq s (nsc_view sid q)) (nsc_view sid q'))
        with (ns_set_sq s (nsc_view sid q')).
      destruct (ns_dec_drain c (ns_set_sq s (nsc_view sid q'))) as [t1 p1]. ns_simp. subst t1 p1.
      unfold nsc_sim. ns_simp. repeat split. intros sid' Hne. rewrite (A3 sid' Hne). apply R2. exact Hne.
    + rewrite (nsc_remove_none _ _ _ Er). unfold nsc_sim. ns_simp. repeat split.
  - unfold nsc_rst, ns_rst. destruct (ns_fixed c).
    + ns_simp. destruct (nsc_remove sid mid q) as [[n q']|] eqn:Er.
      * destruct (nsc_remove_some _ _ _ _ _ Er) as [R1 R2]. rewrite R1.
        change (ns_set_sq (ns_set_sq s (nsc_view sid q)) (nsc_view sid q'))
          with (ns_set_sq s (nsc_view sid q')).
        destruct (ns_ncon (nsc_nd n)).
        -- pose proof (nsc_dec_drain_sim c sid s q') as (A1 & A2 & A3).
           destruct (nsc_dec_drain c sid s q') as [[s1 q1] o1].
           destruct (ns_dec_drain c (ns_set_sq s (nsc_view sid q'))) as [t1 p1]. ns_simp. subst t1 p1.
           unfold nsc_sim. ns_simp. repeat split.
           intros sid' Hne. rewrite (A3 sid' Hne). apply R2. exact Hne.
        -- unfold nsc_sim. ns_simp. repeat split. exact R2.
      * rewrite (nsc_remove_none _ _ _ Er). unfold nsc_sim. ns_simp. repeat split.
    + pose proof (nsc_dec_drain_sim c sid s q) as (A1 & A2 & A3).
      destruct (nsc_dec_drain c sid s q) as [[s1 q1] o1].
      destruct (ns_dec_drain c (ns_set_sq s (nsc_view sid q))) as [t1 p1]. ns_simp. subst t1 p1.
      destruct (nsc_remove sid mid q1) as [[n q2]|] eqn:Er; ns_simp.
      * destruct (nsc_remove_some _ _ _ _ _ Er) as [R1 R2]. rewrite R1.
        unfold nsc_sim. ns_simp. repeat split.
        intros sid' Hne. rewrite (R2 sid' Hne). apply A3. exact Hne.
      * rewrite (nsc_remove_none _ _ _ Er). unfold nsc_sim. ns_simp. repeat split. exact A3.
  - unfold nsc_tick, ns_tick. ns_simp.
    destruct (nsc_remove sid mid q) as [[n q']|] eqn:Er.
    + destruct (nsc_remove_some _ _ _ _ _ Er) as [R1 R2]. rewrite R1.
      destruct (ns_cnt (nsc_nd n) <? ns_maxrt c).
      * destruct (negb (ns_est s) || ns_ncon (nsc_nd n) &&
                  (ns_nstart c <=? (if ns_act s =? 0 then 0 else ns_act s - 1))).
        -- unfold nsc_sim. ns_simp. repeat split. exact R2.
        -- destruct (nsc_bump_view sid mid q) as [B1 B2].
           unfold nsc_sim. ns_simp. rewrite B1. repeat split. exact B2.
      * change (ns_set_sq (ns_set_sq s (nsc_view sid q)) (nsc_view sid q'))
          with (ns_set_sq s (nsc_view sid q')).
        pose proof (nsc_dec_drain_sim c sid s q') as (A1 & A2 & A3).
        destruct (nsc_dec_drain c sid s q') as [[s1 q1] o1].
        destruct (ns_dec_drain c (ns_set_sq s (nsc_view sid q'))) as [t1 p1]. ns_simp. subst t1 p1.
        unfold nsc_sim. ns_simp. repeat split.
        intros sid' Hne. rewrite (A3 sid' Hne). apply R2. exact Hne.
    + rewrite (nsc_remove_none _ _ _ Er). unfold nsc_sim. ns_simp. repeat split.
  - unfold nsc_sep, ns_sep. ns_simp.
    destruct (nsc_hit_view sid tok q) as (H1 & H2 & H3).
    rewrite nsc_filter_con_map, H2.
    change (ns_set_sq (ns_set_sq s (nsc_view sid q))
              (filter (fun n => negb (ns_tok (ns_nmsg n) =? tok)) (nsc_view sid q)))
      with (ns_set_sq s (filter (fun n => negb (ns_tok (ns_nmsg n) =? tok)) (nsc_view sid q))).
    rewrite <- H1.
    match goal with |- nsc_sim _ _ (nsc_dec_n _ _ ?k _ ?qq) _ =>
      pose proof (nsc_dec_n_sim c sid k s qq) as (A1 & A2 & A3) end.
    unfold nsc_sim. split; [exact A1|]. split; [exact A2|].
    intros sid' Hne. rewrite (A3 sid' Hne). apply H3. exact Hne.
  - exact (nsc_connected_sim c sid s q).
  - unfold nsc_fail, ns_fail. ns_simp.
    destruct (rr =? ns_ICMP).
    + unfold nsc_sim. ns_simp. repeat split.
    + destruct (nsc_clear_view sid q) as [C1 C2].
      unfold nsc_sim. ns_simp. rewrite C1. repeat split. exact C2.
Qed.

(* ---- whole histories ---- *)
Theorem nsc_run_proj cf : forall evs x sid,
  nsc_proj (nsc_run cf x evs) sid = ns_run (cf sid) (nsc_proj x sid) (nsc_evs_of sid evs) /\
  nsc_trace_of sid (nsc_trace cf x evs) = ns_trace (cf sid) (nsc_proj x sid) (nsc_evs_of sid evs).
Proof.
  induction evs as [|[k e] r IH]; intros x sid; [split; reflexivity|].
  cbn [nsc_run nsc_trace]. unfold nsc_evs_of, nsc_trace_of in *. cbn [filter fst snd].
  destruct (nsc_step_proj cf x k e) as (A1 & A2 & A3).
  destruct (nsc_step cf x k e) as [x' o] eqn:Es. cbn [fst snd] in *.
  destruct (IH x' sid) as [B1 B2].
  destruct (k =? sid) eqn:Ek.
  - assert (k = sid) by lia. subst k. cbn [map filter fst snd]. rewrite Z.eqb_refl.
    cbn [map fst snd ns_run ns_trace]. rewrite <- A1.
    destruct (ns_step (cf sid) (nsc_proj x sid) e) as [s1 o1] eqn:E1. cbn [fst snd] in *. subst o1.
    split; [rewrite B1; subst s1; reflexivity|]. subst s1. rewrite B2. reflexivity.
  - assert (Hne : sid <> k) by lia. cbn [filter fst snd]. rewrite Ek.
    rewrite <- (A3 sid Hne). split; [exact B1|exact B2].
Qed.

Lemma nsc_init_proj est0 sid : nsc_proj (nsc_init est0) sid = ns_init (est0 sid).
Proof. reflexivity. Qed.

(* each session of a context with a shared send queue, whatever the other sessions do:
   the bound (state and checker), FIFO, once *)
Theorem nsc_bound cf est0 evs sid : ns_wf (cf sid) ->
  NoDup (ns_sub_mids (nsc_evs_of sid evs)) ->
  let x := nsc_run cf (nsc_init est0) evs in
  let mine := nsc_view sid (nsc_q x) in
  ns_act (nsc_ss x sid) = Z.of_nat (length mine) /\
  forallb ns_ncon mine = true /\
  Z.of_nat (length mine) <= ns_nstart (cf sid) /\
  ns_accepts (cf sid) (est0 sid) (nsc_trace_of sid (nsc_trace cf (nsc_init est0) evs)) = true.
Proof.
  intros Hwf Hnd x mine.
  destruct (nsc_run_proj cf evs (nsc_init est0) sid) as [A B]. rewrite nsc_init_proj in A, B.
  pose proof (ns_bound (cf sid) (est0 sid) (nsc_evs_of sid evs) Hwf Hnd) as H. cbn zeta in H.
  rewrite <- A in H. fold x in H. unfold nsc_proj in H. ns_simp. fold mine in H.
  destruct H as (H1 & H2 & H3 & _). repeat split; try assumption.
  rewrite B. apply ns_accepts_all; assumption.
Qed.

Theorem nsc_fifo_once cf est0 evs sid : ns_wf (cf sid) ->
  let t := nsc_trace_of sid (nsc_trace cf (nsc_init est0) evs) in
  ns_released t ++ map ns_nmsg (ns_dq (nsc_ss (nsc_run cf (nsc_init est0) evs) sid)) = ns_held t.
Proof.
  intros Hwf t.
  destruct (nsc_run_proj cf evs (nsc_init est0) sid) as [A B]. rewrite nsc_init_proj in A, B.
  unfold t. rewrite B.
  pose proof (ns_fifo_once (cf sid) Hwf (nsc_evs_of sid evs) _ (ns_init_inv (cf sid) (est0 sid) Hwf)) as H.
  rewrite <- A in H. unfold nsc_proj in H. ns_simp. exact H.
Qed.

(* non-vacuity: two sessions with the same message ids interleaved on one queue *)
Definition nsc_cf_ex (k : Z) : ns_cfg := ns_mkcfg 1 1 true true true.
Definition nsc_evs_ex : list (Z * ns_ev) :=
  [(0, NsSubmit (ns_mkmsg true 7 101)); (1, NsSubmit (ns_mkmsg true 7 201));
   (0, NsSubmit (ns_mkmsg true 8 102)); (1, NsSubmit (ns_mkmsg true 8 202));
   (1, NsAck 7); (0, NsRst 7); (0, NsTick 8); (0, NsTick 8); (1, NsTick 8); (1, NsFail 2)].

Lemma nsc_example :
  let x := nsc_run nsc_cf_ex (nsc_init (fun _ => true)) nsc_evs_ex in
  map (fun n => (nsc_sid n, ns_nmid (nsc_nd n))) (nsc_q x) = [] /\
  map (fun p => (fst (fst p), snd p)) (nsc_trace nsc_cf_ex (nsc_init (fun _ => true)) nsc_evs_ex) =
   [(0, [NsAcc; NsTx (ns_mkmsg true 7 101)]); (1, [NsAcc; NsTx (ns_mkmsg true 7 201)]);
    (0, [NsAcc]); (1, [NsAcc]);
    (1, [NsTx (ns_mkmsg true 8 202)]);
    (0, [NsTx (ns_mkmsg true 8 102); NsNack 2 7 true]);
    (0, [NsRe (ns_mkmsg true 8 102)]); (0, [NsNack 0 8 true]);
    (1, [NsRe (ns_mkmsg true 8 202)]); (1, [NsNack 2 8 true])].
Proof. vm_compute. split; reflexivity. Qed.

(* C08 - extension of the session machine by failing socket writes (coap_socket_send returns -1:
   ENOBUFS, ECONNREFUSED after an ICMP error, ...).  From the property's point of view a write
   that fails is a datagram lost at once; what matters here is that con_active stays equal to
   the number of the session's nodes in the send queue.

   [nsf_wfail] = "the next socket write fails" (set by the event [NsfErr], consumed by the first
   write that is attempted).  While the flag is clear the machine is [ns_step] itself.

   Transcribed for a failing write:
     coap_send_internal     : bytes_written < 0 -> pdu deleted, COAP_INVALID_MID, nothing changes
     coap_session_connected : CON: con_active++ BEFORE the write, coap_wait_ack() anyway, break;
                              NON: node deleted (lost), break
     coap_retransmit        : con_active-- , coap_send_pdu() fails -> no ++ (as found); the node
                              was re-inserted into the send queue before and stays there;
                              repaired: the slot is taken back. *)
From LibcoapV Require Import Base.Tactics Nstart.Nstart.
Local Open Scope Z_scope.

Record nsf_st := nsf_mk { nsf_s : ns_st; nsf_wfail : bool }.

Inductive nsf_ev :=
| NsfEv (e : ns_ev)
| NsfErr.                    (* the next socket write will fail *)

(* coap_session_connected() whose first write fails -> (state, outputs, write attempted) *)
Definition nsf_connected (c : ns_cfg) (s : ns_st) : ns_st * list ns_out * bool :=
  match ns_dq s with
  | [] => (ns_mkst (ns_open s) true (ns_act s) [] (ns_sq s) (ns_lg s), [], false)
  | q :: rest =>
    if ns_ncon q then
      if ns_nstart c <=? ns_act s then
        (ns_mkst (ns_open s) true (ns_act s) (ns_dq s) (ns_sq s) (ns_lg s), [], false)
      else
        (ns_mkst (ns_open s) true (ns_inc (ns_act s)) rest (ns_sq s ++ [q]) (ns_lg s),
         [NsErrW (ns_nmsg q)], true)
    else
      (ns_mkst (ns_open s) true (ns_act s) rest (ns_sq s) (ns_lg s), [NsErrW (ns_nmsg q)], true)
  end.

Definition nsf_dec_drain (c : ns_cfg) (s : ns_st) : ns_st * list ns_out * bool :=
  if ns_act s =? 0 then (s, [], false)
  else
    let s1 := ns_set_act s (ns_act s - 1) in
    if ns_est s1 then nsf_connected c s1 else (s1, [], false).

(* k times "--, flush"; the first write that is attempted fails, later ones succeed *)
Fixpoint nsf_dec_n (c : ns_cfg) (k : nat) (s : ns_st) (fl : bool) : ns_st * list ns_out * bool :=
  match k with
  | O => (s, [], fl)
  | S k' =>
    if fl then
      match nsf_dec_drain c s with
      | (s1, o1, used) =>
        match nsf_dec_n c k' s1 (negb used) with (s2, o2, fl2) => (s2, o1 ++ o2, fl2) end
      end
    else
      match ns_dec_drain c s with
      | (s1, o1) => match nsf_dec_n c k' s1 false with (s2, o2, fl2) => (s2, o1 ++ o2, fl2) end
      end
  end.

(* one event while the next write is going to fail -> (state, outputs, flag afterwards) *)
Definition nsf_step_fail (c : ns_cfg) (s : ns_st) (e : ns_ev) : ns_st * list ns_out * bool :=
  if negb (ns_open s) then
    match e with NsSubmit _ => (s, [NsRef], true) | _ => (s, [], true) end
  else
  match e with
  | NsSubmit m =>
    if negb (ns_est s) || (ns_con m && (ns_nstart c <=? ns_act s)) then
      match ns_submit c s m with (s', o) => (s', o, true) end     (* held: no write *)
    else (s, [NsRef; NsErrW m], false)
  | NsAck mid =>
    match ns_remove mid (ns_sq s) with
    | None => (s, [], true)
    | Some (n, q) =>
      match nsf_dec_drain c (ns_set_sq s q) with
      | (s1, o, used) =>
        (ns_mkst (ns_open s1) (ns_est s1) (ns_act s1) (ns_dq s1) (ns_sq s1)
                 (if ns_client c then mid :: ns_lg s1 else ns_lg s1), o, negb used)
      end
    end
  | NsRst mid =>
    if ns_fixed c then
      match ns_remove mid (ns_sq s) with
      | None => (s, [NsNack ns_RST mid false], true)
      | Some (n, q) =>
        match (if ns_ncon n then nsf_dec_drain c (ns_set_sq s q) else (ns_set_sq s q, [], false)) with
        | (s2, o, used) => (s2, o ++ (if ns_ncon n then [NsNack ns_RST mid true] else []), negb used)
        end
      end
    else
      match nsf_dec_drain c s with
      | (s1, o, used) =>
        match ns_remove mid (ns_sq s1) with
        | None => (s1, o ++ [NsNack ns_RST mid false], negb used)
        | Some (n, q) =>
          (ns_set_sq s1 q, o ++ (if ns_ncon n then [NsNack ns_RST mid true] else []), negb used)
        end
      end
  | NsTick mid =>
    match ns_remove mid (ns_sq s) with
    | None => (s, [], true)
    | Some (n, q) =>
      if ns_cnt n <? ns_maxrt c then
        let n' := ns_mknode (ns_nmsg n) (ns_cnt n + 1) in
        let a1 := if ns_act s =? 0 then 0 else ns_act s - 1 in
        if negb (ns_est s) || (ns_ncon n && (ns_nstart c <=? a1)) then
          (ns_mkst (ns_open s) (ns_est s) a1 (ns_dq s ++ [n']) q (ns_lg s), [], true)
        else
          (* the write fails: as found the slot released for the re-send is not taken back
             although the node stays in the send queue *)
          (ns_mkst (ns_open s) (ns_est s)
                   (if ns_fixed c && negb (ns_act s =? 0) then a1 + 1 else a1)
                   (ns_dq s) (ns_bump mid (ns_sq s)) (ns_lg s),
           [NsErrW (ns_nmsg n)], false)
      else
        match nsf_dec_drain c (ns_set_sq s q) with
        | (s2, o, used) =>
          (s2, o ++ (if ns_ncon n then [NsNack ns_TOO_MANY mid true] else []), negb used)
        end
    end
  | NsSep tok =>
    let hit := filter (fun n => ns_tok (ns_nmsg n) =? tok) (ns_sq s) in
    let keep := filter (fun n => negb (ns_tok (ns_nmsg n) =? tok)) (ns_sq s) in
    nsf_dec_n c (length (filter ns_ncon hit)) (ns_set_sq s keep) true
  | NsUp => match nsf_connected c s with (s', o, used) => (s', o, negb used) end
  | NsFail r => match ns_fail c s r with (s', o) => (s', o, true) end
  end.

Definition nsf_step (c : ns_cfg) (x : nsf_st) (ev : nsf_ev) : nsf_st * list ns_out :=
  match ev with
  | NsfErr => (nsf_mk (nsf_s x) true, [])
  | NsfEv e =>
    if nsf_wfail x then
      match nsf_step_fail c (nsf_s x) e with (s', o, fl) => (nsf_mk s' fl, o) end
    else
      match ns_step c (nsf_s x) e with (s', o) => (nsf_mk s' false, o) end
  end.

Fixpoint nsf_run (c : ns_cfg) (x : nsf_st) (evs : list nsf_ev) : nsf_st :=
  match evs with
  | [] => x
  | e :: r => nsf_run c (fst (nsf_step c x e)) r
  end.

Fixpoint nsf_trace (c : ns_cfg) (x : nsf_st) (evs : list nsf_ev) : list (nsf_ev * list ns_out) :=
  match evs with
  | [] => []
  | e :: r => match nsf_step c x e with (x', o) => (e, o) :: nsf_trace c x' r end
  end.

Definition nsf_init (est0 : bool) : nsf_st := nsf_mk (ns_init est0) false.

(* ------------------------------------------------------------------------------------------
   Bound-only checker of an observable history with write failures: a failed write counts as
   a datagram that was lost at once.  (The full checker ns_accepts is not used on these
   histories: after a failed write the flush loop stops, so a held message may wait although
   a slot is free.) *)
Definition nsb_firsts (o : list ns_out) : list ns_msg :=
  flat_map (fun x => match x with NsTx m => [m] | NsErrW m => [m] | _ => [] end) o.

Record nsb_st := nsb_mk { nsb_open : bool; nsb_est : bool; nsb_infl : list ns_msg }.

Definition nsb_step (c : ns_cfg) (st : nsb_st) (e : nsf_ev) (o : list ns_out) : option nsb_st :=
  match e with
  | NsfErr => Some st
  | NsfEv e =>
    let infl := nsb_infl st in
    let infl0 := fold_left (fun l mid => ns_rm_mid mid l) (ns_gaveup o) infl in
    let infl1 :=
      match e with
      | NsAck mid | NsRst mid => ns_rm_mid mid infl0
      | NsSep tok => filter (fun y => negb (ns_tok y =? tok)) infl0
      | NsFail r => if r =? ns_ICMP then infl0 else []
      | _ => infl0
      end in
    let refused := existsb (fun x => match x with NsRef => true | _ => false end) o in
    (* first transmissions (also attempted ones) of CONs that were accepted; an id that is
       already counted is a retransmission *)
    let news := filter (fun m => ns_con m && negb (existsb (fun y => ns_mid y =? ns_mid m) infl1))
                       (if refused then [] else nsb_firsts o) in
    let infl2 := infl1 ++ news in
    (* a slot that stays taken by nothing: a CON that is accepted and held on an open, established
       session although no CON at all is in flight (this holds under failing writes too: a write
       that failed in coap_send gave COAP_INVALID_MID and must not keep a slot) *)
    let stuck :=
      match e with
      | NsSubmit x =>
        ns_con x && negb refused && ns_accepted o && nsb_open st && nsb_est st &&
        (1 <=? ns_nstart c) &&
        match nsb_firsts o, infl1 with [], [] => true | _, _ => false end
      | _ => false
      end in
    let open' := match e with
                 | NsFail r => if r =? ns_ICMP then nsb_open st else nsb_open st && negb (ns_client c)
                 | _ => nsb_open st end in
    let est' := match e with
                | NsUp => true
                | NsFail r => if r =? ns_ICMP then nsb_est st else ns_udp c
                | _ => nsb_est st end in
    if stuck then None
    else if Z.of_nat (length infl2) <=? ns_nstart c then Some (nsb_mk open' est' infl2) else None
  end.

(* index of the first event at which the bound is exceeded (or a slot is stuck) *)
Fixpoint nsb_run (c : ns_cfg) (st : nsb_st) (t : list (nsf_ev * list ns_out)) (i : Z) : option Z :=
  match t with
  | [] => None
  | (e, o) :: r =>
    match nsb_step c st e o with
    | None => Some i
    | Some st' => nsb_run c st' r (i + 1)
    end
  end.

(* C08 - NSTART accounting of one datagram (UDP/DTLS-like) session of libcoap.

   Transcribed from /repo/src/coap_net.c and /repo/src/coap_session.c:
     coap_send_pdu            -> ns_submit       (delay if not ESTABLISHED or CON && con_active >= NSTART)
     coap_session_delay_pdu   -> ns_submit (append, duplicate-mid refusal) / ns_tick (node moved back)
     coap_session_connected   -> ns_connected / ns_drain (drain while con_active < NSTART)
     coap_dispatch, ACK       -> ns_ack          (sent && con_active: --, drain)
     coap_dispatch, RST       -> ns_rst          (as found: -- before the lookup; repaired: like ACK)
     coap_retransmit          -> ns_tick         (--, coap_send_pdu(node) ++ | give up: --, drain, NACK)
     coap_cancel_all_messages -> ns_sep          (per cancelled CON node: --, drain)
     coap_session_disconnected_lkd + coap_cancel_session_messages -> ns_fail
   Time is abstracted: [EvTick mid] says "the retransmission timer of the send-queue node with
   this message id fires"; which node fires when is left to the environment (every order is
   covered by the theorems).  Socket writes succeed.  [ns_fixed c = false] is the code as found
   (pinned commit), [true] the code after the repair of the RST branch.

   All global names carry the prefix ns_ (one flat extracted OCaml module). *)
From LibcoapV Require Import Base.Tactics.
Local Open Scope Z_scope.

Record ns_msg := ns_mkmsg { ns_con : bool; ns_mid : Z; ns_tok : Z }.
(* a coap_queue_t: the pdu and retransmit_cnt *)
Record ns_node := ns_mknode { ns_nmsg : ns_msg; ns_cnt : Z }.

Record ns_cfg := ns_mkcfg {
  ns_nstart : Z;        (* session->nstart *)
  ns_maxrt : Z;         (* session->max_retransmit *)
  ns_udp : bool;        (* proto == COAP_PROTO_UDP: a disconnect leaves the session ESTABLISHED *)
  ns_fixed : bool;      (* the code as repaired (RST branch, failed retransmission write) *)
  ns_client : bool      (* COAP_SESSION_TYPE_CLIENT: own socket (closed by a disconnect), sends
                           requests (an empty ACK sets up a lg_crcv entry); otherwise a server-side
                           session on the endpoint's socket that sends responses / notifications *)
}.

Record ns_st := ns_mkst {
  ns_open : bool;             (* the session's socket is open (closed by a disconnect) *)
  ns_est : bool;              (* session->state == COAP_SESSION_STATE_ESTABLISHED *)
  ns_act : Z;                 (* session->con_active (uint8_t) *)
  ns_dq : list ns_node;       (* session->delayqueue *)
  ns_sq : list ns_node;       (* nodes of this session in context->sendqueue (order: first transmission) *)
  ns_lg : list Z              (* session->lg_crcv: requests that got an empty ACK and wait for a
                                 separate response (newest first); only consulted by a disconnect
                                 that has nothing else to report *)
}.

(* nack reasons = coap_nack_reason_t *)
Definition ns_TOO_MANY : Z := 0.
Definition ns_NOT_DELIVERABLE : Z := 1.
Definition ns_RST : Z := 2.
Definition ns_TLS_FAILED : Z := 3.
Definition ns_ICMP : Z := 4.

Inductive ns_ev :=
| NsSubmit (m : ns_msg)      (* coap_send() of a CON / NON *)
| NsAck (mid : Z)            (* an (empty) ACK arrives *)
| NsRst (mid : Z)            (* a RST arrives *)
| NsTick (mid : Z)           (* retransmission timer of this in-flight message fires *)
| NsSep (tok : Z)            (* a separate (NON) response with this token arrives: cancel by token *)
| NsUp                       (* handshake finished: coap_session_connected() *)
| NsFail (reason : Z).       (* coap_session_disconnected(reason) *)

Inductive ns_out :=
| NsTx (m : ns_msg)          (* first transmission (datagram on the wire) *)
| NsRe (m : ns_msg)          (* retransmission (datagram on the wire) *)
| NsAcc                      (* coap_send() returned the mid *)
| NsRef                      (* coap_send() returned COAP_INVALID_MID *)
| NsNack (reason mid : Z) (haspdu : bool)   (* nack handler called *)
| NsDrop (m : ns_msg)        (* ghost: a held message is discarded by a disconnect (not observable
                                for a NON; a CON additionally gets its NsNack) *)
| NsErrW (m : ns_msg).       (* the socket write of this message failed (only produced by the
                                write-failure extension NstartFail.v) *)

Definition ns_ncon (n : ns_node) : bool := ns_con (ns_nmsg n).
Definition ns_nmid (n : ns_node) : Z := ns_mid (ns_nmsg n).

(* con_active is a uint8_t *)
Definition ns_inc (a : Z) : Z := (a + 1) mod 256.

Definition ns_set_sq (s : ns_st) (q : list ns_node) : ns_st :=
  ns_mkst (ns_open s) (ns_est s) (ns_act s) (ns_dq s) q (ns_lg s).
Definition ns_set_act (s : ns_st) (a : Z) : ns_st :=
  ns_mkst (ns_open s) (ns_est s) a (ns_dq s) (ns_sq s) (ns_lg s).

(* the while loop of coap_session_connected():
   -> (con_active, rest of the delay queue, CON nodes handed to coap_wait_ack, datagrams) *)
Fixpoint ns_drain (c : ns_cfg) (act : Z) (dq : list ns_node)
  : Z * list ns_node * list ns_node * list ns_out :=
  match dq with
  | [] => (act, [], [], [])
  | q :: rest =>
    if ns_ncon q then
      if ns_nstart c <=? act then (act, dq, [], [])
      else
        match ns_drain c (ns_inc act) rest with
        | (a, r, s, o) =>
          (a, r, q :: s, (if ns_cnt q =? 0 then NsTx (ns_nmsg q) else NsRe (ns_nmsg q)) :: o)
        end
    else
      match ns_drain c act rest with
      | (a, r, s, o) => (a, r, s, NsTx (ns_nmsg q) :: o)
      end
  end.

(* coap_session_connected() *)
Definition ns_connected (c : ns_cfg) (s : ns_st) : ns_st * list ns_out :=
  match ns_drain c (ns_act s) (ns_dq s) with
  | (a, r, snt, o) => (ns_mkst (ns_open s) true a r (ns_sq s ++ snt) (ns_lg s), o)
  end.

(* "if (session->con_active) { session->con_active--; if (ESTABLISHED) coap_session_connected(); }" *)
Definition ns_dec_drain (c : ns_cfg) (s : ns_st) : ns_st * list ns_out :=
  if ns_act s =? 0 then (s, [])
  else
    let s1 := ns_set_act s (ns_act s - 1) in
    if ns_est s1 then ns_connected c s1 else (s1, []).

(* coap_remove_from_queue(&sendqueue, session, id, &node): first node with this id *)
Fixpoint ns_remove (mid : Z) (l : list ns_node) : option (ns_node * list ns_node) :=
  match l with
  | [] => None
  | n :: r =>
    if ns_nmid n =? mid then Some (n, r)
    else match ns_remove mid r with
         | Some (x, r') => Some (x, n :: r')
         | None => None
         end
  end.

(* retransmit_cnt++ of the first node with this id (it stays in the send queue) *)
Fixpoint ns_bump (mid : Z) (l : list ns_node) : list ns_node :=
  match l with
  | [] => []
  | n :: r =>
    if ns_nmid n =? mid then ns_mknode (ns_nmsg n) (ns_cnt n + 1) :: r
    else n :: ns_bump mid r
  end.

(* coap_send() -> coap_send_internal -> coap_send_pdu(session, pdu, NULL) *)
Definition ns_submit (c : ns_cfg) (s : ns_st) (m : ns_msg) : ns_st * list ns_out :=
  if negb (ns_est s) || (ns_con m && (ns_nstart c <=? ns_act s)) then
    (* coap_session_delay_pdu(session, pdu, NULL) *)
    if existsb (fun q => ns_nmid q =? ns_mid m) (ns_dq s) then (s, [NsRef])
    else (ns_mkst (ns_open s) (ns_est s) (ns_act s) (ns_dq s ++ [ns_mknode m 0]) (ns_sq s) (ns_lg s), [NsAcc])
  else if ns_con m then
    (ns_mkst (ns_open s) (ns_est s) (ns_inc (ns_act s)) (ns_dq s) (ns_sq s ++ [ns_mknode m 0]) (ns_lg s), [NsAcc; NsTx m])
  else (s, [NsAcc; NsTx m]).

(* case COAP_MESSAGE_ACK of coap_dispatch *)
Definition ns_ack (c : ns_cfg) (s : ns_st) (mid : Z) : ns_st * list ns_out :=
  match ns_remove mid (ns_sq s) with
  | None => (s, [])
  | Some (n, q) =>
    (* an empty ACK of a request: a lg_crcv entry is set up to wait for the separate response *)
    match ns_dec_drain c (ns_set_sq s q) with
    | (s1, o) => (ns_mkst (ns_open s1) (ns_est s1) (ns_act s1) (ns_dq s1) (ns_sq s1)
                           (if ns_client c then mid :: ns_lg s1 else ns_lg s1), o)
    end
  end.

(* case COAP_MESSAGE_RST of coap_dispatch *)
Definition ns_rst (c : ns_cfg) (s : ns_st) (mid : Z) : ns_st * list ns_out :=
  if ns_fixed c then
    match ns_remove mid (ns_sq s) with
    | None => (s, [NsNack ns_RST mid false])
    | Some (n, q) =>
      match (if ns_ncon n then ns_dec_drain c (ns_set_sq s q) else (ns_set_sq s q, [])) with
      | (s2, o) => (s2, o ++ (if ns_ncon n then [NsNack ns_RST mid true] else []))
      end
    end
  else
    match ns_dec_drain c s with
    | (s1, o) =>
      match ns_remove mid (ns_sq s1) with
      | None => (s1, o ++ [NsNack ns_RST mid false])
      | Some (n, q) =>
        (ns_set_sq s1 q, o ++ (if ns_ncon n then [NsNack ns_RST mid true] else []))
      end
    end.

(* coap_retransmit(context, node) for the node with this id *)
Definition ns_tick (c : ns_cfg) (s : ns_st) (mid : Z) : ns_st * list ns_out :=
  match ns_remove mid (ns_sq s) with
  | None => (s, [])
  | Some (n, q) =>
    if ns_cnt n <? ns_maxrt c then
      let n' := ns_mknode (ns_nmsg n) (ns_cnt n + 1) in
      let a1 := if ns_act s =? 0 then 0 else ns_act s - 1 in
      if negb (ns_est s) || (ns_ncon n && (ns_nstart c <=? a1)) then
        (* coap_session_delay_pdu(session, pdu, node): back to the delay queue *)
        (ns_mkst (ns_open s) (ns_est s) a1 (ns_dq s ++ [n']) q (ns_lg s), [])
      else
        (ns_mkst (ns_open s) (ns_est s) (if ns_ncon n then ns_inc a1 else a1) (ns_dq s) (ns_bump mid (ns_sq s)) (ns_lg s),
         [NsRe (ns_nmsg n)])
    else
      match ns_dec_drain c (ns_set_sq s q) with
      | (s2, o) => (s2, o ++ (if ns_ncon n then [NsNack ns_TOO_MANY mid true] else []))
      end
  end.

Fixpoint ns_dec_n (c : ns_cfg) (k : nat) (s : ns_st) : ns_st * list ns_out :=
  match k with
  | O => (s, [])
  | S k' =>
    match ns_dec_drain c s with
    | (s1, o1) => match ns_dec_n c k' s1 with (s2, o2) => (s2, o1 ++ o2) end
    end
  end.

(* handle_response() for a non-ACK response: coap_cancel_all_messages(context, session, token) *)
Definition ns_sep (c : ns_cfg) (s : ns_st) (tok : Z) : ns_st * list ns_out :=
  let hit := filter (fun n => ns_tok (ns_nmsg n) =? tok) (ns_sq s) in
  let keep := filter (fun n => negb (ns_tok (ns_nmsg n) =? tok)) (ns_sq s) in
  ns_dec_n c (length (filter ns_ncon hit)) (ns_set_sq s keep).

Definition ns_nacks (reason : Z) (l : list ns_node) : list ns_out :=
  flat_map (fun q => if ns_ncon q then [NsNack reason (ns_nmid q) true] else []) l.

Definition ns_drops (reason : Z) (l : list ns_node) : list ns_out :=
  flat_map (fun q => NsDrop (ns_nmsg q) ::
                     (if ns_ncon q then [NsNack reason (ns_nmid q) true] else [])) l.

(* coap_session_disconnected_lkd(session, reason) *)
Definition ns_fail (c : ns_cfg) (s : ns_st) (reason : Z) : ns_st * list ns_out :=
  (* "take the first one": reported here only if coap_cancel_session_messages() below will not
     report it (ICMP: nothing is removed; or the entry is not a CON) - /repo 62d0bc3 *)
  let first := match ns_sq s with
               | n :: _ => if (reason =? ns_ICMP) || negb (ns_ncon n)
                           then [NsNack reason (ns_nmid n) true] else []
               | [] => []
               end in
  (* "Unable to determine which request disconnection was for": the newest request waiting for
     a separate response, else a NACK without a pdu *)
  let fallback := match ns_lg s with m :: _ => [NsNack reason m true] | [] => [NsNack reason 0 false] end in
  if reason =? ns_ICMP then
    (s, match ns_sq s with [] => fallback | _ :: _ => first end)
  else
    let held := ns_drops reason (ns_dq s) in
    let sent_nack := match ns_sq s, filter ns_ncon (ns_dq s) with [], [] => false | _, _ => true end in
    (ns_mkst (negb (ns_client c)) (ns_udp c) 0 [] [] [],
     first ++ held ++ (if sent_nack then [] else fallback) ++ ns_nacks reason (ns_sq s)).

(* A client session whose socket was closed by a disconnect: coap_send() fails ("Socket
   closed"), no datagram can arrive any more, its send and delay queues are empty.  (A server-side
   session uses the endpoint's socket and goes on: queues emptied, con_active = 0.) *)
Definition ns_step (c : ns_cfg) (s : ns_st) (e : ns_ev) : ns_st * list ns_out :=
  if negb (ns_open s) then
    match e with NsSubmit _ => (s, [NsRef]) | _ => (s, []) end
  else
  match e with
  | NsSubmit m => ns_submit c s m
  | NsAck mid => ns_ack c s mid
  | NsRst mid => ns_rst c s mid
  | NsTick mid => ns_tick c s mid
  | NsSep tok => ns_sep c s tok
  | NsUp => ns_connected c s
  | NsFail r => ns_fail c s r
  end.

Definition ns_init (est0 : bool) : ns_st := ns_mkst true est0 0 [] [] [].

(* the observable history: every event with what it produced *)
Fixpoint ns_trace (c : ns_cfg) (s : ns_st) (evs : list ns_ev) : list (ns_ev * list ns_out) :=
  match evs with
  | [] => []
  | e :: r => match ns_step c s e with (s', o) => (e, o) :: ns_trace c s' r end
  end.

Fixpoint ns_run (c : ns_cfg) (s : ns_st) (evs : list ns_ev) : ns_st :=
  match evs with
  | [] => s
  | e :: r => ns_run c (fst (ns_step c s e)) r
  end.

(* ------------------------------------------------------------------------------------------
   The property as a checker of an observable history (used as the oracle on the
   implementation's own trace, and proved to accept every history of the model).
   It never looks at con_active: the in-flight set is computed from what was transmitted and
   what was acknowledged / reset / given up / cancelled. *)
Record ns_mon := ns_mkmon {
  ns_mopen : bool;             (* no disconnect so far *)
  ns_mest : bool;
  ns_minfl : list ns_msg;      (* CONs transmitted and not finished, in order of transmission *)
  ns_mpend : list ns_msg       (* accepted and not yet transmitted, in order of submission *)
}.

Definition ns_msg_eqb (a b : ns_msg) : bool :=
  Bool.eqb (ns_con a) (ns_con b) && (ns_mid a =? ns_mid b) && (ns_tok a =? ns_tok b).

Fixpoint ns_rm_mid (mid : Z) (l : list ns_msg) : list ns_msg :=
  match l with
  | [] => []
  | m :: r => if ns_mid m =? mid then r else m :: ns_rm_mid mid r
  end.

Definition ns_txs (o : list ns_out) : list ns_msg :=
  flat_map (fun x => match x with NsTx m => [m] | _ => [] end) o.
Definition ns_res (o : list ns_out) : list ns_msg :=
  flat_map (fun x => match x with NsRe m => [m] | _ => [] end) o.
Definition ns_gaveup (o : list ns_out) : list Z :=
  flat_map (fun x => match x with
                     | NsNack r mid _ => if r =? ns_TOO_MANY then [mid] else []
                     | _ => [] end) o.
Definition ns_nack_count (mid : Z) (o : list ns_out) : nat :=
  length (filter (fun x => match x with NsNack _ m _ => m =? mid | _ => false end) o).
Definition ns_accepted (o : list ns_out) : bool :=
  existsb (fun x => match x with NsAcc => true | _ => false end) o.

(* first transmissions leaving the delay queue: each must be the oldest held message; a CON
   then counts as in flight and the bound is checked at once *)
Fixpoint ns_mon_txs (nstart : Z) (infl pend : list ns_msg) (txs : list ns_msg)
  : option (list ns_msg * list ns_msg) :=
  match txs with
  | [] => Some (infl, pend)
  | x :: r =>
    match pend with
    | [] => None
    | p :: pr =>
      if ns_msg_eqb x p then
        let infl' := if ns_con x then infl ++ [x] else infl in
        if Z.of_nat (length infl') <=? nstart then ns_mon_txs nstart infl' pr r else None
      else None
    end
  end.

(* nothing waits without a reason: on an established session the oldest held message is a CON
   and all NSTART slots are taken *)
Definition ns_quiescent (nstart : Z) (est : bool) (infl pend : list ns_msg) : bool :=
  if est then
    match pend with
    | [] => true
    | p :: _ => ns_con p && (Z.of_nat (length infl) =? nstart)
    end
  else true.

Definition ns_mon_finish (c : ns_cfg) (est : bool) (infl pend : list ns_msg) (o : list ns_out)
  : option ns_mon :=
  match ns_mon_txs (ns_nstart c) infl pend (ns_txs o) with
  | None => None
  | Some (infl', pend') =>
    if ns_quiescent (ns_nstart c) est infl' pend' then Some (ns_mkmon true est infl' pend') else None
  end.

Definition ns_mon_step (c : ns_cfg) (m : ns_mon) (e : ns_ev) (o : list ns_out) : option ns_mon :=
  if negb (ns_mopen m) then
    (* after a disconnect: nothing is transmitted or reported, coap_send() is refused *)
    match e, o with
    | NsSubmit _, [NsRef] => Some m
    | NsSubmit _, _ => None
    | _, [] => Some m
    | _, _ => None
    end
  else
  (* given-up messages are finished from the start of the event (the NACK callback comes after
     the next held message was handed to the socket, inside the same library call) *)
  let infl0 := fold_left (fun l mid => ns_rm_mid mid l) (ns_gaveup o) (ns_minfl m) in
  (* a retransmission is only ever of a message that is in flight *)
  if negb (forallb (fun x => existsb (fun y => ns_mid y =? ns_mid x) infl0) (ns_res o)) then None
  else
  match e with
  | NsSubmit x =>
    if ns_accepted o then
      match ns_txs o with
      | [] =>
        (* held: never a NON on an established session *)
        if ns_mest m && negb (ns_con x) then None
        else if ns_quiescent (ns_nstart c) (ns_mest m) infl0 (ns_mpend m ++ [x])
             then Some (ns_mkmon true (ns_mest m) infl0 (ns_mpend m ++ [x])) else None
      | [y] =>
        if ns_msg_eqb y x && ns_mest m then
          let infl' := if ns_con x then infl0 ++ [x] else infl0 in
          if Z.of_nat (length infl') <=? ns_nstart c
          then Some (ns_mkmon true (ns_mest m) infl' (ns_mpend m)) else None
        else None
      | _ => None
      end
    else
      (* refused: only a message id that is already waiting, and nothing is transmitted *)
      match ns_txs o with
      | [] => if existsb (fun p => ns_mid p =? ns_mid x) (ns_mpend m)
              then Some (ns_mkmon true (ns_mest m) infl0 (ns_mpend m)) else None
      | _ => None
      end
  | NsAck mid | NsRst mid =>
    ns_mon_finish c (ns_mest m) (ns_rm_mid mid infl0) (ns_mpend m) o
  | NsTick mid =>
    (* the timer of a message that counts as in flight retransmits it or gives it up: a message
       the session still counts but no longer has in its send queue would block its slot for ever *)
    if existsb (fun y => ns_mid y =? mid) (ns_minfl m) &&
       negb (existsb (fun x => x =? mid) (ns_gaveup o) ||
             existsb (fun y => ns_mid y =? mid) (ns_res o))
    then None
    else ns_mon_finish c (ns_mest m) infl0 (ns_mpend m) o
  | NsSep tok =>
    ns_mon_finish c (ns_mest m) (filter (fun y => negb (ns_tok y =? tok)) infl0) (ns_mpend m) o
  | NsUp =>
    ns_mon_finish c true infl0 (ns_mpend m) o
  | NsFail r =>
    if r =? ns_ICMP then
      match ns_txs o with [] => Some (ns_mkmon true (ns_mest m) infl0 (ns_mpend m)) | _ => None end
    else
      (* every held CON is reported by exactly one NACK and nothing is transmitted *)
      match ns_txs o with
      | [] =>
        if forallb (fun p => negb (ns_con p) || Nat.eqb (ns_nack_count (ns_mid p) o) 1) (ns_mpend m)
        then Some (ns_mkmon (negb (ns_client c)) (ns_udp c) [] []) else None
      | _ => None
      end
  end.

Fixpoint ns_mon_run (c : ns_cfg) (m : ns_mon) (t : list (ns_ev * list ns_out)) : option ns_mon :=
  match t with
  | [] => Some m
  | (e, o) :: r =>
    match ns_mon_step c m e o with
    | None => None
    | Some m' => ns_mon_run c m' r
    end
  end.

Definition ns_accepts (c : ns_cfg) (est0 : bool) (t : list (ns_ev * list ns_out)) : bool :=
  match ns_mon_run c (ns_mkmon true est0 [] []) t with Some _ => true | None => false end.

(* index of the first rejected step (for the replay files); None = accepted *)
Fixpoint ns_mon_first_bad (c : ns_cfg) (m : ns_mon) (t : list (ns_ev * list ns_out)) (i : Z)
  : option Z :=
  match t with
  | [] => None
  | (e, o) :: r =>
    match ns_mon_step c m e o with
    | None => Some i
    | Some m' => ns_mon_first_bad c m' r (i + 1)
    end
  end.

(* ------------------------------------------------------------------------------------------
   Several sessions of one context.  Sessions only share the send queue, whose entries are
   matched by (session, id); at this level each session is its own machine.  (The shared-queue
   refinement is NstartCtx.v.) *)
Definition ns_ctx := Z -> ns_st.

Definition ns_cstep (cf : Z -> ns_cfg) (x : ns_ctx) (sid : Z) (e : ns_ev) : ns_ctx * list ns_out :=
  match ns_step (cf sid) (x sid) e with
  | (s', o) => (fun k => if k =? sid then s' else x k, o)
  end.

(* ------------------------------------------------------------------------------------------
   The peer of the property: it only acknowledges or resets messages it actually received,
   i.e. message ids that were on the wire before. *)
Fixpoint ns_peer_ok (seen : list Z) (t : list (ns_ev * list ns_out)) : bool :=
  match t with
  | [] => true
  | (e, o) :: r =>
    (match e with
     | NsAck mid | NsRst mid => existsb (fun x => x =? mid) seen
     | _ => true
     end) && ns_peer_ok (seen ++ map ns_mid (ns_txs o)) r
  end.

(* submissions use fresh message ids (coap_new_message_id) unless they repeat one that is
   still waiting (that one is refused) - stated on the event list *)
Fixpoint ns_sub_mids (evs : list ns_ev) : list Z :=
  match evs with
  | [] => []
  | NsSubmit m :: r => ns_mid m :: ns_sub_mids r
  | _ :: r => ns_sub_mids r
  end.

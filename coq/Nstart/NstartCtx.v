(* C08 - several sessions of one context sharing context->sendqueue.

   In libcoap the retransmission queue belongs to the context; its entries carry their session
   and are looked up by (session, message id) (coap_remove_from_queue), by (session, token)
   (coap_cancel_all_messages) or by session (coap_session_disconnected_lkd,
   coap_cancel_session_messages).  This file transcribes the events of Nstart.v against such a
   shared queue and proves that every session behaves exactly as the single-session machine
   [ns_step] on its own view of the queue, and that an event of one session leaves the views of
   all other sessions untouched (NstartCtxProofs.v).  Hence every theorem of Properties_C08
   holds for each session of a context, whatever the other sessions do. *)
From LibcoapV Require Import Base.Tactics Nstart.Nstart.
Local Open Scope Z_scope.

Record nsc_node := nsc_mknode { nsc_sid : Z; nsc_nd : ns_node }.

(* per-session data (the ns_sq field of these records is not used: the queue is shared) *)
Record nsc_ctx := nsc_mk { nsc_ss : Z -> ns_st; nsc_q : list nsc_node }.

Definition nsc_mine (sid : Z) (n : nsc_node) : bool := nsc_sid n =? sid.

(* the nodes of one session, in queue order *)
Definition nsc_view (sid : Z) (q : list nsc_node) : list ns_node :=
  map nsc_nd (filter (nsc_mine sid) q).

(* coap_remove_from_queue(&context->sendqueue, session, id, &node) *)
Fixpoint nsc_remove (sid mid : Z) (l : list nsc_node) : option (nsc_node * list nsc_node) :=
  match l with
  | [] => None
  | n :: r =>
    if nsc_mine sid n && (ns_nmid (nsc_nd n) =? mid) then Some (n, r)
    else match nsc_remove sid mid r with
         | Some (x, r') => Some (x, n :: r')
         | None => None
         end
  end.

Fixpoint nsc_bump (sid mid : Z) (l : list nsc_node) : list nsc_node :=
  match l with
  | [] => []
  | n :: r =>
    if nsc_mine sid n && (ns_nmid (nsc_nd n) =? mid)
    then nsc_mknode (nsc_sid n) (ns_mknode (ns_nmsg (nsc_nd n)) (ns_cnt (nsc_nd n) + 1)) :: r
    else n :: nsc_bump sid mid r
  end.

Definition nsc_tag (sid : Z) (l : list ns_node) : list nsc_node := map (nsc_mknode sid) l.

(* coap_session_connected(session): new CON nodes go to the shared queue *)
Definition nsc_connected (c : ns_cfg) (sid : Z) (s : ns_st) (q : list nsc_node)
  : ns_st * list nsc_node * list ns_out :=
  match ns_drain c (ns_act s) (ns_dq s) with
  | (a, r, snt, o) => (ns_mkst (ns_open s) true a r [] (ns_lg s), q ++ nsc_tag sid snt, o)
  end.

Definition nsc_dec_drain (c : ns_cfg) (sid : Z) (s : ns_st) (q : list nsc_node)
  : ns_st * list nsc_node * list ns_out :=
  if ns_act s =? 0 then (s, q, [])
  else
    let s1 := ns_set_act s (ns_act s - 1) in
    if ns_est s1 then nsc_connected c sid s1 q else (s1, q, []).

Fixpoint nsc_dec_n (c : ns_cfg) (sid : Z) (k : nat) (s : ns_st) (q : list nsc_node)
  : ns_st * list nsc_node * list ns_out :=
  match k with
  | O => (s, q, [])
  | S k' =>
    match nsc_dec_drain c sid s q with
    | (s1, q1, o1) =>
      match nsc_dec_n c sid k' s1 q1 with (s2, q2, o2) => (s2, q2, o1 ++ o2) end
    end
  end.

Definition nsc_submit (c : ns_cfg) (sid : Z) (s : ns_st) (q : list nsc_node) (m : ns_msg)
  : ns_st * list nsc_node * list ns_out :=
  if negb (ns_est s) || (ns_con m && (ns_nstart c <=? ns_act s)) then
    if existsb (fun d => ns_nmid d =? ns_mid m) (ns_dq s) then (s, q, [NsRef])
    else (ns_mkst (ns_open s) (ns_est s) (ns_act s) (ns_dq s ++ [ns_mknode m 0]) (ns_sq s) (ns_lg s),
          q, [NsAcc])
  else if ns_con m then
    (ns_mkst (ns_open s) (ns_est s) (ns_inc (ns_act s)) (ns_dq s) (ns_sq s) (ns_lg s),
     q ++ [nsc_mknode sid (ns_mknode m 0)], [NsAcc; NsTx m])
  else (s, q, [NsAcc; NsTx m]).

Definition nsc_ack (c : ns_cfg) (sid : Z) (s : ns_st) (q : list nsc_node) (mid : Z)
  : ns_st * list nsc_node * list ns_out :=
  match nsc_remove sid mid q with
  | None => (s, q, [])
  | Some (n, q') =>
    match nsc_dec_drain c sid s q' with
    | (s1, q1, o) =>
      (ns_mkst (ns_open s1) (ns_est s1) (ns_act s1) (ns_dq s1) (ns_sq s1)
               (if ns_client c then mid :: ns_lg s1 else ns_lg s1), q1, o)
    end
  end.

Definition nsc_rst (c : ns_cfg) (sid : Z) (s : ns_st) (q : list nsc_node) (mid : Z)
  : ns_st * list nsc_node * list ns_out :=
  if ns_fixed c then
    match nsc_remove sid mid q with
    | None => (s, q, [NsNack ns_RST mid false])
    | Some (n, q') =>
      match (if ns_ncon (nsc_nd n) then nsc_dec_drain c sid s q' else (s, q', [])) with
      | (s2, q2, o) =>
        (s2, q2, o ++ (if ns_ncon (nsc_nd n) then [NsNack ns_RST mid true] else []))
      end
    end
  else
    match nsc_dec_drain c sid s q with
    | (s1, q1, o) =>
      match nsc_remove sid mid q1 with
      | None => (s1, q1, o ++ [NsNack ns_RST mid false])
      | Some (n, q2) =>
        (s1, q2, o ++ (if ns_ncon (nsc_nd n) then [NsNack ns_RST mid true] else []))
      end
    end.

Definition nsc_tick (c : ns_cfg) (sid : Z) (s : ns_st) (q : list nsc_node) (mid : Z)
  : ns_st * list nsc_node * list ns_out :=
  match nsc_remove sid mid q with
  | None => (s, q, [])
  | Some (n, q') =>
    let nd := nsc_nd n in
    if ns_cnt nd <? ns_maxrt c then
      let n' := ns_mknode (ns_nmsg nd) (ns_cnt nd + 1) in
      let a1 := if ns_act s =? 0 then 0 else ns_act s - 1 in
      if negb (ns_est s) || (ns_ncon nd && (ns_nstart c <=? a1)) then
        (ns_mkst (ns_open s) (ns_est s) a1 (ns_dq s ++ [n']) (ns_sq s) (ns_lg s), q', [])
      else
        (ns_mkst (ns_open s) (ns_est s) (if ns_ncon nd then ns_inc a1 else a1) (ns_dq s) (ns_sq s)
                 (ns_lg s),
         nsc_bump sid mid q, [NsRe (ns_nmsg nd)])
    else
      match nsc_dec_drain c sid s q' with
      | (s2, q2, o) => (s2, q2, o ++ (if ns_ncon nd then [NsNack ns_TOO_MANY mid true] else []))
      end
  end.

Definition nsc_hit (sid tok : Z) (n : nsc_node) : bool :=
  nsc_mine sid n && (ns_tok (ns_nmsg (nsc_nd n)) =? tok).

(* coap_cancel_all_messages(context, session, token) *)
Definition nsc_sep (c : ns_cfg) (sid : Z) (s : ns_st) (q : list nsc_node) (tok : Z)
  : ns_st * list nsc_node * list ns_out :=
  let hit := filter (nsc_hit sid tok) q in
  let keep := filter (fun n => negb (nsc_hit sid tok n)) q in
  nsc_dec_n c sid (length (filter (fun n => ns_ncon (nsc_nd n)) hit)) s keep.

(* coap_session_disconnected_lkd(session, reason) + coap_cancel_session_messages() *)
Definition nsc_fail (c : ns_cfg) (sid : Z) (s : ns_st) (q : list nsc_node) (reason : Z)
  : ns_st * list nsc_node * list ns_out :=
  let mine := nsc_view sid q in
  let first := match mine with
               | n :: _ => if (reason =? ns_ICMP) || negb (ns_ncon n)
                           then [NsNack reason (ns_nmid n) true] else []
               | [] => []
               end in
  let fallback := match ns_lg s with m :: _ => [NsNack reason m true] | [] => [NsNack reason 0 false] end in
  if reason =? ns_ICMP then
    (s, q, match mine with [] => fallback | _ :: _ => first end)
  else
    let held := ns_drops reason (ns_dq s) in
    let sent_nack := match mine, filter ns_ncon (ns_dq s) with [], [] => false | _, _ => true end in
    (ns_mkst (negb (ns_client c)) (ns_udp c) 0 [] [] [],
     filter (fun n => negb (nsc_mine sid n)) q,
     first ++ held ++ (if sent_nack then [] else fallback) ++ ns_nacks reason mine).

(* one event of session [sid] *)
Definition nsc_step (cf : Z -> ns_cfg) (x : nsc_ctx) (sid : Z) (e : ns_ev) : nsc_ctx * list ns_out :=
  let c := cf sid in
  let s := nsc_ss x sid in
  let q := nsc_q x in
  let r :=
    if negb (ns_open s) then
      match e with NsSubmit _ => (s, q, [NsRef]) | _ => (s, q, []) end
    else
    match e with
    | NsSubmit m => nsc_submit c sid s q m
    | NsAck mid => nsc_ack c sid s q mid
    | NsRst mid => nsc_rst c sid s q mid
    | NsTick mid => nsc_tick c sid s q mid
    | NsSep tok => nsc_sep c sid s q tok
    | NsUp => nsc_connected c sid s q
    | NsFail rr => nsc_fail c sid s q rr
    end in
  match r with
  | (s', q', o) => (nsc_mk (fun k => if k =? sid then s' else nsc_ss x k) q', o)
  end.

(* what session [sid] is, seen alone *)
Definition nsc_proj (x : nsc_ctx) (sid : Z) : ns_st :=
  ns_set_sq (nsc_ss x sid) (nsc_view sid (nsc_q x)).

Definition nsc_init (est0 : Z -> bool) : nsc_ctx := nsc_mk (fun k => ns_init (est0 k)) [].

Fixpoint nsc_run (cf : Z -> ns_cfg) (x : nsc_ctx) (evs : list (Z * ns_ev)) : nsc_ctx :=
  match evs with
  | [] => x
  | (sid, e) :: r => nsc_run cf (fst (nsc_step cf x sid e)) r
  end.

Fixpoint nsc_trace (cf : Z -> ns_cfg) (x : nsc_ctx) (evs : list (Z * ns_ev))
  : list (Z * ns_ev * list ns_out) :=
  match evs with
  | [] => []
  | (sid, e) :: r =>
    match nsc_step cf x sid e with (x', o) => (sid, e, o) :: nsc_trace cf x' r end
  end.

(* the events / the history of one session *)
Definition nsc_evs_of (sid : Z) (evs : list (Z * ns_ev)) : list ns_ev :=
  map snd (filter (fun p => fst p =? sid) evs).

Definition nsc_trace_of (sid : Z) (t : list (Z * ns_ev * list ns_out)) : list (ns_ev * list ns_out) :=
  map (fun p => (snd (fst p), snd p)) (filter (fun p => fst (fst p) =? sid) t).
